#!/usr/bin/env python3
"""validate MANIFEST.json and evidence/*.json against the given schemas (uses the tooling venv's jsonschema)"""
import glob, json, sys
import jsonschema
ok = True
def chk(path, schema):
    global ok
    try:
        jsonschema.validate(json.load(open(path)), json.load(open(schema)))
        print("valid  ", path)
    except Exception as e:  # noqa
        ok = False
        print("INVALID", path, str(e)[:400])
chk("/verif/MANIFEST.json", "/root/.vp/MANIFEST.schema.json")
for p in sorted(glob.glob("/verif/evidence/*.json")):
    chk(p, "/root/.vp/EVIDENCE.schema.json")
sys.exit(0 if ok else 1)
