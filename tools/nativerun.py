"""Build the mirror crate natively (cfg verif_replay) and run the replay binary: `search <name>` / `run <name> <input>`."""
import json
import os
import subprocess

import mirror
from plan import NATIVE_FILES

VERIF = os.path.dirname(os.path.dirname(os.path.abspath(__file__)))
NDIR = os.path.join(VERIF, "contracts", "native")


def native_map():
    return {m: [os.path.join(NDIR, f) for f in fs] for m, fs in NATIVE_FILES.items()}


def build(repo, crate):
    os.makedirs(crate, exist_ok=True)
    mirror.make_crate(repo, crate, {}, native_files=native_map())
    env = dict(os.environ, CARGO_NET_OFFLINE="true", RUSTFLAGS="--cfg verif_replay -A warnings")
    p = subprocess.run(["cargo", "build", "--offline", "--quiet", "--bin", "replay"], cwd=crate, capture_output=True, text=True, env=env)
    if p.returncode != 0:
        return None, (p.stderr or p.stdout)[-3000:]
    return os.path.join(crate, "target", "debug", "replay"), ""


def call(binary, cmd, name, arg="", timeout=900):
    try:
        p = subprocess.run([binary, cmd, name] + ([arg] if arg else []), capture_output=True, text=True, timeout=timeout)
    except subprocess.TimeoutExpired:
        return dict(error="timeout")
    out = p.stdout.strip().splitlines()
    for ln in reversed(out):
        try:
            return json.loads(ln)
        except json.JSONDecodeError:
            continue
    return dict(error="no json from replay binary", raw=(p.stdout + p.stderr)[-1500:])


if __name__ == "__main__":
    import sys
    repo = "/repo"
    args = sys.argv[1:]
    if args and args[0] == "--repo":
        repo, args = args[1], args[2:]
    b, err = build(repo, os.path.join(VERIF, ".work", "native"))
    if not b:
        print("BUILD FAILED\n" + err)
        sys.exit(2)
    print(json.dumps(call(b, *args), indent=1))
