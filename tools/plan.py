"""Which units / harness files decide which property.  Harness membership and tiers are read from the
`// @harness` lines of the files themselves; this table only says where to look."""

# module -> harness file(s) under contracts/kani appended to that module's mirror
KANI_FILES = {
    "random": ["random.rs"],
    "tensor": ["libm.rs", "tensor.rs"],
    "activation": ["activation.rs"],
    "objective": ["objective.rs"],
    "optimizer": ["optimizer.rs"],
    "network": ["layers.rs", "network.rs"],
    "feedback": ["feedback.rs"],
    "dense": ["dense.rs"],
    "maxpool": ["maxpool.rs"],
    "convolution": ["convolution.rs"],
    "deconvolution": ["deconvolution.rs"],
}

# module -> native replay/search file(s) under contracts/native appended to that module's mirror (cfg verif_replay)
NATIVE_FILES = {
    "network": ["layers.rs"],
    "optimizer": ["optimizer.rs"],
}

PLAN = {
    "C01": dict(
        title="Backpropagated gradients are the true derivatives of the objective",
        level="proof",
        verus=["C01_conv_backward.rs", "C01_deconv_backward.rs", "C01_maxpool_backward.rs", "C07_activations.rs", "C16_skip_backward.rs", "C02_dense.rs", "C01_feedback_backward.rs", "C01_backward_glue.rs", "C15_hadamard3d.rs", "C07_linear.rs"],
        kani=True,
        native_checks=[("network.gradient", "bounded native grid: backward() against exact step-1 difference quotients on 5 architectures mixing dense / convolution / deconvolution and flat<->spatial transitions (integer data, linear activations)"),
                       ("dense.linear.backward", "bounded native grid: Dense::backward of a linear layer: input gradient W^T g, weight gradient g x^T, bias gradient g iff the layer has a bias, on every rows x cols up to 5 x 5 (non-square included), integer data (exact)")],
        undecided_clauses=[
            "Dense::backward is proved to be the delta rule over abstract tensor operations (unit dense.backward: delta = f'(out) (.) g * scale, ones for soft-max; "
            "W^T delta; delta (x) input; bias gradient = delta), the operations themselves are C15's; numerically it is a bounded Kani harness (2->2 / 1->2, small-integer data)",
            "the reverse step of Network::backward is proved (unit network.backward.walk: which gradient and which input each layer's backward "
            "receives, what is handed on); the reverse step of Feedback::backward is proved for blocks without internal skips, the class C01 names (unit feedback.backward.walk; the skip branch is "
            "proved unreachable there); the loop-connection scaling (`loops`, `scale`) is read, not verified"],
    ),
    "C02": dict(
        title="Each layer's forward pass computes its defining operator",
        level="proof",
        verus=["C02_convolve.rs", "C02_deconv_forward.rs", "C02_maxpool_forward.rs", "C02_pad3d.rs", "C17_network_forward.rs", "C02_dense.rs", "C02_forward_glue.rs", "C02_flat_view.rs"],
        kani=True,
        native_checks=[("dense.linear.forward", "bounded native grid: Dense::forward of a linear layer = W x + b on every rows x cols up to 5 x 5 (non-square included), with and without bias, integer data (exact)")],
        undecided_clauses=["max-pool: inputs are required to be above f32::MIN (the scan's start value); an element equal to f32::MIN in a 1x1 window would "
                           "record index (0,0)",
                           "dense W x + b: the composition is proved over abstract operations (unit dense.forward), dot itself for every size (unit tensor.dot, C15); numerically a bounded Kani harness (2->2) and the native grid dense.linear.forward (up to 5x5, non-square); a network's prediction = composition of its layers is proved at the level of abstract layer functions (units network._forward and network.forward: fold over the layers, with skip / loop handling)",
                           "the glue of the four forward functions is proved at the level of abstract operations (units dense.forward, conv/deconv/maxpool.forward.glue: W x + b then "
                           "activation; padding extents and kernel order; dropout only when training; flatten only when flagged); that the kernels' preconditions (rectangular "
                           "operands, sizes in range) hold where they are called is read (Convolution::create validates them); the flat-input view of the three spatial layers is proved for every size "
                           "(units *.flat_view, R49) and additionally run by bounded Kani regions with the real chunks_exact"],
    ),
    "C04": dict(
        title="Training is ordered mini-batch gradient-sum descent",
        level="proof",
        verus=["C04_learn_epoch.rs", "C03_network_update.rs"],
        kani=True,
        native_checks=[("learn.schedule", "bounded native grid: learn() against the statement executed literally (ordered groups, one step per group with step number = epoch, loss = mean of group means), 180 (N, B, E, optimizer) instances")],
        undecided_clauses=[
            "the forward pass, objective, backward pass and parameter update are abstract functions of the network state in the epoch unit (what they "
            "compute is C02 / C06 / C01 / C03); that Network::update applies exactly one optimizer step per parameter tensor with the given step number is proved per layer "
            "(unit network.update.dispatch), the element step itself is C03's; the `iter_mut().rev().enumerate().for_each` around that closure is trusted adapter semantics",
            "rayon's `batch.into_par_iter().map(..).collect()` is replaced by a sequential in-order loop (R25): that the parallel map keeps input order is "
            "assumed (C05's subject, not applicable); the consuming `for (wg, wb, loss) in results` is rewritten to `remove(0)` steps (R29)",
            "the group list: `par_chunks(batch)` = consecutive groups of B in order, last one shorter - checked with std's `chunks` on N <= 4, B <= 5 by a bounded "
            "Kani harness on the verbatim statement, assumed beyond that bound and for rayon's implementation",
            "the epoch loop around the epoch region is proved too (unit learn.whole: epoch t runs the region with step number t, until early stopping); in that unit the two "
            "flag-setting regions and validate() are assumed to leave the weights alone (C09's subject)",
            "std's float `sum` and `usize as f32` are opaque (R27 / R28): 'mean' is proved as (std sum of the per-sample losses in order) / (group size)"],
    ),
    "C08": dict(
        title="Announced layer shapes equal produced shapes; transitions lose nothing",
        level="proof",
        verus=["C08_output_size.rs", "C08_flat_accept.rs", "C02_convolve.rs", "C02_deconv_forward.rs", "C02_maxpool_forward.rs", "C02_pad3d.rs", "C02_flat_view.rs", "C08_dense_after.rs", "C08_spatial_builders.rs"],
        kani=True,
        native_checks=[("isqrt.floor", "(size as f32).sqrt() as usize == floor(sqrt(size)) for every size < 2^24: the contract of the opaque "
                                       "isqrt_f32 assumed by the flat-size units, by exhaustion on the real expression"),
                       ("shapes.chain", "bounded native grid: 4000 random layer chains (depth <= 4, all layer kinds, random small configurations, flat and spatial inputs); for the ~1280 "
                                        "the builder accepts (non-empty outputs): the forward and backward passes run, every layer produces the shape it announced (flattened before a dense layer), "
                                        "every weight / kernel gradient has its parameter's shape")],
        undecided_clauses=["builder chaining is proved one step at a time (units network.convolution / deconvolution / maxpool: the new layer is created from the shape the previous layer announces; "
                           "network.dense.after: flattened count and flatten flag) and exercised end to end by the bounded native grid shapes.chain; Network::dense is proved as a whole (unit network.dense: first-layer arm, the region above by its contract, the push) against the contract that Dense::create records the two shapes it is given (read)",
                           "flat sizes >= 2^24 (the cast to f32 is no longer exact there)"],
    ),
    "C03": dict(
        title="Optimizer steps follow the documented update rules for every history",
        level="proof",
        verus=["C03_optimizers.rs", "C03_network_update.rs"],
        kani=True,
        undecided_clauses=[
            "which (layer, filter, bias) slot each parameter tensor is stepped in is proved for Network::update (unit network.update.dispatch: one step per parameter tensor, "
            "slot = (reverse layer index, filter, bias flag)); that distinct slots do not share state is the Kani slot harnesses' (SGD-momentum and Adam: symbolic slot over layers and over filters; AdamW and RMSprop: each of the 8 slots of a 2 x 2 x 2 layout in turn, concrete distinct state)",
            "parameters never become NaN/inf for moderate magnitudes (needs IEEE value reasoning through powi/powf/sqrt/div; "
            "one Adam element over the full float domain did not finish in CBMC; Verus has no float theory)"],
    ),
    "C06": dict(
        title="Objective functions return the documented loss and gradient",
        level="proof",
        verus=["C06_objectives.rs", "C06_loss_whole.rs", "C06_constructors.rs", "C15_clamp_whole.rs"],
        kani=True,
        native_checks=[("objective.derivative", "bounded native grid: for AE / MSE / BCE / KL the reported gradient against central difference quotients of the reported loss, both ranks"),
                       ("objective.elementwise", "bounded native grid: all 7 objectives, with and without a clamp, on flat tensors of length 1..5 and 3-D tensors of every extent triple up to 3 (non-square included; targets exactly 0, 1 and equal to the prediction included): loss = the documented aggregate, gradient shape and nesting = the prediction's, every gradient cell = the documented formula at the same nested index, limited to the clamp interval")],
        undecided_clauses=["the whole loss() of every objective is proved for every size of both ranks (units *.loss.whole) against contracts of Tensor::single / triple / clamp (each discharged on its real body: units tensor.single, tensor.triple, tensor.clamp) and get_flat (C14); "
                           "AE/MSE finiteness is stated for |a|,|p| <= 1e18 (larger finite inputs overflow the exact result)"],
    ),
    "C07": dict(
        title="Activations: defined function, exact derivative, total on finite floats",
        level="proof",
        verus=["C07_activations.rs", "C07_activation_whole.rs", "C07_linear.rs", "C07_softmax.rs"],
        kani=True,
        native_checks=[("activation.elementwise", "bounded native grid: forward and backward of ReLU / LeakyReLU / Sigmoid / Tanh / Linear on flat tensors of length 1..5 and 3-D tensors of every extent triple up to 3 (non-square included): output shape and nesting = input's, every cell = the definition applied to the input cell at the same nested index (bit-exact for the piecewise-linear activations, up to rounding for sigmoid and tanh)")],
        undecided_clauses=[
            "soft-max shift invariance: not decided (under rounding (v+c)-max(v+c) need not equal v-max(v); the subtraction of the maximum "
            "is what keeps it finite, which IS decided for n = 2; the 3-entry harness does not finish within 3000 s and is disabled)",
            "soft-max for vector lengths above 3"],
    ),
    "C09": dict(
        title="Dropout never leaks into prediction or validation",
        level="proof",
        verus=["C09_flags.rs", "C02_dense.rs", "C02_forward_glue.rs"],
        kani=True,
        native_checks=[("dropout.leak", "bounded native grid: networks with dropout 0.5 on every layer (dense, convolution, deconvolution+max-pool, feedback block): the validation metrics reported by learn() equal validate() on the trained network, validate() is repeatable, predictions equal those of the same weights without dropout; 24 instances")],
        undecided_clauses=["the five flag loops are proved for every layer sequence (units *.loop); the dropout GUARD of each layer kind is proved too (units dense.forward, "
                           "conv.forward.glue, deconv.forward.glue: dropout is applied iff the layer is training and a rate is set; max-pool has none) and additionally run by Kani per kind",
                           "composition: validate = prologue; per-sample predictions; epilogue and learn = entry; epochs; exit is proved at the level of abstract flag-setting "
                           "contracts (units network.validate, learn.whole), which restate - by reading - what the loop units prove",
                           "that predict() / forward() perform no write to the flags: they take &self (type system), not a proof obligation"],
    ),
    "C10": dict(
        title="Feedback blocks keep their repeated layers weight-tied",
        level="proof",
        verus=["C10_feedback.rs", "C10_unroll.rs", "C10_parameters.rs", "C03_network_update.rs"],
        kani=True,
        native_checks=[("feedback.tied", "bounded native grid: repetitions bit-identical at creation and after training, parameters() counts once; 192 block networks")],
        undecided_clauses=[
            "copies are equal at creation: proved for the unrolling region of Feedback::create (unit feedback.unroll, R52) under the assumption that the derived `Clone` of a layer returns an equal value",
            "the per-copy optimizer steps of Feedback::update are proved per layer (unit feedback.update.dispatch); the accumulation arms (add/subtract/multiply/mean over the "
            "members) are NOT verified; the claim is that whatever they produce, the final loop overwrites every member of every couple with ONE value and the couples "
            "cover every unrolled layer",
            "parameters() counting each shared parameter once: proved for Feedback::parameters (unit feedback.parameters: the sum of the layers' own counts over the first coupled.len() layers = one representative per group of tied repetitions, by the coupling table of unit feedback.coupled); the per-layer counts (Dense / Convolution::parameters) and Network::parameters' sum over the layers are read"],
    ),
    "C11": dict(
        title="A feedback block computes the repeated, optionally skip-combined, layer sequence",
        level="proof",
        verus=["C11_skip_table.rs", "C11_forward.rs", "C08_dense_after.rs", "C10_unroll.rs"],
        kani=True,
        native_checks=[("feedback.forward", "bounded native grid: Feedback::forward against the L-fold repeated, skip-combined layer sequence; 480 blocks")],
        undecided_clauses=[
            "tensors, shapes and each layer's forward pass are abstract in the forward unit (what a layer computes is C02; that the "
            "repetitions hold equal layers is C10; the element-wise meaning of add/sub/mul/mean is C15)",
            "that Feedback::create unrolls the layer list `loops` times is proved (unit feedback.unroll: repetition i of block layer l sits at l + i*length and equals the original); that Network::dense sets the flatten "
            "flag of a preceding spatial block (and layer) and takes the flattened count is proved (unit network.dense.after)"],
    ),
    "C12": dict(
        title="validate and predict_batch are faithful aggregations of predict",
        level="proof",
        verus=["C12_validate.rs", "C17_network_forward.rs"],
        kani=True,
        native_checks=[("validate.mean", "bounded native grid: validate() / predict_batch() against the statement on 1..129 samples (across the chunk size), soft-max and linear heads")],
        undecided_clauses=["the iterator pipelines (`par_chunks(..).zip(..).flat_map(|..| ..iter().zip(..).map(..).collect()).collect()`, `unzip`, `zip().map().sum()`) are "
                           "rewritten mechanically to index loops (R31-R35): that rayon's / std's adapters visit the elements in that order is assumed; the bounded Kani "
                           "slices execute the real adapters (std in the mirror) on 2-3 samples across a chunk boundary",
                           "`predict`, the objective, `argmax`, `get_flat` are abstract in the validate unit; predict = last activation of the verified forward pass is unit network.predict",
                           "inputs and targets of equal length, every prediction as wide as its target (otherwise the code may panic or truncate: not claimed)",
                           "the flag prologue / epilogue of validate are assumed contracts here (C09's Kani regions)"],
    ),
    "C13": dict(
        title="Early stopping and the returned histories obey their contract",
        level="proof",
        verus=["C04_learn_epoch.rs"],
        kani=True,
        native_checks=[("learn.stopping", "bounded native grid: real learn() runs (tolerance 1-3, budgets 1-9, four step-size classes from convergent to divergent, with / without validation data): the returned histories satisfy the three sentences of C13; 288 runs")],
        undecided_clauses=["validation losses are required to be non-NaN (the property's trajectories are real numbers): with a NaN entry `!(a <= b)` and `a > b` differ",
                           "validate() is an assumed function of (network, data) that leaves the network unchanged (C09 / C12 decide what it does); the print blocks are dropped "
                           "from the unit (scanned: no control flow, no write to the histories)",
                           "the bounded Kani slice harnesses (epochs <= 6, tolerance <= 5) remain as an independent leg that executes the real early-stopping block"],
    ),
    "C14": dict(
        title="Reshaping and flattening preserve the row-major element sequence",
        level="proof",
        verus=["C14_reshape.rs"],
        kani=True,
        native_checks=[("reshape.rowmajor", "bounded native grid: flatten / get_flat / get_triple / reshape on all shapes up to 3x3x4 -> 3x4x4, incl. refusal of a different element count")],
        undecided_clauses=["inputs are assumed well formed (recorded shape = shape of the rectangular data, spatial extents >= 1, element count below 2^62) and the requested "
                           "element count must fit the machine word; empty tensors are not claimed",
                           "the iterator forms of get_flat (`flat_map` chain), get_triple / reshape (stateful `iter.next()` inside nested range maps) and flatten (`extend`) are "
                           "rewritten mechanically to index loops (R36-R39): adapter order assumed; the bounded Kani harnesses run the real adapters on concrete small shapes",
                           "only the flat and 3-D ranks the property names (2-D / 4-D tensors are not reshaped by the code)"],
    ),
    "C15": dict(
        title="Element-wise tensor arithmetic is exact, rank-generic and shape-checked",
        level="proof",
        verus=["C15_tensor_ops.rs", "C15_transpose.rs", "C15_mean_pick.rs", "C15_dot_product.rs", "C15_clamp_whole.rs", "C15_inplace_whole.rs", "C15_hadamard3d.rs"],
        kani=True,
        native_checks=[("tensor.elementwise", "bounded native grid: add / sub / mul / scaled Hadamard / div-by-scalar in place, clamp and the mean over 3 tensors on operands of ranks 1-D..4-D with every extent tuple up to 3 (non-square included): shape field and nesting unchanged, every cell = the operator on the operand cells at the same nested index (bit-exact; the mean up to rounding); operands of different shapes refused"),
                       ("tensor.linear", "bounded native grid: dot, outer product and transpose on every rows x cols up to 5 x 5 (non-square included), integer data (exact): each against its index definition, shapes included")],
        undecided_clauses=["add / sub / mul / scaled Hadamard / div-by-scalar in place and clamp are proved as WHOLE functions for every size of ranks 1-D..4-D (units tensor.*.whole, tensor.clamp; R57-R59), "
                           "dot and the outer product too (units tensor.dot, tensor.product; R22, R31, R50); the mean over k tensors stays at closure units + bounded harnesses",
                           "nested-list add / div (recursion over Tensor): those arms are skipped in the whole-function units (logged); bounded harnesses only",
                           "that a shape mismatch IS refused (panics): Verus proves the panic unreachable when the shapes agree; the refusal itself is the Kani should-panic harnesses"],
    ),
    "C16": dict(
        title="Skip connections combine source and target inputs as configured",
        level="proof",
        verus=["C16_connect.rs", "C17_network_forward.rs", "C16_skip_backward.rs"],
        kani=True,
        native_checks=[("skip.gradient", "bounded native grid: gradients of networks with up to two additive skip connections against exact difference quotients; 144 instances")],
        undecided_clauses=["the gradient clause: the reverse step of Network::backward is proved to differentiate every layer at the input it processed "
                           "and to sum the gradients of all outgoing additive connections (unit network.backward.walk); that this sum IS the derivative is "
                           "the multivariate chain rule (F3, trusted) and each layer's own backward is C01's; non-additive accumulations are not handled by the code (TODO there) nor claimed",
                           "the iterator chain `layers.iter().rev().enumerate().for_each` around the verified closure body (visits layer n-1-i at step i): trusted adapter semantics",
                           "the tensor operations themselves are abstract in the skip unit (their cell-wise meaning is C15's, reshape's is C14's)",
                           "the element-count comparison inside connect() (two matches over layer kinds + assert_eq!) is not part of the verified regions"],
    ),
    "C17": dict(
        title="Loop connections compute the accumulated repeated sub-network",
        level="proof",
        verus=["C17_network_forward.rs", "C16_connect.rs"],
        kani=False,
        native_checks=[("loopback.forward", "bounded native grid: predict() of networks with a loop connection against the accumulated repeated sub-network; 1800 instances")],
        undecided_clauses=[
            "tensors, shapes and each layer's forward pass are abstract (what a layer computes is C02, the element-wise meaning of "
            "add/sub/mul/mean is C15, reshape is C14)",
            "the max-pool index bookkeeping of the block (five `if let Some(Some(max)) = maxpools.get_mut(j)` statements and the Mean arm's "
            "`fmax` collection) is dropped from the unit after a syntactic non-interference scan; a panic inside it is a permitted outcome",
            "the shape comparison and the per-layer `loops` / `scale` bookkeeping in the middle of Network::loopback are not part of the "
            "verified regions (guard + insert are: into <= outof is recorded, nothing replaced); that only connect() / loopback() write the tables: read",
            "the 'equals the plain network with the range repeated k+1 times' sentence is the Overwrite instance of the proved contract "
            "(last pass = k+1-fold application, each pass starting from the previous pass's output); the plain network is not built and compared"],
    ),
    "C18": dict(
        title="The random generator stays in range and shuffling is a safe permutation",
        level="proof",
        verus=["C18_shuffle.rs", "C18_tensor_random.rs"],
        kani=True,
        native_checks=[("random.shapes", "bounded native grid: Tensor::random on every extent tuple up to 3 of ranks 1-D..4-D (non-square included) x 4 intervals (degenerate and huge included): requested shape recorded, data extents = requested, every entry in [min, max]; shuffle of a vector with repeated elements (lengths 1..84, varying seeds): same multiset, no panic")],
        undecided_clauses=["Tensor::random is proved as a whole function for every requested shape of ranks 1-D..4-D (unit tensor.random, R60) against the contracts of create / generate that Kani proves on the real bodies for all states; the bounded Kani harnesses (2 entries) stay as a cross-check that executes the real iterator chain",
                           "shuffle is proved for every length and every generated number (Verus, unit random.shuffle) under std's specification of `swap`; uniformity of the permutation is not a property here",
                           "the generate contract inside shuffle's Verus unit is `any f32` (nothing about generate is needed); the float->usize cast is opaque (any value)"],
    ),
}

TRUSTED_BASE = [
    "rustc front ends (Verus 1.98.1 toolchain, Kani nightly) agree with the stable compiler on the safe-Rust subset used",
    "Verus 0.2026.09.13 + vstd + Z3 (soundness of the verifier and of vstd's Vec / vec! model)",
    "Kani 0.68 + CBMC 6.11 + CaDiCaL (soundness; bit-precise IEEE-754 binary32 model)",
    "tools/extract.py, tools/mirror.py (mechanical extraction; self-checked by anchors, loop counts and canaries)",
    "std iterator adapters visit elements in order (units that are closure bodies do not cover the adapter chain; whole-function units replace each adapter "
    "form by an index loop with that order: rewrites R12, R15, R17, R20-R60, every application logged under extraction_drops)",
    "rayon's par_chunks / into_par_iter().map().collect() / flat_map().collect() keep input order like their std counterparts (C05's subject; assumed by R25, R32, R34)",
    "abstract operations in the network-level units (tensor algebra, per-layer forward/backward functions, optimizer step, objective): uninterpreted; their meaning is decided by the units of C01/C02/C03/C06/C07/C14/C15",
    "`//@assume-region` contracts (listed in extraction_drops as ASSUMED) and `assume_specification`s for std functions vstd does not specify (<[T]>::swap, f32::is_nan, libm)",
]

MANIFEST_TEXT = {
    "C01": dict(
        category="proof",
        technique="Verus loop-invariant proofs that the backward nests compute the adjoint tap sums of the verified forward operators",
        design_ref="DESIGN.md §5 C01",
        text="Proof for all shapes and all (kernel, stride, padding, dilation): the gradient nests of Convolution::backward and "
             "Deconvolution::backward leave in every kernel-gradient and input-gradient cell exactly the sum, over the forward pass's taps "
             "that touch that cell, of delta times the other factor - the partial derivative of the forward tap sum (F3) - with gradient "
             "shapes equal to parameter/input shapes; activation derivative closures equal the textbook derivative of the forward closure. "
             "Failing obligations are replayed by an exact finite-difference search on the real layer (integer data).",
        note="F1 uninterpreted floats; F3 (derivative of a multi-affine tap sum; chain rule) is mathematics, confirmed numerically by the "
             "native exact finite-difference grid; the reverse layer walk and dense / max-pool / soft-max pieces are bounded or undecided.",
    ),
    "C02": dict(
        category="proof",
        technique="Verus loop-invariant proofs of the convolution and transposed-convolution nests against recursive tap-sum specs",
        design_ref="DESIGN.md §5 C02",
        text="Proof for all shapes and all (kernel, stride, padding, dilation): the real Convolution::convolve (whole function) computes in every "
             "output cell the strided, dilated cross-correlation sum of the padded input, and the six-deep scatter nest of "
             "Deconvolution::forward computes the padding-cropped transposed convolution; all indexing in bounds, no usize wrap, produced shape "
             "= standard formula. Accumulation order is pinned (formula identity).",
        note="F1 uninterpreted floats; the glue of forward() around the nests (pad3d, re-chunking of flat input, activation, flatten) and dense / "
             "max-pool / network composition are bounded Kani harnesses or not yet covered (see undecided_clauses in the evidence).",
    ),
    "C08": dict(
        category="proof",
        technique="Verus contracts on the three calculate_output_size functions + produced-shape postconditions of the forward nests",
        design_ref="DESIGN.md §5 C08",
        text="Proof for all valid configurations: each calculate_output_size (announced shape) returns the standard formula without usize wrap, "
             "and the produced shapes are postconditions of the verified forward nests stated with the same formula, so announced = produced "
             "is an equality of the two contracts.",
        note="zero-padding dims (pad3d) and the isqrt of flat sizes are decided by Kani; builder chaining bounded.",
    ),
    "C03": dict(
        category="proof",
        technique="Verus postconditions on the 15 extracted optimizer element bodies (one spec function per optimizer)",
        design_ref="DESIGN.md §5 C03",
        text="Proof, for all values, all state and every rank copy: each of the 15 element bodies of SGD/SGDM/Adam/AdamW/RMSprop "
             "(extracted from src/optimizer.rs on every run) is shown by Verus to compute exactly the documented update expression for "
             "weights, gradients and every state vector, to leave every other cell unchanged, and to index in bounds. Because all three "
             "rank copies are tied to one spec function, rank independence is a corollary; because the contract holds for arbitrary "
             "incoming state, it holds after every history by induction. Formula identity, not IEEE value reasoning.",
        note="Float operators are uninterpreted (F1): totality, commutativity of + and *, x^2 == powf(x,2) == powi(x,2) assumed; the iterator chain "
             "`(0..n).for_each` around the closure bodies is trusted; slot isolation (SGDM, Adam: 4 slots, symbolic slot) and the default "
             "substitution of Optimizer::validate (all f32) are Kani harnesses; NaN-freedom clause undecided.",
    ),
    "C06": dict(
        category="proof",
        technique="Verus formula contracts on the 21 loss/gradient closure bodies and on the 7 WHOLE loss() functions (every size, both ranks, clamp) + Kani harnesses over the full in-domain f32 range for finiteness and clamping",
        design_ref="DESIGN.md §5 C06",
        text="Verus proves for every element of every shape that the loss term and both rank copies of the gradient closure of all seven "
             "objectives compute the documented formula (gradient = textbook derivative for AE, MSE, BCE, KL). Kani decides, through the real "
             "Function::loss on singleton tensors of both ranks and for every in-domain f32 incl. exactly 0 and 1, that the loss is finite, the "
             "gradient has the prediction's shape and the clamped gradient is the unclamped one limited to the interval (complete over the "
             "element domain, ln by contract). Verus also proves the WHOLE `loss()` of each objective for tensors of every size (units *.loss.whole; R53, R54, R55): the loss is the "
             "documented per-element terms over the flattened target / prediction pairs, summed in index order, then the documented outer operation (mean, /n inside, "
             "root of the mean, negation); on flat pairs and on 3-D pairs the gradient has one entry per zipped position at every nesting level (the prediction's shape when "
             "the shapes agree), its shape field describes its data, and every entry is the documented per-element formula - limited to the clamp interval when a clamp is "
             "configured, unchanged otherwise; mixed ranks panic (outside the stated domain). The Kani fold harnesses stay as bounded cross-checks.",
        note="F1 uninterpreted floats in Verus; F2 ln contract in Kani; derivative table is mathematics (F3); std's in-order float sum is an uninterpreted function of the term sequence (R27); Tensor::single / triple / clamp enter the whole-function units by contract, the same contracts being discharged on the real bodies (units tensor.single, tensor.triple, tensor.clamp); get_flat by contract (C14).",
    ),
    "C07": dict(
        category="proof",
        technique="Kani harnesses over all finite f32 bit patterns through the real Function::forward/backward + Verus formula contracts on the 16 closure bodies and on the 8 WHOLE forward/backward functions (every size, both ranks)",
        design_ref="DESIGN.md §5 C07",
        text="Value clauses (defined function, derivative values, never NaN/inf, sigmoid in [0,1], tanh in [-1,1], shape kept) are decided "
             "by loop-free-in-the-data Kani harnesses through the real Function::forward/backward on singleton tensors of both ranks for "
             "every finite f32 bit pattern - complete over the element domain, with libm functions replaced by contract stubs. Verus "
             "proves, for any element of any shape, that both rank copies of each forward/backward closure compute one documented formula "
             "(backward = textbook derivative of forward), and - units *.forward.whole / *.backward.whole (R56) - that the WHOLE forward and backward of ReLU, LeakyReLU, "
             "Sigmoid and Tanh return, for a flat tensor of any length and a 3-D tensor of any size, a tensor of the same rank and nesting lengths whose every element is that "
             "formula of the input element at the same position, with the shape field the code reports (other ranks panic: outside the stated domain); Linear::forward returns its input and Linear::backward a tensor of the input's shape "
             "whose every entry is 1.0 (units linear.*.whole on the WHOLE Tensor::ones, unit tensor.ones, R60). Soft-max is bounded in vector length.",
        note="libm contracts (F2) assumed; F1 uninterpreted floats in Verus; derivative table is mathematics (F3); iterator chains "
             "covered for every size in Verus (R56: extend-map -> index loop) and for singleton/small shapes in Kani; soft-max: the formula (shifted exponentials over their in-order sum) is proved for every length in Verus (unit softmax.forward), its value claims are bounded (n = 2); shift invariance under rounding undecided.",
    ),
    "C09": dict(
        category="proof",
        technique="Verus contracts on the five WHOLE flag-setting loops (every layer sequence) and on their per-layer bodies + Kani on the verbatim flag regions over concrete sequences and on each dropout guard",
        design_ref="DESIGN.md §5 C09",
        text="Verus proves for EVERY layer sequence (mechanically extracted loops, R40 / R41): after validate's prologue no layer applies dropout and the returned flag says "
             "whether a dense layer was training; the epilogue puts every flagged layer back into training mode iff that flag is set; learn's entry loop turns every flag on, "
             "its exit loop every flag off; Feedback::training(b) sets every inner flag to b; none of them changes a layer's kind or any other field. "
             "Verus also proves, for a layer of ANY kind, that the body applied to each layer by Feedback::training, by learn's entry and exit loops and by "
             "validate's prologue / epilogue sets the dropout flag as the property needs (off while validating, argument-following inside a block, "
             "on at entry, off after learn). Bounded, exhaustive within the bound: the four flag-handling regions of Network::validate and Network::learn are emitted "
             "verbatim as methods and run on concrete layer sequences (2-4 layers over dense / convolution / deconvolution / max-pool / "
             "feedback) from both start states: after the validate prologue every training flag is off, the epilogue restores the state, "
             "learn turns every flag on at entry and off at exit; the dropout guard region of every layer kind never reaches Tensor::dropout "
             "when the layer is not training.",
        note="bounded in sequence length; composition (prologue -> predictions -> epilogue; entry -> epochs -> exit) by program order of the "
             "regions, read from the source; layers built with a constant Tensor::random stub and fixed hash seeds.",
    ),
    "C10": dict(
        category="proof",
        technique="Verus contracts on two regions of feedback.rs: construction of the coupling groups and the write-back loop of Feedback::update",
        design_ref="DESIGN.md §5 C10",
        text="Proof for all block lengths, loop counts, layer lists and values: (1) the coupling groups built in Feedback::create are exactly "
             "{l + i*length : i < loops} for every layer l, so they cover every unrolled index exactly once (lemma); (2) the last loop of "
             "Feedback::update leaves every dense / convolution / deconvolution member of a couple holding a copy of the one accumulated "
             "weight (and bias), and touches no other layer. Hence after EVERY update - whatever optimizer and accumulation ran before - all "
             "repetitions are tied; by induction over the step sequence this holds for every history.",
        note="Tensor is opaque (clone preserves contents: assumed); the accumulation arithmetic and optimizer calls of update() are outside "
             "the verified regions; creation-time equality and parameters() are read, not verified.",
    ),
    "C04": dict(
        category="proof",
        technique="Verus contract on the per-epoch region of Network::learn (batch loop, gradient accumulation, update, reported loss) over abstract network-state functions; bounded Kani harness on the batch-splitting statement",
        design_ref="DESIGN.md §5 C04",
        text="Proof for all networks, data sets, group lists and epochs: the region of Network::learn that makes up one epoch (mechanically extracted; "
             "rewrites R1/R13/R15/R19/R25-R29) leaves the network in the state after_groups(k = #groups): groups walked in order, and for each group exactly "
             "ONE update(step number = epoch) applied to the layer-wise sums, in sample order, of the per-sample weight and bias gradients, every one of "
             "them evaluated (forward, objective, backward) at the weights held before that step; the value pushed to the training-loss history is the mean "
             "over the groups of (in-order sum of the per-sample losses / group size). Hence every sample of every group contributes exactly once. "
             "Bounded (Kani, N <= 4, all B <= 5): the statement that builds the group list yields the ordered partition into consecutive groups of B, "
             "last group shorter, inputs and targets alike.",
        note="abstract forward / objective / backward / update; rayon order-preservation and chunking beyond the bound assumed; epoch loop read (C13 slice).",
    ),
    "C11": dict(
        category="proof",
        technique="Verus contracts on the skip-table region of Feedback::create and on the WHOLE Feedback::forward over an abstract tensor algebra",
        design_ref="DESIGN.md §5 C11",
        text="Proof for all block lengths, loop counts, flag combinations, accumulations and layer lists: (1) the connection table built by "
             "Feedback::create contains exactly the starts of repetitions 1.. (each receiving activation 0, the block input) iff in-skips, and "
             "the output position (receiving the starts of repetitions 1.., i.e. the outputs of all earlier repetitions) iff out-skips; (2) the "
             "whole Feedback::forward (mechanically extracted, rewrites R12/R13/R17/R18/R19) returns activations that satisfy: a[0] is the input, "
             "every unrolled layer j is applied in order to a[j] combined - by the configured accumulation, in table order - with the activations "
             "the table lists for position j; the output is the last activation combined with the table's entry for the output position, "
             "flattened iff the flag is set. Together with C10 (equal copies) this is the L-fold repeated application with shared weights.",
        note="abstract tensor algebra (uninterpreted t_add/t_sub/t_mul/t_mean/flatten, layer forward functions); vstd HashMap / Vec specs; "
             "a panic (shape assertion, nested block) is a permitted outcome (R13).",
    ),
    "C12": dict(
        category="proof",
        technique="Verus contracts on the WHOLE validate(), predict_batch() and predict() (iterator pipelines rewritten mechanically to index loops) + bounded Kani slices that execute the real adapters",
        design_ref="DESIGN.md §5 C12",
        text="Proof for all data-set sizes, all tolerances and every parallel chunk size (the constant is opaque): the whole validate() returns (in-order sum of the per-sample "
             "objective losses of predict / N, in-order sum of the per-sample accuracies / N) of the network with all training flags cleared, where a sample's accuracy is arg-max "
             "agreement for a soft-max output layer and otherwise (number of components with |t - p| < tol) / width; every sample is scored exactly once, in input order, and the "
             "flags are restored. predict_batch returns predict of each input in input order; predict is the last activation of the verified forward pass. "
             "Bounded (Kani): slices of validate / predict_batch with the real std adapters on 2-3 samples across a chunk boundary.",
        note="iterator adapters rewritten (R31-R35) under the assumption that they visit elements in order; predict / objective / argmax / get_flat abstract; flag regions assumed (C09).",
    ),
    "C13": dict(
        category="proof",
        technique="Verus contract on the WHOLE Network::learn (epoch loop, histories, early-stopping block verbatim; the epoch region outlined to its verified unit) + bounded Kani slice",
        design_ref="DESIGN.md §5 C13",
        text="Proof for all epoch budgets, all tolerances >= 1 and all non-NaN validation-loss trajectories: the whole Network::learn (mechanically extracted; R13, R30; the "
             "epoch region replaced by a call to its verified unit, the flag loops / group split replaced by assumed contracts, print blocks dropped after a scan) returns "
             "between 1 and `epochs` training-loss entries, exactly as many validation-loss and accuracy entries when validation data is given and none (and all epochs) otherwise; "
             "it returns early only if more than `tolerance` epochs have run and the validation loss strictly increased throughout the last `tolerance` recorded epochs, and at no "
             "earlier epoch did that predicate hold. Also (C04): epoch t uses step number t and the network ends as after_epochs(n). Additionally, bounded and "
             "exhaustive within the bound: learn() is cut mechanically (tools/mirror.py //@slice, with a non-interference scan of "
             "every dropped statement) to the statements that touch the histories, the epoch counter and the threshold; CBMC then explores ALL "
             "non-NaN validation-loss trajectories for each concrete (epochs <= 6, tolerance <= 5) instance and checks the three clauses of the "
             "property against a predicate written from the statement. Not a proof for all epoch budgets.",
        note="bounded in epochs/tolerance; the dropped batch loop and print blocks are assumed not to interfere (syntactic scan); validate() is an oracle.",
    ),
    "C14": dict(
        category="proof",
        technique="Verus contracts on the WHOLE flatten / get_flat / get_triple / reshape (iterator forms rewritten mechanically to index loops) + Kani harnesses on the real functions with concrete small shapes",
        design_ref="DESIGN.md §5 C14",
        text="Proof for every shape: flatten and get_flat return exactly the row-major sequence f[(c*H + h)*W + w] = d[c][h][w] of a rectangular C x H x W tensor (a flat tensor "
             "is returned as it is); get_triple places flat position (c*H + h)*W + w at cell (c, h, w) of the requested extents; reshape - all four arms - returns a tensor "
             "whose recorded shape is the requested one and matches its data, with the same row-major sequence as the argument, and refuses (panics) a different element "
             "count. Bounded (Kani): the real functions, with the real iterator adapters, on concrete small shapes (dimensions of size 1, non-square) with symbolic contents.",
        note="well-formed inputs assumed (type invariant in the precondition); iterator adapters rewritten (R36-R39, R42-R44) under the assumption that they visit elements in order.",
    ),
    "C15": dict(
        category="proof",
        technique="Verus contracts on the WHOLE in-place operations (add, sub, mul, scaled Hadamard, div by scalar, clamp; dot, outer product) for every size + formula contracts on the 31 element closures + Kani per op x rank on small shapes",
        design_ref="DESIGN.md §5 C15",
        text="Verus proves for every cell of every shape that each rank copy (1-D..4-D) of add/sub/mul/div-by-scalar/scaled Hadamard/clamp/mean "
             "computes the one documented element expression (IEEE operator on the operand cells), and - units tensor.add_inplace/sub_inplace/mul_inplace/hadamard/div_scalar_inplace.whole, "
             "tensor.clamp (R57, R58, R59) - that each WHOLE function, for operands of every size of ranks 1-D to 4-D, leaves the shape field unchanged, keeps the length at every nesting level, "
             "writes at every position both operands have the operator applied to the two cells at that position, and leaves every other position untouched (what `zip` does when lengths differ). Kani runs the real functions on small shapes "
             "of every rank with symbolic contents: result cell = operator on the cells at the same index, shape unchanged and consistent, "
             "mismatched shapes refused; dot / outer product against their index definitions; clamp into the interval for every f32 (complete).",
        note="F1 uninterpreted floats in Verus; iterator zip / for_each order enters through R57 / R58 (index loops); nested-list arms skipped; `Shape: PartialEq` by contract (structural equality).",
    ),
    "C16": dict(
        category="proof",
        technique="Verus contracts over vstd's HashMap model on the guard / insert regions of Network::connect, the skip region of Network::forward and the reverse step of Network::backward",
        design_ref="DESIGN.md §5 C16",
        text="Proof for all maps and all index pairs: on the two regions of Network::connect that touch the connection table (index / duplicate "
             "guard, final insert) Verus shows (a) whenever the call returns, every earlier mapping is still present and unchanged and the new "
             "one is recorded (rejecting is the only alternative), and (b) a valid pair whose source and target differ from every connected "
             "source and target is never rejected; (c) on the skip-connection region of Network::forward: for every network, index and table, the "
             "input handed to layer i is the configured accumulation (add / subtract / multiply / mean / overwrite) of its ordinary input with "
             "activated[source] reshaped to its shape, and is untouched when no connection targets i; (d) on the closure body of Network::backward: "
             "every layer is differentiated at exactly that processed input with the gradient handed on by its successor, and the gradient it hands on is "
             "its own input gradient plus the input gradients of all layers its input is additively connected to (chain rule at a fan-out). Failing "
             "obligations are replayed natively (call pairs for connect; exact difference quotients on small linear networks for the gradients).",
        note="vstd's specification of std::collections::HashMap; abstract tensor algebra and abstract per-layer backward functions (C01 decides those); "
             "the element-count comparison in the middle of connect() is dropped from the unit; that the summed gradient is the derivative is the "
             "multivariate chain rule (trusted mathematics, confirmed numerically by the native search).",
    ),
    "C17": dict(
        category="proof",
        technique="Verus contracts on the WHOLE Network::_forward and on the loop-back region of Network::forward over an abstract tensor algebra",
        design_ref="DESIGN.md §5 C17",
        text="Proof for all networks, ranges into <= i, iteration counts, accumulations, input-skip flags and inputs: (1) the whole "
             "Network::_forward (mechanically extracted, rewrites R19/R23) returns, for a layer range, exactly the chained application of the "
             "layers (layer from+t processes the output of layer from+t-1, the given input for t = 0): pre-activations, activations and "
             "max-pool indices; (2) the loop-back block of Network::forward (extracted region, rewrites R13/R16/R19-R22/R24, calling the "
             "verified _forward through its contract) re-runs layers into..=i exactly k times, pass t starting from the output of pass t-1 "
             "(from the ordinary output for t = 0) brought to the input shape of layer `into` and with the ORIGINAL input of that layer added iff "
             "input skips are on, and leaves in activated[p] (in particular the value passed on, p = i+1) and preactivated the configured "
             "accumulation - add / subtract / multiply folds in pass order, mean over all, overwrite = last pass - of the ordinary value with the k "
             "re-run values; entries before the range are untouched, lengths unchanged, nothing happens without a loop connection; (3) the WHOLE "
             "Network::forward, with the skip region and the loop-back region replaced by calls to the two verified region functions (//@outline: a "
             "caller is checked against the callee's contract): the returned pre-activations and activations are the fold over the layers of "
             "(skip-combine the previous activation; apply the layer; apply the loop connection leaving it), so every region's precondition holds where "
             "it sits and the prediction is that fold's last activation; (4) Network::loopback records (into, iterations, inskips) with into <= outof "
             "and replaces nothing.",
        note="abstract tensor algebra (uninterpreted t_add/t_sub/t_mul/t_mean/t_reshape, layer forward functions); vstd HashMap / Vec specs; "
             "max-pool index bookkeeping dropped from the unit (scanned); a panic is a permitted outcome (R13).",
    ),
    "C18": dict(
        category="proof",
        technique="Kani function contract on Generator::generate (proof_for_contract, all states), stub_verified reuse in shuffle; Verus contracts on the whole shuffle (all lengths) and the whole Tensor::random (all shapes of ranks 1-D..4-D)",
        design_ref="DESIGN.md §5 C18",
        text="Complete over the state space: a Kani function contract on the real Generator::generate is proved for all 2^31-1 states "
             "and all finite min<=max (result in [min,max], state stays valid, coefficients unchanged, no overflow), create() for all 2^64 "
             "seeds; shuffle is checked modularly against that verified contract (every value the contract allows) and non-modularly, "
             "for lengths up to the stated bound (bounded, labelled as such). Verus proves the whole shuffle (rewrites R28/R45/R46) for every length and every value "
             "generate may return: no index leaves the vector, the length is kept and the result has the same multiset of elements as the argument. Verus also proves the whole Tensor::random (unit tensor.random, R60) for every "
             "requested shape of ranks 1-D to 4-D: the requested shape is recorded, the data have the requested extent at every nesting level, and every entry is a value generate returned "
             "for (min, max) - in [min, max] by generate's Kani-proved contract.",
        note="CBMC's bit-precise float model; Kani's shuffle harnesses bounded in length (the Verus unit is not); Tensor::random: the Verus unit uses the contracts of create / generate as "
             "Kani proves them (modular), the clock-seeded construction is replaced by 'some seed' (//@assume-region); the Kani harnesses on 2-entry shapes execute the real iterator chain.",
    ),
}

NOT_APPLICABLE = {
    "C05": "quantifies over thread schedules of rayon's pool; Kani has no thread support and Verus has no specification of rayon. The sequential content of learn / validate / "
           "predict_batch is decided under C04 / C12 / C13 ASSUMING what C05 asserts (the parallel adapters keep input order); that assumption itself cannot be decided by a contract here",
}
