"""Generate the Kani / replay crate: byte-for-byte mirrors of /repo/src/*.rs with harness modules appended.

The only non-append edit is the fixed table SEQ below (rayon adapters -> their sequential std equivalents
in network.rs); every application is reported as an extraction drop.  A snippet of the table that is not
found exactly the expected number of times is a LOST ANCHOR (undecided), never a pass.
"""
import os
import re
import shutil

from extract import LostAnchor, Source, find_fn, extract_part, parse_kv, region_span

VERIF = os.path.dirname(os.path.dirname(os.path.abspath(__file__)))
MODULES = ["random", "tensor", "activation", "objective", "optimizer", "convolution", "deconvolution",
           "dense", "feedback", "maxpool", "network"]

# (regex, replacement, expected count, description)
SEQ = [
    (r"^use rayon::prelude::\*;\s*$", "// [mirror] use rayon::prelude::*; (removed: sequential mirror)", 1,
     "network.rs: `use rayon::prelude::*` removed"),
    (r"\.par_chunks\(", ".chunks(", 5, "network.rs: `.par_chunks(n)` -> `.chunks(n)` (x5: learn batches, validate, predict_batch)"),
    (r"batch\s*\.into_par_iter\(\)", "batch.0.iter().zip(batch.1.iter())", 1,
     "network.rs: `batch.into_par_iter()` (rayon tuple zip) -> `batch.0.iter().zip(batch.1.iter())`"),
]


def split_weaves(h):
    """remove `//@weave impl=T fn=f` ... `//@endweave` blocks from harness text; return (rest, [(impl, fn, [attr lines])])"""
    out, weaves, cur = [], [], None
    for ln in h.split("\n"):
        st = ln.strip()
        if st.startswith("//@weave "):
            kv = dict(x.split("=", 1) for x in st.split()[1:])
            cur = (kv.get("impl"), kv["fn"], [])
            continue
        if st == "//@endweave":
            weaves.append(cur)
            cur = None
            continue
        if cur is not None:
            if not st.startswith("#["):
                raise LostAnchor("weave block may contain attribute lines only: %s" % st)
            cur[2].append(st)
        else:
            out.append(ln)
    return "\n".join(out), weaves


def expand_regions(h, repo, module):
    """`//@region fn=NAME impl=T src=FN part="region:/a/../b/" sig="(&self, ..) -> R" [tail="expr"]`
    becomes `impl T { pub fn NAME SIG { <verbatim region of T::FN> TAIL } }` (a region of the real function emitted as a
    function of its own; body verbatim)."""
    out, drops = [], []
    for ln in h.split("\n"):
        st = ln.strip()
        if not st.startswith("//@region "):
            out.append(ln)
            continue
        kv = parse_kv(st[len("//@region "):])
        text, first, desc = extract_part(repo, dict(file="src/%s.rs" % module, impl=kv.get("impl"), fn=kv["src"], part=kv["part"]))
        body = "pub fn %s%s {\n%s\n%s\n}" % (kv["fn"], kv["sig"], seq_fix(text, module), kv.get("tail", ""))
        if kv.get("impl"):
            body = "impl %s {\n%s\n}" % (kv["impl"], body)
        out.append(body)
        drops.append("mirror: region `%s` emitted verbatim as fn %s%s (tail `%s` added)" % (desc, kv["fn"], kv["sig"], kv.get("tail", "")))
    return "\n".join(out), drops


def seq_fix(text, module):
    """the sequential rewrites of SEQ applied to a region / slice body cut from network.rs"""
    if module != "network":
        return text
    text = re.sub(r"\.par_chunks\(", ".chunks(", text)
    return re.sub(r"batch\s*\.into_par_iter\(\)", "batch.0.iter().zip(batch.1.iter())", text)


def expand_slices(h, repo, module):
    """`//@slice fn=NAME impl=T src=FN sig="..." protect=a,b,c` ... `//@endslice` with lines
         //@drop /re1/../re2/ [#occ]        statements removed (after a syntactic non-interference scan)
         //@subst /regex/ -> "replacement"  named sub-expressions replaced by an oracle / parameter
    emits `impl T { pub fn NAME SIG { <body of T::FN with those edits, everything else verbatim> } }`."""
    lines = h.split("\n")
    out, drops = [], []
    i = 0
    while i < len(lines):
        st = lines[i].strip()
        if not st.startswith("//@slice "):
            out.append(lines[i])
            i += 1
            continue
        kv = parse_kv(st[len("//@slice "):])
        dl, sl = [], []
        i += 1
        while lines[i].strip() != "//@endslice":
            d = lines[i].strip()
            m = re.match(r"//@drop\s+/(.+?)/\.\./(.+?)/\s*(?:#(\d+))?$", d)
            if m:
                dl.append((m.group(1), m.group(2), int(m.group(3) or 1)))
            else:
                m = re.match(r"//@subst\s+/(.+)/\s*->\s*\"(.*)\"$", d)
                if m:
                    sl.append((m.group(1), m.group(2)))
                elif d and not d.startswith("// "):
                    raise LostAnchor("bad line in //@slice block: %s" % d)
            i += 1
        i += 1
        body, first, desc = extract_part(repo, dict(file="src/%s.rs" % module, impl=kv.get("impl"), fn=kv["src"], part="whole"))
        body = seq_fix(body, module)
        protect = [x for x in kv.get("protect", "").split(",") if x]
        spans = []
        for re1, re2, occ in dl:
            s0, e0 = region_span(body, re1, re2, occ)
            spans.append((s0, e0, re1))
        spans.sort()
        for (s0, e0, re1) in spans:
            dropped = body[s0:e0]
            code = re.sub(r"//[^\n]*", "", dropped)
            code = re.sub(r'"(?:[^"\\\\]|\\\\.)*"', '""', code)
            if re.search(r"\b(break|continue|return)\b", code):
                raise LostAnchor("slice %s: dropped statement /%s/ contains control flow (break/continue/return)" % (kv["fn"], re1))
            for v in protect:
                if re.search(r"\b%s\b\s*(\.\s*push\s*\(|=[^=]|\+=|-=|\*=|/=)" % re.escape(v), code) or \
                        re.search(r"\.\s*%s\s*=[^=]" % re.escape(v), code):
                    raise LostAnchor("slice %s: dropped statement /%s/ writes protected variable `%s`" % (kv["fn"], re1, v))
            l0 = first + body.count("\n", 0, s0)
            l1 = first + body.count("\n", 0, e0)
            drops.append("slice %s: dropped lines %d-%d of %s::%s (starts `%s`); scanned: no write to {%s}, no break/continue/return"
                         % (kv["fn"], l0, l1, kv.get("impl", ""), kv["src"], " ".join(dropped.split())[:60], ",".join(protect)))
        for (s0, e0, _) in reversed(spans):
            body = body[:s0] + "/* [slice] dropped */" + body[e0:]
        for rx, rep in sl:
            n = len(re.findall(rx, body))
            if n == 0:
                raise LostAnchor("slice %s: substitution anchor /%s/ not found" % (kv["fn"], rx))
            body = re.sub(rx, lambda _m: rep, body)
            drops.append("slice %s: %d occurrence(s) of /%s/ replaced by `%s`" % (kv["fn"], n, rx, rep))
        fn = "pub fn %s%s {\n%s\n}" % (kv["fn"], kv["sig"], body)
        if kv.get("impl"):
            fn = "impl %s {\n%s\n}" % (kv["impl"], fn)
        out.append(fn)
    return "\n".join(out), drops


def weave_attrs(text, path, impl, fn, attrs):
    import tempfile
    with tempfile.NamedTemporaryFile("w", suffix=".rs", delete=False) as tf:
        tf.write(text)
        tmp = tf.name
    try:
        S = Source(tmp)
        kw, bo, be = find_fn(S, impl, fn)
    finally:
        os.unlink(tmp)
    # start of the line holding `fn` (covers `pub fn`, `pub(crate) fn`)
    ls = text.rfind("\n", 0, S.toks[kw].start) + 1
    indent = re.match(r"\s*", text[ls:]).group(0)
    return text[:ls] + "".join(indent + a + "\n" for a in attrs) + text[ls:]


def make_crate(repo, dest, harness_files, extra_lib="", native_files=None):
    """harness_files: {module name: [paths of contracts/kani/*.rs to append to that module's mirror]}"""
    drops = []
    src = os.path.join(dest, "src")
    if os.path.isdir(src):
        shutil.rmtree(src)
    os.makedirs(src)
    for m in MODULES:
        p = os.path.join(repo, "src", m + ".rs")
        if not os.path.exists(p):
            raise LostAnchor("src/%s.rs missing" % m)
        with open(p) as f:
            text = f.read()
        if m == "network":
            for rx, rep, n, desc in SEQ:
                found = len(re.findall(rx, text, flags=re.M))
                if found != n:
                    raise LostAnchor("mirror rewrite `%s`: expected %d occurrence(s) in network.rs, found %d" % (rx, n, found))
                text = re.sub(rx, rep, text, flags=re.M)
                drops.append("mirror: " + desc)
        for hf in harness_files.get(m, []):
            with open(hf) as f:
                h = f.read()
            h, weaves = split_weaves(h)
            h, rdrops = expand_regions(h, repo, m)
            drops += rdrops
            h, sdrops = expand_slices(h, repo, m)
            drops += sdrops
            for impl, fn, attrs in weaves:
                text = weave_attrs(text, p, impl, fn, attrs)
                drops.append("mirror: %d contract attribute line(s) woven before `%s::%s` in %s.rs (attributes only; body untouched)"
                             % (len(attrs), impl or "", fn, m))
            name = "verif_" + os.path.splitext(os.path.basename(hf))[0]
            text += "\n\n// ===== appended by tools/mirror.py from %s =====\n" % os.path.relpath(hf, VERIF)
            text += "#[cfg(any(kani, verif_replay))]\n#[allow(unused, non_snake_case)]\npub mod %s {\n    use super::*;\n" % name
            text += h
            text += "\n}\n"
        for nf in (native_files or {}).get(m, []):
            with open(nf) as f:
                h = f.read()
            name = "vnative_" + os.path.splitext(os.path.basename(nf))[0]
            text += "\n\n// ===== appended by tools/mirror.py from %s =====\n" % os.path.relpath(nf, VERIF)
            text += "#[cfg(verif_replay)]\n#[allow(unused, non_snake_case)]\npub mod %s {\n    use super::*;\n" % name
            text += h
            text += "\n}\n"
        with open(os.path.join(src, m + ".rs"), "w") as f:
            f.write(text)
    drops.append("mirror: src/plot.rs (plotters front end) and src/lib.rs doc attributes are not part of the mirror crate")
    with open(os.path.join(src, "lib.rs"), "w") as f:
        f.write("#![allow(unused, non_snake_case, unexpected_cfgs)]\n"
                "#![cfg_attr(kani, feature(stmt_expr_attributes, proc_macro_hygiene))]\n")
        for m in MODULES:
            f.write("pub mod %s;\n" % m)
        f.write(extra_lib)
    with open(os.path.join(dest, "Cargo.toml"), "w") as f:
        f.write('[package]\nname = "neurons"\nversion = "0.0.0"\nedition = "2021"\n\n[lib]\npath = "src/lib.rs"\n\n'
                '[dependencies]\n\n[lints.rust]\nunexpected_cfgs = { level = "allow" }\n\n[workspace]\n')
    if native_files:
        os.makedirs(os.path.join(src, "bin"), exist_ok=True)
        calls = []
        for m, fs in native_files.items():
            for nf in fs:
                calls.append("        .or_else(|| neurons::%s::vnative_%s::dispatch(cmd, name, arg))" % (m, os.path.splitext(os.path.basename(nf))[0]))
        with open(os.path.join(src, "bin", "replay.rs"), "w") as f:
            f.write("// generated by tools/mirror.py: native replay / search driver over the mirrored real code\n"
                    "fn main() {\n    let a: Vec<String> = std::env::args().collect();\n"
                    "    if a.len() < 3 { eprintln!(\"usage: replay search|run <name> [input]\"); std::process::exit(2); }\n"
                    "    let (cmd, name, arg) = (a[1].as_str(), a[2].as_str(), a.get(3).map(|s| s.as_str()).unwrap_or(\"\"));\n"
                    "    let r: Option<String> = None\n" + "\n".join(calls) + ";\n"
                    "    println!(\"{}\", r.unwrap_or_else(|| \"{\\\"error\\\":\\\"unknown search name\\\"}\".to_string()));\n}\n")
    os.makedirs(os.path.join(dest, ".cargo"), exist_ok=True)
    with open(os.path.join(dest, ".cargo", "config.toml"), "w") as f:
        f.write("[net]\noffline = true\n")
    return drops
