import sys,json,subprocess
f=sys.argv[1]
p=subprocess.run(["verus",f,"--triggers-mode","silent","--multiple-errors","12","--error-format=json","--time"]+sys.argv[2:],capture_output=True,text=True,cwd="/tmp/vt")
src=open("/tmp/vt/"+f).read().split("\n")
for ln in p.stderr.splitlines():
    if ln.startswith("{"):
        d=json.loads(ln)
        if d.get("level")=="error":
            print("ERR:",d["message"])
            for sp in d.get("spans",[]):
                print("   L%d: %s   [%s]"%(sp["line_start"],src[sp["line_start"]-1].strip()[:170],sp.get("label")))
print(p.stdout[-400:])
