#!/bin/bash
# tools/seedcheck.sh <seed-id> <worktree> <demo test name> <prop> [<prop>...]
# 1. confirm in the scratch worktree: existing tests pass with the change; demo fails with it and passes without
# 2. copy patch/demo/notes to /verif/seeded/<id>/
# 3. apply the patch to /repo, run the listed checks (quick), revert /repo
id=$1; wt=$2; demo=$3; shift 3
out=/verif/seeded/$id; mkdir -p $out
cp $wt/seed_out/patch.diff $out/patch.diff; cp $wt/seed_out/notes.md $out/notes.md 2>/dev/null; cp $wt/tests/$demo.rs $out/$demo.rs
cd $wt
lib=$(CARGO_NET_OFFLINE=true cargo test --offline --lib 2>&1 | grep "^test result" | head -1)
doc=$(CARGO_NET_OFFLINE=true cargo test --offline --doc 2>&1 | grep "^test result" | head -1)
with=$(CARGO_NET_OFFLINE=true cargo test --offline --test $demo 2>&1 | grep "^test result" | head -1)
git diff --quiet -- src && { echo "WORKTREE HAS NO CHANGE"; }
git diff -- src > /tmp/seedcheck_$id.diff
cmp -s /tmp/seedcheck_$id.diff seed_out/patch.diff || echo "note: worktree diff differs from seed_out/patch.diff (using the worktree diff for the with/without runs, patch.diff for /repo)"
git apply -R /tmp/seedcheck_$id.diff
without=$(CARGO_NET_OFFLINE=true cargo test --offline --test $demo 2>&1 | grep "^test result" | head -1)
git apply /tmp/seedcheck_$id.diff
echo "existing(lib): $lib"; echo "existing(doc): $doc"; echo "demo with change: $with"; echo "demo without: $without"
cd /verif
git -C /repo apply $out/patch.diff || { echo "PATCH DOES NOT APPLY"; exit 1; }
res=""
for p in "$@"; do
  o=$(./check $p --tier quick 2>&1); e=$?
  echo "== check $p exit=$e"; echo "$o" | grep "VIOLATION\|UNDECIDED\|failed obligation" | head -6
  res="$res $p:$e"
done
git -C /repo checkout -- .
git -C /repo status --short | head -2
echo "RESULT $id:$res"
python3 - "$id" "$lib" "$doc" "$with" "$without" "$res" <<'PY'
import json,sys
id,lib,doc,w,wo,res=sys.argv[1:7]
p='/verif/seeded/%s/meta.json'%id
try: m=json.load(open(p))
except Exception: m={}
m.update(dict(id=id, existing_tests_with_change=dict(lib=lib,doc=doc), demo_with_change=w, demo_without_change=wo,
  checks_with_patch_applied=res.strip(), ran="tools/seedcheck.sh (cargo test --offline in the scratch worktree; git -C /repo apply; ./check <prop> --tier quick; git -C /repo checkout -- .)"))
json.dump(m,open(p,'w'),indent=1)
PY
