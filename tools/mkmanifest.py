#!/usr/bin/env python3
"""Writes /verif/MANIFEST.json from tools/plan.py (claimed properties) and the NOT_APPLICABLE table below."""
import json, os, sys
sys.path.insert(0, os.path.dirname(os.path.abspath(__file__)))
from plan import PLAN, MANIFEST_TEXT, NOT_APPLICABLE  # noqa

VERIF = os.path.dirname(os.path.dirname(os.path.abspath(__file__)))
ALL = ["C%02d" % i for i in range(1, 19)]
checks = []
for pid in ALL:
    if pid not in PLAN:
        continue
    p = PLAN[pid]
    t = MANIFEST_TEXT[pid]
    checks.append(dict(
        property_id=pid,
        quick_cmd="./check %s --tier quick" % pid,
        thorough_cmd="./check %s --tier thorough" % pid,
        evidence_file="/verif/evidence/%s.json" % pid,
        replay_cmd_template="./check %s --replay {path}" % pid,
        engine="contracts",
        level_claimed=dict(category=t["category"], text=t["text"], design_ref=t["design_ref"]),
        level_note=t["note"],
        technique=t["technique"],
    ))
na = [dict(property_id=pid, reason=NOT_APPLICABLE[pid]) for pid in ALL if pid not in PLAN]
missing = [pid for pid in ALL if pid not in PLAN and pid not in NOT_APPLICABLE]
assert not missing, missing
M = dict(
    version=1,
    setup_cmd="python3 tools/selfcheck.py",
    hooks=dict(
        guard="none in /repo: the cfgs `kani` and `verif_replay` exist only inside the mirrors generated under /verif/.work",
        enable="no hook code is needed; checks read /repo/src/*.rs (working tree) and generate mirrors / extracted units from it",
        baseline_off_cmd="cd /repo && cargo test --workspace --no-fail-fast --offline",
        source_commits=[],
        add_only=True,
    ),
    engines=[dict(name="contracts", path="/verif/check", serves_properties=[c["property_id"] for c in checks],
                  kind_free_text="contract-based deductive verification: Verus (Z3) on mechanically extracted functions / closure "
                                 "bodies / loop nests; Kani function contracts and harnesses (CBMC) on byte-for-byte mirrors of src/*.rs")],
    checks=checks,
    not_applicable=na,
    notes="exit 0 = all obligations discharged; exit 1 = VIOLATION line(s) with a named obligation and a replay file; exit 2 = UNDECIDED "
          "(lost anchor / unsupported construct / resource limit), never an alarm.  Genuine defects repaired in /repo by `fix:` commits are "
          "listed in known_findings.json (status fixed).  See DESIGN.md.",
)
with open(os.path.join(VERIF, "MANIFEST.json"), "w") as f:
    json.dump(M, f, indent=1)
print("wrote MANIFEST.json: %d checks, %d not applicable" % (len(checks), len(na)))
