#!/bin/bash
# tools/harmcheck.sh <patch.diff> <prop> [<prop>...]   apply a behaviour-preserving patch to /repo, run the quick checks, revert.
# A VIOLATION (exit 1) here is a FALSE ALARM of the machinery; exit 2 (undecided) is not an alarm.
d=$1; shift
cd /verif
git -C /repo apply "$d" || { echo "PATCH DOES NOT APPLY: $d"; exit 3; }
res=""
for p in "$@"; do
  o=$(./check $p --tier quick --no-playback 2>&1); e=$?
  res="$res $p:$e"
  [ $e -eq 1 ] && echo "$o" | grep "VIOLATION\|failed obligation" | head -4
  [ $e -eq 2 ] && echo "$o" | grep "UNDECIDED" | head -2 | cut -c1-220
done
git -C /repo checkout -- .
echo "HARMLESS $(basename $(dirname $d))/$(basename $d):$res"
