"""Mechanical extraction of functions / closure bodies / statement regions from /repo/src/*.rs,
the fixed rewrites R1..R10 (DESIGN §3.1), and weaving of contract text from a template.

Nothing in here knows about any particular property.  A *template* (contracts/verus/*.rs) is a Verus
source file with `//@` directives; `generate()` turns it into a self-contained file for
`verus file.rs`.  Every rewrite application and everything that is dropped is logged.
"""
import os
import re
import sys

sys.path.insert(0, os.path.dirname(os.path.abspath(__file__)))
from rustlex import tokenize, match_brackets, LexError  # noqa: E402


class LostAnchor(Exception):
    """The code the unit is anchored in could not be located (=> UNDECIDED, never a violation)."""


# --------------------------------------------------------------------------------------------
# locating things

class Source:
    def __init__(self, path):
        self.path = path
        with open(path) as f:
            self.src = f.read()
        self.toks = tokenize(self.src)
        self.match = match_brackets(self.toks)

    def line_of(self, off):
        return self.src.count("\n", 0, off) + 1


_cache = {}


def load(path):
    st = os.stat(path)
    key = (path, st.st_mtime_ns, st.st_size)
    if key not in _cache:
        _cache[key] = Source(path)
    return _cache[key]


def find_impl_ranges(S, typ):
    """token ranges (open_brace_idx, close_brace_idx) of inherent `impl Typ {` blocks"""
    out = []
    t = S.toks
    depth = 0
    for i, tk in enumerate(t):
        if tk.kind == "punct" and tk.text == "{":
            depth += 1
        elif tk.kind == "punct" and tk.text == "}":
            depth -= 1
        elif depth == 0 and tk.kind == "id" and tk.text == "impl":
            # inherent impl: impl Typ {   (no `for`)
            j = i + 1
            names = []
            while j < len(t) and not (t[j].kind == "punct" and t[j].text == "{"):
                names.append(t[j].text)
                j += 1
            if "for" in names:
                continue
            if names and names[-1] == typ and j < len(t):
                out.append((j, S.match[j]))
    return out


def find_fn(S, impl, name):
    """returns (fn_kw_idx, body_open_idx, body_close_idx)"""
    t = S.toks
    ranges = find_impl_ranges(S, impl) if impl else [(-1, len(t))]
    if impl and not ranges:
        raise LostAnchor("impl %s not found in %s" % (impl, S.path))
    hits = []
    for lo, hi in ranges:
        depth = 0
        i = lo + 1
        while i < hi:
            tk = t[i]
            if tk.kind == "punct" and tk.text == "{":
                # skip nested block entirely unless it is the fn we want (handled below)
                i = S.match[i] + 1
                continue
            if tk.kind == "id" and tk.text == "fn" and i + 1 < hi and t[i + 1].text == name:
                j = i + 2
                while j < hi and not (t[j].kind == "punct" and t[j].text in ("{", ";")):
                    if t[j].kind == "punct" and t[j].text in ("(", "["):
                        j = S.match[j]
                    j += 1
                if j < hi and t[j].text == "{":
                    hits.append((i, j, S.match[j]))
            i += 1
        del depth
    if not impl:
        # free function: must be at depth 0 -- the loop above skips every nested block, so ok,
        # but `mod tests { fn x }` are skipped too (nested).
        pass
    if len(hits) != 1:
        raise LostAnchor("fn %s::%s found %d times in %s" % (impl or "", name, len(hits), S.path))
    return hits[0]


CLOSURE_PREV = {"(", ",", "=", "move", "{", ";", "=>"}


def find_closures(S, lo, hi):
    """closures whose `|` lies in token range (lo, hi).  Returns list of dicts in source order."""
    t = S.toks
    out = []
    i = lo + 1
    while i < hi:
        tk = t[i]
        if tk.kind == "punct" and tk.text in ("|", "||") and t[i - 1].text in CLOSURE_PREV:
            if tk.text == "||":
                pe = i
            else:
                pe = i + 1
                while pe < hi and not (t[pe].kind == "punct" and t[pe].text == "|"):
                    if t[pe].kind == "punct" and t[pe].text in ("(", "["):
                        pe = S.match[pe]
                    pe += 1
            params = S.src[t[i].end:t[pe].start] if pe > i else ""
            bs = pe + 1
            if t[bs].kind == "punct" and t[bs].text == "{":
                be = S.match[bs]
                out.append(dict(bar=i, params=params.strip(), block=True,
                                start=t[bs].end, end=t[be].start, first=bs + 1, last=be - 1))
            else:
                # expression body: up to the first `,` or closing bracket at depth 0
                j = bs
                while j < hi:
                    x = t[j]
                    if x.kind == "punct" and x.text in ("(", "[", "{"):
                        j = S.match[j] + 1
                        continue
                    if x.kind == "punct" and x.text in (")", "]", "}", ",", ";"):
                        break
                    j += 1
                out.append(dict(bar=i, params=params.strip(), block=False,
                                start=t[bs].start, end=t[j - 1].end, first=bs, last=j - 1))
            i = pe + 1
            continue
        i += 1
    return out


def norm_ws(s):
    return re.sub(r"\s+", "", s)


# --------------------------------------------------------------------------------------------
# rewrites (each takes text, returns (text, [log lines]))

def _retok(text):
    toks = tokenize(text)
    return toks, match_brackets(toks)


def _apply_edits(text, edits):
    """edits: list of (start, end, replacement) non-overlapping"""
    out, pos = [], 0
    for s, e, r in sorted(edits):
        assert s >= pos, "overlapping edits"
        out.append(text[pos:s])
        out.append(r)
        pos = e
    out.append(text[pos:])
    return "".join(out)


STMT_BOUND = {";", "{", "}", "=>"}


def r1_compound_assign(text, base_line=0):
    """R1: `P op= E` -> `P = P op (E)` (Verus crashes on compound float assignment)."""
    log = []
    while True:
        toks, match = _retok(text)
        hit = None
        for i, tk in enumerate(toks):
            if tk.kind == "punct" and tk.text in ("+=", "-=", "*=", "/="):
                hit = i
                break
        if hit is None:
            return text, log
        i = hit
        # LHS start
        j = i - 1
        while j >= 0:
            x = toks[j]
            if x.kind == "punct" and x.text in (")", "]"):
                j = match[j] - 1
                continue
            if x.kind == "punct" and x.text in STMT_BOUND or (x.kind == "punct" and x.text in ("(", ",")):
                break
            j -= 1
        lhs_s = toks[j + 1].start
        lhs = text[lhs_s:toks[i].start].strip()
        # RHS end
        k = i + 1
        while k < len(toks):
            x = toks[k]
            if x.kind == "punct" and x.text in ("(", "[", "{"):
                k = match[k] + 1
                continue
            if x.kind == "punct" and x.text in (";", ",", ")", "]", "}"):
                break
            k += 1
        rhs_e = toks[k - 1].end
        rhs = text[toks[i + 1].start:rhs_e]
        op = toks[i].text[0]
        new = "%s = %s %s (%s)" % (lhs, lhs, op, rhs)
        log.append("R1 line %d: `%s %s %s` -> `%s`" % (base_line + toks[i].line - 1, lhs, toks[i].text,
                                                       " ".join(rhs.split()), " ".join(new.split())))
        text = text[:lhs_s] + new + text[rhs_e:]


PREFIX_PREV_PUNCT = {"(", ",", "=", "{", ";", "=>", "+", "-", "*", "/", "<", ">", "<=", ">=", "==", "!=",
                     "&&", "||", "|", "[", "!", ":", "+=", "-=", "*=", "/="}
PREFIX_PREV_ID = {"return", "if", "else", "in", "match", "while"}


def r2_unary_minus(text, base_line=0):
    """R2: unary minus on a non-literal operand -> fneg(operand)."""
    log = []
    while True:
        toks, match = _retok(text)
        hit = None
        for i, tk in enumerate(toks):
            if not (tk.kind == "punct" and tk.text == "-"):
                continue
            prev = toks[i - 1] if i > 0 else None
            prefix = prev is None or (prev.kind == "punct" and prev.text in PREFIX_PREV_PUNCT) or \
                (prev.kind == "id" and prev.text in PREFIX_PREV_ID)
            if not prefix:
                continue
            nxt = toks[i + 1]
            if nxt.kind == "num":
                continue  # negative literal: accepted by Verus as is
            hit = i
            break
        if hit is None:
            return text, log
        i = hit
        # operand: primary + postfix chain
        j = i + 1
        x = toks[j]
        if x.kind == "punct" and x.text == "(":
            j = match[j] + 1
        elif x.kind in ("id",):
            j += 1
            # path a::b::c
            while j + 1 < len(toks) and toks[j].text == "::":
                j += 2
            if j < len(toks) and toks[j].kind == "punct" and toks[j].text == "(":
                j = match[j] + 1
        elif x.kind == "punct" and x.text == "*":
            j += 2
        else:
            raise LostAnchor("R2: cannot delimit operand of unary minus near %r" % text[tk.start:tk.start + 30])
        while j < len(toks):
            x = toks[j]
            if x.kind == "punct" and x.text == "." and j + 1 < len(toks) and toks[j + 1].kind in ("id", "num"):
                j += 2
                if j < len(toks) and toks[j].kind == "punct" and toks[j].text == "(":
                    j = match[j] + 1
                continue
            if x.kind == "punct" and x.text == "[":
                j = match[j] + 1
                continue
            break
        operand = text[toks[i + 1].start:toks[j - 1].end]
        log.append("R2 line %d: `-%s` -> `fneg(%s)`" % (base_line + toks[i].line - 1,
                                                       " ".join(operand.split()), " ".join(operand.split())))
        text = text[:toks[i].start] + "fneg(" + operand + ")" + text[toks[j - 1].end:]


def r3_scale_call(text, base_line=0):
    log = []
    pat = re.compile(r"\(self\.scale\)\(self\.loops\)")
    for m in pat.finditer(text):
        log.append("R3 line %d: `(self.scale)(self.loops)` -> `call_scale(&self.scale, self.loops)`"
                   % (base_line + text.count("\n", 0, m.start())))
    return pat.sub("call_scale(&self.scale, self.loops)", text), log


def _loops(toks, match):
    """indices of `for`/`while`/`loop` keyword tokens that start a loop statement, in source order,
    with (kw_idx, body_open_idx)."""
    out = []
    for i, tk in enumerate(toks):
        if tk.kind == "id" and tk.text in ("for", "while", "loop"):
            if tk.text == "for" and i > 0 and toks[i - 1].text in ("impl", "<"):
                continue
            j = i + 1
            while j < len(toks) and not (toks[j].kind == "punct" and toks[j].text == "{"):
                if toks[j].kind == "punct" and toks[j].text in ("(", "["):
                    j = match[j]
                j += 1
            if j < len(toks):
                out.append((i, j))
    return out


def _contains_continue_own(toks, match, bo):
    """does the loop body opened at token bo contain a `continue` that belongs to this loop
    (i.e. not inside a nested loop)?  Returns list of token indices."""
    be = match[bo]
    nested = [(k, match[b]) for (k, b) in _loops(toks, match) if bo < k < be]
    res = []
    for i in range(bo + 1, be):
        if toks[i].kind == "id" and toks[i].text == "continue":
            if not any(a <= i <= b for a, b in nested):
                res.append(i)
    return res


def r10_tail_continue(text, base_line=0):
    """R10: a `continue` in tail position of its loop body (nothing executes after it) -> `{}`.
    Tail position: every enclosing construct up to the loop body is the last statement/expression
    of its block or a match arm of a match that is itself in tail position."""
    log = []
    while True:
        toks, match = _retok(text)
        done = True
        for (kw, bo) in _loops(toks, match):
            for ci in _contains_continue_own(toks, match, bo):
                if _is_tail(toks, match, ci, bo):
                    e = ci
                    if toks[ci + 1].text == ";":
                        e = ci + 1
                    log.append("R10 line %d: tail-position `continue` -> `{}`" % (base_line + toks[ci].line - 1))
                    text = text[:toks[ci].start] + "{}" + text[toks[e].end:]
                    done = False
                    break
            if not done:
                break
        if done:
            return text, log


def _is_tail(toks, match, idx, loop_open):
    """is token idx (a `continue`) in tail position w.r.t. the loop body opened at loop_open?"""
    i = idx
    # skip optional ';'
    j = i + 1
    if toks[j].text == ";":
        j += 1
    while True:
        # after the construct, next token must be a closing '}' (end of block) or ',' followed by
        # further match arms (match in tail position)
        while toks[j].text == ",":
            # rest of match arms: skip to the closing brace of the match
            depth_close = _enclosing_close(toks, match, j)
            j = depth_close
        if toks[j].text != "}":
            return False
        if match[j] == loop_open:
            return True
        # j closes a block; what owns this block?  continue outward
        o = match[j]
        # the block may be: an `if`/`else` block, a match-arm block, a match body
        # for if/else chains: if followed by `else`, the tail property must hold for the whole chain
        j = j + 1
        if toks[j].kind == "id" and toks[j].text == "else":
            return False  # keep it simple: not handled -> not tail
        if toks[j].text == ";":
            j += 1
        del o


def _enclosing_close(toks, match, i):
    depth = 0
    j = i
    while j < len(toks):
        x = toks[j]
        if x.kind == "punct" and x.text in ("(", "[", "{"):
            j = match[j] + 1
            continue
        if x.kind == "punct" and x.text == "}":
            return j
        j += 1
    raise LostAnchor("unbalanced while looking for enclosing close")


def r6_for_with_continue(text, base_line=0):
    """R6: `for P in A..B { .. continue .. }` -> `let mut __itN: usize = A; while __itN < B { let P = __itN; __itN = __itN + 1; .. }`"""
    log = []
    n = 0
    while True:
        toks, match = _retok(text)
        hit = None
        for (kw, bo) in _loops(toks, match):
            if toks[kw].text != "for":
                continue
            if _contains_continue_own(toks, match, bo):
                hit = (kw, bo)
                break
        if hit is None:
            return text, log
        kw, bo = hit
        # parse `for P in A..B`
        k = kw + 1
        while toks[k].text != "in":
            k += 1
        pat = text[toks[kw + 1].start:toks[k - 1].end]
        rng = text[toks[k + 1].start:toks[bo - 1].end]
        m = re.fullmatch(r"\s*(.+?)\s*\.\.\s*(.+?)\s*", rng, re.S)
        if not m or ".step_by" in rng or ".." in m.group(2):
            raise LostAnchor("R6: unsupported range `%s`" % rng)
        n += 1
        it = "__it%d" % n
        new_head = "let mut %s: usize = %s; while %s < %s " % (it, m.group(1), it, m.group(2))
        new_open = "{ let %s = %s; %s = %s + 1;" % (pat, it, it, it)
        log.append("R6 line %d: `for %s in %s` (body has `continue`) -> while-loop with hoisted increment (%s)"
                   % (base_line + toks[kw].line - 1, pat, " ".join(rng.split()), it))
        text = text[:toks[kw].start] + new_head + new_open + text[toks[bo].end:]


def r8_step_by(text, base_line=0):
    """R8: `for P in (A..B).step_by(S) { body }` (no own continue) -> `let mut P = A; while P < B { { body } P = P + S; }`"""
    log = []
    while True:
        toks, match = _retok(text)
        hit = None
        for (kw, bo) in _loops(toks, match):
            if toks[kw].text != "for":
                continue
            head = text[toks[kw].start:toks[bo].start]
            if ".step_by(" in head:
                hit = (kw, bo, head)
                break
        if hit is None:
            return text, log
        kw, bo, head = hit
        if _contains_continue_own(toks, match, bo):
            raise LostAnchor("R8: step_by loop with continue")
        m = re.fullmatch(r"for\s+(\w+)\s+in\s+\(\s*(.+?)\s*\.\.\s*(.+?)\s*\)\s*\.step_by\(\s*(.+?)\s*\)\s*", head, re.S)
        if not m:
            raise LostAnchor("R8: unsupported header `%s`" % head)
        p, a, b, s = m.groups()
        be = match[bo]
        body = text[toks[bo].end:toks[be].start]
        new = "let mut %s: usize = %s; while %s < %s { {%s} %s = %s + %s; }" % (p, a, p, b, body, p, p, s)
        log.append("R8 line %d: `%s` -> while-loop stepping `%s = %s + %s`" % (base_line + toks[kw].line - 1,
                                                                                " ".join(head.split()), p, p, s))
        text = text[:toks[kw].start] + new + text[toks[be].end:]


def r9_consts(text, base_line=0):
    log = []
    for pat, rep in ((r"\bf32::MIN\b", "f32_min_const()"), (r"\bf32::NEG_INFINITY\b", "f32_neg_inf_const()")):
        for m in re.finditer(pat, text):
            log.append("R9 line %d: `%s` -> `%s`" % (base_line + text.count("\n", 0, m.start()), m.group(0), rep))
        text = re.sub(pat, rep, text)
    return text, log


def r7_isqrt(text, base_line=0):
    log = []
    pat = re.compile(r"\(\s*\*?\s*(\w+)\s+as\s+f32\s*\)\s*\.sqrt\(\)\s+as\s+usize")
    for m in pat.finditer(text):
        log.append("R7 line %d: `%s` -> `isqrt_f32(%s%s)`" % (base_line + text.count("\n", 0, m.start()),
                                                           " ".join(m.group(0).split()),
                                                           "*" if "*" in m.group(0).split("as")[0] else "", m.group(1)))

    def rep(m):
        star = "*" if "*" in m.group(0).split("as")[0] else ""
        return "isqrt_f32(%s%s)" % (star, m.group(1))
    return pat.sub(rep, text), log


def _panic_calls(text):
    """(start, end, line, is_statement) of every panic!(..) / unimplemented!(..) macro call"""
    toks, match = _retok(text)
    out = []
    for i, tk in enumerate(toks):
        if tk.kind == "id" and tk.text in ("panic", "unimplemented") and i + 2 < len(toks) and toks[i + 1].text == "!" and toks[i + 2].text == "(":
            c = match[i + 2]
            stmt = c + 1 < len(toks) and toks[c + 1].text == ";"
            out.append((tk.start, toks[c].end, tk.line, stmt))
    return out


def r13_panic_allowed(text, base_line=0):
    """R13: `panic!(..)` -> `reject()` (external_body, ensures false): rejecting the call is a permitted outcome"""
    log, edits = [], []
    for s0, e0, ln, stmt in _panic_calls(text):
        edits.append((s0, e0, "return reject_v()"))
        log.append("R13 line %d: `%s` -> `return reject_v()` (`ensures false`: diverges; a permitted outcome for this unit)" % (base_line + ln - 1, " ".join(text[s0:e0].split())[:70]))
    return _apply_edits(text, edits), log


def r14_panic_forbidden(text, base_line=0):
    """R14: `panic!(..)` -> `must_not_reject()` (requires false): the call must be accepted under the unit's precondition"""
    log, edits = [], []
    for s0, e0, ln, stmt in _panic_calls(text):
        edits.append((s0, e0, "return must_not_reject_v()"))
        log.append("R14 line %d: `%s` -> `return must_not_reject_v()` (`requires false`: must be unreachable)" % (base_line + ln - 1, " ".join(text[s0:e0].split())[:70]))
    return _apply_edits(text, edits), log


def r12_enumerate(text, base_line=0):
    """R12: `for (I, P) in E.iter().enumerate() {` -> `for I in 0..E.len() { let P = &E[I];` (`&x` pattern: `let x = E[I];`).
    Assumes what `Iterator::enumerate` over a slice iterator guarantees: elements in index order, paired with their index."""
    log = []
    pat = re.compile(r"for\s*\(\s*(\w+)\s*,\s*(&?)\s*(\w+)\s*\)\s*in\s*([\w\.\[\]]+?)\.iter\(\)\.enumerate\(\)\s*\{")
    while True:
        m = pat.search(text)
        if not m:
            return text, log
        i, amp, p, e = m.groups()
        bind = "let %s = %s[%s];" % (p, e, i) if amp else "let %s = &%s[%s];" % (p, e, i)
        new = "for %s in 0..%s.len() { %s" % (i, e, bind)
        log.append("R12 line %d: `%s` -> `%s`" % (base_line + text.count("\n", 0, m.start()), " ".join(m.group(0).split()), new))
        text = text[:m.start()] + new + text[m.end():]


def r15_iter(text, base_line=0):
    """R15: `for P in E.iter() {` -> `for __ixN in 0..E.len() { let P = &E[__ixN];` (slice iterator visits elements in index order)"""
    log = []
    pat = re.compile(r"for\s+(&?\w+|\([\w\s,]+\))\s+in\s+([\w\.\[\]]+?)\.iter\(\)\s*\{")
    n = 0
    while True:
        m = pat.search(text)
        if not m:
            return text, log
        n += 1
        p, e = m.groups()
        if p.startswith("&"):       # `for &v in E.iter()`: the element by value
            new = "for __ix%d in 0..%s.len() { let %s = %s[__ix%d];" % (n, e, p[1:], e, n)
        else:
            new = "for __ix%d in 0..%s.len() { let %s = &%s[__ix%d];" % (n, e, p, e, n)
        log.append("R15 line %d: `%s` -> `%s`" % (base_line + text.count("\n", 0, m.start()), " ".join(m.group(0).split()), new))
        text = text[:m.start()] + new + text[m.end():]


def r16_map_index(text, base_line=0):
    """R16: `M[&k]` on a HashMap -> `(*M.get(&k).unwrap())` (std defines `Index for HashMap` as `get(k).expect(..)`; vstd specifies
    `get` but not the Index impl)."""
    log = []
    pat = re.compile(r"((?:self\.)?\w+)\[&(\w+)\]")
    for m in pat.finditer(text):
        log.append("R16 line %d: `%s` -> `(*%s.get(&%s).unwrap())`" % (base_line + text.count("\n", 0, m.start()), m.group(0), m.group(1), m.group(2)))
    return pat.sub(lambda m: "(*%s.get(&%s).unwrap())" % (m.group(1), m.group(2)), text), log


def r17_for_in_ref_vec(text, base_line=0):
    """R17: `for P in E.unwrap() {` (iteration over a `&Vec`) -> `let __srcN = E.unwrap(); for __jxN in 0..__srcN.len() { let P = &__srcN[__jxN];`"""
    log = []
    pat = re.compile(r"for\s+(\w+)\s+in\s+([^{};]+?\.unwrap\(\))\s*\{")
    n = 0
    while True:
        m = pat.search(text)
        if not m:
            return text, log
        n += 1
        p, e = m.groups()
        new = "let __src%d = %s; for __jx%d in 0..__src%d.len() { let %s = &__src%d[__jx%d];" % (n, e, n, n, p, n, n)
        log.append("R17 line %d: `%s` -> `%s`" % (base_line + text.count("\n", 0, m.start()), " ".join(m.group(0).split()), new))
        text = text[:m.start()] + new + text[m.end():]


def r18_assert_eq_shape(text, base_line=0):
    """R18: `assert_eq_shape!(A, B);` -> its definition in src/tensor.rs: `if A != B { panic!(..) }` (then R13/R14 apply)"""
    log = []
    pat = re.compile(r"assert_eq_shape!\(\s*([^,;]+?)\s*,\s*([^;]+?)\s*\);")
    for m in pat.finditer(text):
        log.append("R18 line %d: `%s` -> `if %s != %s { panic!(..) }` (macro expanded by hand)" % (base_line + text.count("\n", 0, m.start()), m.group(0), m.group(1), m.group(2)))
    return pat.sub(lambda m: "if %s != %s { panic!(\"shape\"); }" % (m.group(1), m.group(2)), text), log


def r19_last_unwrap(text, base_line=0):
    """R19: `V.last().unwrap()` -> `(&V[V.len() - 1])` for a plain identifier / field path V (vstd has no spec for `slice::last`)"""
    log = []
    pat = re.compile(r"((?:self\.)?\w+)\.last\(\)\.unwrap\(\)")
    for m in pat.finditer(text):
        log.append("R19 line %d: `%s` -> `(&%s[%s.len() - 1])`" % (base_line + text.count("\n", 0, m.start()), m.group(0), m.group(1), m.group(1)))
    text = pat.sub(lambda m: "(&%s[%s.len() - 1])" % (m.group(1), m.group(1)), text)
    pat3 = re.compile(r"(\(&\w+\[\w+\.len\(\) - 1\]\))\.last\(\)\.unwrap\(\)")
    for m in pat3.finditer(text):
        log.append("R19 line %d: `%s` -> `({ let __lw = %s; &__lw[__lw.len() - 1] })`" % (base_line + text.count("\n", 0, m.start()), m.group(0), m.group(1)))
    text = pat3.sub(lambda m: "({ let __lw = %s; &__lw[__lw.len() - 1] })" % m.group(1), text)
    pat2 = re.compile(r"((?:self\.)?[\w\.]+\.get\(&\w+\)\.unwrap\(\))\.last\(\)\.unwrap\(\)")
    for m in pat2.finditer(text):
        log.append("R19 line %d: `%s` -> `({ let __lv = %s; &__lv[__lv.len() - 1] })`" % (base_line + text.count("\n", 0, m.start()), m.group(0), m.group(1)))
    return pat2.sub(lambda m: "({ let __lv = %s; &__lv[__lv.len() - 1] })" % m.group(1), text), log


def r20_range_enumerate(text, base_line=0):
    """R20: `for (I, J) in (A..B).enumerate() {` -> `for I in 0..(B) - (A) { let J = (A) + I;`"""
    log = []
    pat = re.compile(r"for\s*\(\s*(\w+)\s*,\s*(\w+)\s*\)\s*in\s*\(\s*([^().]+?)\s*\.\.\s*([^()]+?)\s*\)\.enumerate\(\)\s*\{")
    while True:
        m = pat.search(text)
        if not m:
            return text, log
        i, j, a, b = m.groups()
        new = "for %s in 0..(%s) - (%s) { let %s = (%s) + %s;" % (i, b, a, j, a, i)
        log.append("R20 line %d: `%s` -> `%s`" % (base_line + text.count("\n", 0, m.start()), " ".join(m.group(0).split()), new))
        text = text[:m.start()] + new + text[m.end():]


def r22_map_collect(text, base_line=0):
    """R22: `let V: Vec<T> = E.iter().map(|x| F).collect();` -> `let mut V: Vec<T> = Vec::new(); for __k in 0..E.len() { let x = &E[__k]; V.push(F); }`
    (what `iter().map().collect()` into a Vec does: push F(x) for each element in order; `|&x|` binds by value, `|ref x|` by `ref`)"""
    log = []
    pat = re.compile(r"let\s+(\w+)\s*:\s*(Vec<[^=;]+>)\s*=\s*((?:self\s*\.\s*)?\w+)\s*\.iter\(\)\s*\.map\(\|((?:ref\s+|&)?\w+)\|\s*")
    pos = 0
    n = 0
    while True:
        m = pat.search(text, pos)
        if not m:
            return text, log
        v, ty, e, x = m.groups()
        # F runs to the `)` that closes `.map(`
        k, depth = m.end(), 0
        while k < len(text):
            ch = text[k]
            if ch in "([{":
                depth += 1
            elif ch in ")]}":
                if depth == 0:
                    break
                depth -= 1
            k += 1
        tail = re.match(r"\)\s*\.collect\(\);", text[k:])
        if not tail:
            pos = m.end()
            continue
        f = text[m.end():k]
        e = "".join(e.split())
        n += 1
        idx = "__k"
        bind = ("let %s = %s[%s];" % (x[1:], e, idx)) if x.startswith("&") else ("let %s = &%s[%s];" % (x, e, idx))
        new = "let mut %s: %s = Vec::new(); for %s in 0..%s.len() { %s %s.push(%s); }" % (v, ty.strip(), idx, e, bind, v, f.strip())
        new += "\n" * (text[m.start():k + tail.end()].count("\n") - new.count("\n"))
        log.append("R22 line %d: `let %s: %s = %s.iter().map(|%s| ..).collect();` -> index loop pushing the closure value" % (base_line + text.count("\n", 0, m.start()), v, ty.strip(), e, x))
        text = text[:m.start()] + new + text[k + tail.end():]
        pos = m.start() + 10


def r23_slice_iter(text, base_line=0):
    """R23: `for X in &E[A..B] {` -> `for __i in A..B { let X = &E[__i];`"""
    log = []
    pat = re.compile(r"for\s+(\w+)\s+in\s+&([\w\.]+)\[([^\]\.]+)\.\.([^\]]+)\]\s*\{")
    while True:
        m = pat.search(text)
        if not m:
            return text, log
        x, e, a, b = m.groups()
        new = "for __i in %s..%s { let %s = &%s[__i];" % (a.strip(), b.strip(), x, e)
        log.append("R23 line %d: `%s` -> `%s`" % (base_line + text.count("\n", 0, m.start()), m.group(0), new))
        text = text[:m.start()] + new + text[m.end():]


def r24_name_wildcard_loop(text, base_line=0):
    """R24: `for _ in A..B {` -> `for __it in A..B {` (names the counter so that an invariant can mention it)"""
    log = []
    pat = re.compile(r"for\s+_\s+in\s+")
    for m in pat.finditer(text):
        log.append("R24 line %d: `for _ in` -> `for __it in`" % (base_line + text.count("\n", 0, m.start())))
    return pat.sub("for __it in ", text), log


def _balanced(text, open_pos):
    """offset just past the bracket that closes the one at open_pos"""
    pairs = {"(": ")", "[": "]", "{": "}"}
    depth, k = 0, open_pos
    while k < len(text):
        c = text[k]
        if c in pairs:
            depth += 1
        elif c in pairs.values():
            depth -= 1
            if depth == 0:
                return k + 1
        k += 1
    raise LostAnchor("unbalanced bracket in extracted text")


def r25_par_map_collect(text, base_line=0):
    """R25: `let V: Vec<_> = E .into_par_iter() .map(|(A, B)| { BODY }) .collect();` (E a pair of slices: rayon's zipped, order-
    preserving parallel map) -> `let mut V = Vec::new(); for __s in 0..min(E.0.len(), E.1.len()) { let (A, B) = (&E.0[__s], &E.1[__s]); V.push({ BODY }); }`"""
    log = []
    pat = re.compile(r"let\s+(\w+)\s*:\s*Vec<_>\s*=\s*(\w+)\s*\.into_par_iter\(\)\s*\.map\(\|\((\w+),\s*(\w+)\)\|\s*\{")
    while True:
        m = pat.search(text)
        if not m:
            return text, log
        v, e, a, b = m.groups()
        body_open = m.end() - 1
        body_close = _balanced(text, body_open)
        tail = re.match(r"\s*\)\s*\.collect\(\);", text[body_close:])
        if not tail:
            raise LostAnchor("R25: `.collect();` does not follow the mapped closure")
        body = text[body_open:body_close]
        head = ("let mut %s = Vec::new(); for __s in 0..(if %s.0.len() < %s.1.len() { %s.0.len() } else { %s.1.len() }) { let (%s, %s) = (&%s.0[__s], &%s.1[__s]); %s.push("
                % (v, e, e, e, e, a, b, e, e, v))
        pre_nl = text[m.start():body_open].count("\n")
        post_nl = tail.group(0).count("\n")
        new = head + "\n" * pre_nl + body + "); }" + "\n" * post_nl
        log.append("R25 line %d: `let %s: Vec<_> = %s.into_par_iter().map(|(%s, %s)| {..}).collect();` -> sequential index loop pushing the closure body's value "
                   "(rayon's indexed parallel map + collect keeps input order: assumed, C05's subject)" % (base_line + text.count("\n", 0, m.start()), v, e, a, b))
        text = text[:m.start()] + new + text[body_close + tail.end():]


def r26_zip_iter_mut(text, base_line=0):
    """R26: `for (A, B) in X.iter_mut().zip(Y.iter()) {` -> `for __z in 0..min(X.len(), Y.len()) { let A = &mut X[__z]; let B = &Y[__z];`"""
    log = []
    pat = re.compile(r"for\s*\(\s*(\w+)\s*,\s*(\w+)\s*\)\s*in\s*(\w+)\.iter_mut\(\)\.zip\((\w+)\.iter\(\)\)\s*\{")
    while True:
        m = pat.search(text)
        if not m:
            return text, log
        a, b, x, y = m.groups()
        new = "for __z in 0..(if %s.len() < %s.len() { %s.len() } else { %s.len() }) { let %s = &mut %s[__z]; let %s = &%s[__z];" % (x, y, x, y, a, x, b, y)
        log.append("R26 line %d: `%s` -> `%s`" % (base_line + text.count("\n", 0, m.start()), m.group(0), new))
        text = text[:m.start()] + new + text[m.end():]


def r27_sum_f32(text, base_line=0):
    """R27: `E.iter().sum::<f32>()` -> `f32_sum(&E)` (opaque: std's in-order float sum of the elements)"""
    log = []
    pat = re.compile(r"(\w+)\.iter\(\)\.sum::<f32>\(\)")
    for m in pat.finditer(text):
        log.append("R27 line %d: `%s` -> `f32_sum(&%s)`" % (base_line + text.count("\n", 0, m.start()), m.group(0), m.group(1)))
    return pat.sub(lambda m: "f32_sum(&%s)" % m.group(1), text), log


def r28_as_f32(text, base_line=0):
    """R28: `E as f32` (E = a path of field accesses / `.len()` calls) -> `usize_as_f32(E)` (opaque conversion)"""
    log = []
    pat = re.compile(r"(\b\w+(?:\.\w+(?:\(\))?)*|\((?:[^()]|\([^()]*\))*\))\s+as\s+f32\b")
    for m in pat.finditer(text):
        log.append("R28 line %d: `%s` -> `usize_as_f32(%s)`" % (base_line + text.count("\n", 0, m.start()), m.group(0), m.group(1)))
    return pat.sub(lambda m: "usize_as_f32(%s)" % m.group(1), text), log


def r55_len_as_f32(text, base_line=0):
    """R55: `E.len() as f32` (E = a path of field accesses / argument-less calls) -> `usize_as_f32(E.len())` (R28 restricted to lengths: other `as f32` casts stay)"""
    log = []
    pat = re.compile(r"(\b\w+(?:\s*\.\w+(?:\(\))?)*\s*\.len\(\))\s+as\s+f32\b")
    for m in pat.finditer(text):
        log.append("R55 line %d: `%s` -> `usize_as_f32(%s)`" % (base_line + text.count("\n", 0, m.start()), " ".join(m.group(0).split()), " ".join(m.group(1).split())))
    return pat.sub(lambda m: "usize_as_f32(%s)" % m.group(1), text), log


def r56_extend_map(text, base_line=0):
    """R56: `X.extend(E.iter().map(|P| BODY));` (P = `&v`: by copy, or `x`: by reference) -> `for __e_P in 0..E.len() { let P = E[__e_P] / &E[__e_P]; X.push(BODY); }`"""
    log = []
    pat = re.compile(r"(\w+)\s*\.extend\(\s*(\w+)\s*\.iter\(\)\s*\.map\(\s*\|(&?)(\w+)\|\s*")
    while True:
        ms = list(pat.finditer(text))
        if not ms:
            return text, log
        m = ms[-1]
        x, e, amp, v = m.groups()
        k, depth = m.end(), 0
        while k < len(text):
            ch = text[k]
            if ch in "([{":
                depth += 1
            elif ch in ")]}":
                if depth == 0:
                    break
                depth -= 1
            k += 1
        tail = re.match(r"\)\s*,?\s*\)\s*;", text[k:])
        if not tail:
            raise LostAnchor("R56: `));` does not follow the mapped closure")
        body = text[m.end():k].rstrip().rstrip(",").rstrip()
        new = "for __e_%s in 0..%s.len() { let %s = %s%s[__e_%s]; %s.push(%s); }" % (v, e, v, "" if amp else "&", e, v, x, body)
        new += "\n" * max(0, text[m.start():k + tail.end()].count("\n") - new.count("\n"))
        log.append("R56 line %d: `%s.extend(%s.iter().map(|%s%s| ..));` -> index loop pushing the closure value" % (base_line + text.count("\n", 0, m.start()), x, e, amp, v))
        text = text[:m.start()] + new + text[k + tail.end():]


def r29_consuming_for(text, base_line=0):
    """R29: `for (A, B, C) in V {` (consuming a Vec in order) -> `let mut __v = V; while __v.len() > 0 { let (A, B, C) = __v.remove(0);`
    (same elements in the same order; vstd specifies `Vec::remove`, not the `IntoIter` of this Verus version)"""
    log = []
    pat = re.compile(r"for\s*(\([\w\s,]+\))\s*in\s*(\w+)\s*\{")
    while True:
        m = pat.search(text)
        if not m:
            return text, log
        pt, v = m.groups()
        new = "let mut __v = %s; while __v.len() > 0 { let %s = __v.remove(0);" % (v, pt)
        log.append("R29 line %d: `%s` -> `%s`" % (base_line + text.count("\n", 0, m.start()), m.group(0), new))
        text = text[:m.start()] + new + text[m.end():]


def r30_rev_take_collect(text, base_line=0):
    """R30: `let V: Vec<&T> = E.iter().rev().take(N).collect();` -> `let mut V: Vec<&T> = Vec::new(); for __r in 0..min(N, E.len()) { V.push(&E[E.len() - 1 - __r]); }`"""
    log = []
    pat = re.compile(r"let\s+(\w+)\s*:\s*(Vec<&\w+>)\s*=\s*(\w+)\.iter\(\)\.rev\(\)\.take\(([^()]+(?:\([^()]*\))?[^()]*)\)\.collect\(\);", re.S)
    while True:
        m = pat.search(text)
        if not m:
            return text, log
        v, ty, e, n = m.groups()
        n = " ".join(n.split())
        new = ("let mut %s: %s = Vec::new(); let __n = %s; for __r in 0..(if __n < %s.len() { __n } else { %s.len() }) { %s.push(&%s[%s.len() - 1 - __r]); }"
               % (v, ty, n, e, e, v, e, e)) + "\n" * m.group(0).count("\n")
        log.append("R30 line %d: `%s` -> `%s`" % (base_line + text.count("\n", 0, m.start()), " ".join(m.group(0).split()), new.strip()))
        text = text[:m.start()] + new + text[m.end():]


def r31_zip_map_sum(text, base_line=0):
    """R31: `X.iter().zip(Y.iter()).map(|(A, B)| BODY).sum[::<f32>]()` -> `({ let mut __m: Vec<f32> = Vec::new(); for __q in 0..min(X.len(), Y.len())
    { let (A, B) = (&X[__q], &Y[__q]); __m.push(BODY); } f32_sum(&__m) })`"""
    log = []
    pat = re.compile(r"(\w+)\s*\.iter\(\)\s*\.zip\((\w+)\.iter\(\)\)\s*\.map\(\s*\|\((\w+),\s*(\w+)\)\|\s*")
    pos = 0
    while True:
        m = pat.search(text, pos)
        if not m:
            return text, log
        x, y, a, b = m.groups()
        k, depth = m.end(), 0
        while k < len(text):
            ch = text[k]
            if ch in "([{":
                depth += 1
            elif ch in ")]}":
                if depth == 0:
                    break
                depth -= 1
            k += 1
        tail = re.match(r"\)\s*\.sum(?:::<f32>)?\(\)", text[k:])
        if not tail:
            pos = m.end()
            continue
        body = text[m.end():k].rstrip().rstrip(",").rstrip()
        new = ("({ let mut __m: Vec<f32> = Vec::new(); for __q in 0..(if %s.len() < %s.len() { %s.len() } else { %s.len() }) { let (%s, %s) = (&%s[__q], &%s[__q]); __m.push("
               % (x, y, x, y, a, b, x, y)) + body + "); } f32_sum(&__m) })"
        new += "\n" * max(0, text[m.start():k + tail.end()].count("\n") - new.count("\n"))
        log.append("R31 line %d: `%s.iter().zip(%s.iter()).map(|(%s, %s)| ..).sum()` -> index loop collecting the closure values, then the opaque in-order sum"
                   % (base_line + text.count("\n", 0, m.start()), x, y, a, b))
        text = text[:m.start()] + new + text[k + tail.end():]
        pos = m.start() + 10


def _chunk_loops(out, a, b, c, pa, pb, body):
    """nested while loops that visit (A[k], B[k]) (or A[k]) exactly as `chunks(C)`, `zip` and an inner `iter().zip()` do; the chunk
    size expression is evaluated once; a ghost arithmetic hint (erased) heads each outer iteration"""
    pre = "let __cs: usize = %s; let mut __ci: usize = 0; " % c
    hint = "proof { lemma_chunk_step(__ci as int, __cs as int); } "
    if b is None:
        return (pre + "while __ci * __cs < %s.len() { " % a + hint +
                "let __ea = if (__ci + 1) * __cs < %s.len() { (__ci + 1) * __cs } else { %s.len() }; " % (a, a) +
                "let mut __k: usize = __ci * __cs; while __k < __ea { let %s = &%s[__k]; %s.push(%s); __k = __k + 1; } __ci = __ci + 1; }" % (pa, a, out, body))
    return (pre + "while __ci * __cs < %s.len() && __ci * __cs < %s.len() { " % (a, b) + hint +
            "let __ea = if (__ci + 1) * __cs < %s.len() { (__ci + 1) * __cs } else { %s.len() }; " % (a, a) +
            "let __eb = if (__ci + 1) * __cs < %s.len() { (__ci + 1) * __cs } else { %s.len() }; " % (b, b) +
            "let mut __k: usize = __ci * __cs; while __k < __ea && __k < __eb { let (%s, %s) = (&%s[__k], &%s[__k]); %s.push(%s); __k = __k + 1; } __ci = __ci + 1; }"
            % (pa, pb, a, b, out, body))


def r32_chunked_zip_flat_map(text, base_line=0):
    """R32: `let V: Vec<_> = A.par_chunks(C).zip(B.par_chunks(C)).flat_map(|(A2, B2)| { A2.iter().zip(B2.iter()).map(|(a, b)| { BODY }).collect::<Vec<_>>() }).collect();`
    -> `let mut V = Vec::new();` + nested while loops over chunk index and position pushing `{ BODY }` (rayon's chunked, order-preserving flat_map: assumed = std's)"""
    log = []
    pat = re.compile(r"let\s+(\w+)\s*:\s*Vec<_>\s*=\s*(\w+)\s*\.par_chunks\((\w+)\)\s*\.zip\((\w+)\.par_chunks\(\3\)\)\s*\.flat_map\(\|\((\w+),\s*(\w+)\)\|\s*\{\s*\5\s*\.iter\(\)\s*\.zip\(\6\.iter\(\)\)\s*\.map\(\|\((\w+),\s*(\w+)\)\|\s*\{")
    m = pat.search(text)
    if not m:
        return text, log
    v, a, c, b, a2, b2, pa, pb = m.groups()
    bo = m.end() - 1
    bc = _balanced(text, bo)
    tail = re.match(r"\s*\)\s*\.collect::<Vec<_>>\(\)\s*\}\s*\)\s*\.collect\(\);", text[bc:])
    if not tail:
        raise LostAnchor("R32: the collect tail does not follow the mapped closure")
    nl = text[m.start():bo].count("\n")
    new = "let mut %s = Vec::new(); " % v + "\n" * nl + _chunk_loops(v, a, b, c, pa, pb, text[bo:bc]) + "\n" * tail.group(0).count("\n")
    log.append("R32 line %d: `%s.par_chunks(%s).zip(%s.par_chunks(%s)).flat_map(|(..)| {..iter().zip(..).map(|(%s, %s)| {..}).collect()}).collect()` -> nested index loops "
               "(chunk index, position) pushing the closure value; rayon's order-preserving chunked flat_map assumed equal to std's"
               % (base_line + text.count("\n", 0, m.start()), a, c, b, c, pa, pb))
    return text[:m.start()] + new + text[bc + tail.end():], log


def r34_chunked_flat_map(text, base_line=0):
    """R34: tail expression `A.par_chunks(C).flat_map(|B| { B.iter().map(|a| EXPR).collect::<Vec<_>>() }).collect()` -> block with nested index loops"""
    log = []
    pat = re.compile(r"(\w+)\s*\.par_chunks\((\w+)\)\s*\.flat_map\(\|(\w+)\|\s*\{\s*\3\s*\.iter\(\)\s*\.map\(\|(\w+)\|\s*")
    m = pat.search(text)
    if not m:
        return text, log
    a, c, b2, pa = m.groups()
    # EXPR runs to the `)` that closes `.map(`
    k, depth = m.end(), 0
    while k < len(text):
        ch = text[k]
        if ch in "([{":
            depth += 1
        elif ch in ")]}":
            if depth == 0:
                break
            depth -= 1
        k += 1
    expr = text[m.end():k]
    tail = re.match(r"\)\s*\.collect::<Vec<_>>\(\)\s*\}\s*\)\s*\.collect\(\)", text[k:])
    if not tail:
        raise LostAnchor("R34: the collect tail does not follow the mapped closure")
    nl = text[m.start():k].count("\n") + tail.group(0).count("\n")
    new = "{ let mut __out = Vec::new(); " + _chunk_loops("__out", a, None, c, pa, None, expr.strip()) + " __out }" + "\n" * nl
    log.append("R34 line %d: `%s.par_chunks(%s).flat_map(|%s| {%s.iter().map(|%s| ..).collect()}).collect()` -> nested index loops pushing the closure value (order-preserving: assumed)"
               % (base_line + text.count("\n", 0, m.start()), a, c, b2, b2, pa))
    return text[:m.start()] + new + text[k + tail.end():], log


def r33_unzip(text, base_line=0):
    """R33: `let (P, Q): (Vec<_>, Vec<_>) = V.into_iter().unzip();` -> two pushes per element in an index loop (elements are `Copy` pairs)"""
    log = []
    pat = re.compile(r"let\s*\((\w+),\s*(\w+)\)\s*:\s*\(Vec<_>,\s*Vec<_>\)\s*=\s*(\w+)\.into_iter\(\)\.unzip\(\);")
    m = pat.search(text)
    if not m:
        return text, log
    p_, q_, v = m.groups()
    new = "let mut %s = Vec::new(); let mut %s = Vec::new(); for __u in 0..%s.len() { %s.push(%s[__u].0); %s.push(%s[__u].1); }" % (p_, q_, v, p_, v, q_, v)
    log.append("R33 line %d: `%s` -> `%s`" % (base_line + text.count("\n", 0, m.start()), m.group(0), new))
    return text[:m.start()] + new + text[m.end():], log


def r35_chunk_const(text, base_line=0):
    """R35: the crate constant `_CHUNKS` -> opaque `chunk_size()` (any value 1..=4096: the result must not depend on it)"""
    log = []
    for m in re.finditer(r"\b_CHUNKS\b", text):
        log.append("R35 line %d: `_CHUNKS` -> `chunk_size()`" % (base_line + text.count("\n", 0, m.start())))
    return re.sub(r"\b_CHUNKS\b", "chunk_size()", text), log


def r40_for_mut_ref(text, base_line=0):
    """R40: `for X in &mut E {` -> `for __i in 0..E.len() { let X = &mut E[__i];`"""
    log = []
    pat = re.compile(r"for\s+(\w+)\s+in\s+&mut\s+([\w\.]+)\s*\{")
    while True:
        m = pat.search(text)
        if not m:
            return text, log
        x, e = m.groups()
        new = "for __i in 0..%s.len() { let %s = &mut %s[__i];" % (e, x, e)
        log.append("R40 line %d: `%s` -> `%s`" % (base_line + text.count("\n", 0, m.start()), m.group(0), new))
        text = text[:m.start()] + new + text[m.end():]


def r41_iter_mut_for_each(text, base_line=0):
    """R41: `E.iter_mut().for_each(|X| BODY);` -> `for __i in 0..E.len() { let X = &mut E[__i]; BODY; }`"""
    log = []
    pat = re.compile(r"([\w\.]+)\.iter_mut\(\)\.for_each\(\|(\w+)\|\s*")
    while True:
        m = pat.search(text)
        if not m:
            return text, log
        e, x = m.groups()
        # BODY runs to the `)` that closes `for_each(`
        k, depth = m.end(), 0
        while k < len(text):
            ch = text[k]
            if ch in "([{":
                depth += 1
            elif ch in ")]}":
                if depth == 0:
                    break
                depth -= 1
            k += 1
        tail = re.match(r"\)\s*;", text[k:])
        if not tail:
            raise LostAnchor("R41: `);` does not follow the for_each closure")
        body = text[m.end():k]
        new = "for __i in 0..%s.len() { let %s = &mut %s[__i]; %s; }" % (e, x, e, body)
        log.append("R41 line %d: `%s.iter_mut().for_each(|%s| ..);` -> `for __i in 0..%s.len() { let %s = &mut %s[__i]; ..; }`" % (base_line + text.count("\n", 0, m.start()), e, x, e, x, e))
        text = text[:m.start()] + new + text[k + tail.end():]


def r57_iter_mut_for_each_while(text, base_line=0):
    """R57: `E.iter_mut().for_each(|X| BODY);` -> `{ let ghost __g_X = E@; let mut __i_X = 0; while __i_X < E.len() { let X = &mut E[__i_X]; BODY; __i_X += 1; } }` (R41 as a `while`, plus an erased ghost snapshot of E:
    the range end of a `for` is not linked to the vector once an element is mutably borrowed)"""
    log = []
    pat = re.compile(r"([\w\.]+)\s*\.iter_mut\(\)\s*\.for_each\(\|(\w+)\|\s*")
    while True:
        m = pat.search(text)
        if not m:
            return text, log
        e, x = m.groups()
        k, depth = m.end(), 0
        while k < len(text):
            ch = text[k]
            if ch in "([{":
                depth += 1
            elif ch in ")]}":
                if depth == 0:
                    break
                depth -= 1
            k += 1
        tail = re.match(r"\)\s*;", text[k:])
        if not tail:
            raise LostAnchor("R57: `);` does not follow the for_each closure")
        body = text[m.end():k]
        new = "{ let ghost __g_%s = %s@; let mut __i_%s: usize = 0; while __i_%s < %s.len() { let %s = &mut %s[__i_%s]; %s; __i_%s += 1; } }" % (x, e, x, x, e, x, e, x, body, x)
        log.append("R57 line %d: `%s.iter_mut().for_each(|%s| ..);` -> `while` loop over the indices, `%s` bound to `&mut %s[i]`" % (base_line + text.count("\n", 0, m.start()), e, x, x, e))
        text = text[:m.start()] + new + text[k + tail.end():]


def r58_zip_mut_for_each_while(text, base_line=0):
    """R58: `E1.iter_mut().zip(E2.iter()).for_each(|(A, B)| BODY);` -> `{ let ghost __g_A = E1@; let mut __i_A = 0; while __i_A < E1.len() && __i_A < E2.len()
    { let A = &mut E1[__i_A]; let B = &E2[__i_A]; BODY; __i_A += 1; } }` (the pairs `zip` yields, in order; erased ghost snapshot of E1)"""
    log = []
    pat = re.compile(r"(\w+)\s*\.iter_mut\(\)\s*\.zip\((\w+)\.iter\(\)\)\s*\.for_each\(\|\((\w+),\s*(\w+)\)\|\s*")
    while True:
        m = pat.search(text)
        if not m:
            return text, log
        e1, e2, a, b = m.groups()
        k, depth = m.end(), 0
        while k < len(text):
            ch = text[k]
            if ch in "([{":
                depth += 1
            elif ch in ")]}":
                if depth == 0:
                    break
                depth -= 1
            k += 1
        tail = re.match(r"\)\s*;", text[k:])
        if not tail:
            raise LostAnchor("R58: `);` does not follow the for_each closure")
        body = text[m.end():k]
        new = ("{ let ghost __g_%s = %s@; let mut __i_%s: usize = 0; while __i_%s < %s.len() && __i_%s < %s.len() { let %s = &mut %s[__i_%s]; let %s = &%s[__i_%s]; %s; __i_%s += 1; } }"
               % (a, e1, a, a, e1, a, e2, a, e1, a, b, e2, a, body, a))
        new += "\n" * max(0, text[m.start():m.end()].count("\n") - new.count("\n") + body.count("\n"))
        log.append("R58 line %d: `%s.iter_mut().zip(%s.iter()).for_each(|(%s, %s)| ..);` -> `while` loop over the common indices" % (base_line + text.count("\n", 0, m.start()), e1, e2, a, b))
        text = text[:m.start()] + new + text[k + tail.end():]


def r59_assert_eq_shape(text, base_line=0):
    """R59: `assert_eq_shape!(A, B);` -> `if A != B { panic!("shape mismatch"); }` (the macro of src/tensor.rs written out; the message is dropped)"""
    log = []
    pat = re.compile(r"assert_eq_shape!\(([^,()]+),\s*([^,()]+)\);")
    for m in pat.finditer(text):
        log.append("R59 line %d: `%s` -> `if %s != %s { panic!(..) }` (macro expansion, message dropped)" % (base_line + text.count("\n", 0, m.start()), m.group(0), m.group(1), m.group(2)))
    return pat.sub(lambda m: 'if %s != %s { panic!("shape mismatch"); }' % (m.group(1), m.group(2)), text), log


def r60_range_map_collect(text, base_line=0):
    """R60: `(0..N).map(|_| BODY).collect()` (nested: innermost first; leaf type f32) -> `({ let mut __n_d: Vec<..<f32>..> = Vec::new(); for __r_d in 0..N { __n_d.push(BODY); } __n_d })`
    (d = nesting depth counted from the innermost; the annotation is static information only: rustc rejects a wrong one)"""
    log = []
    pat = re.compile(r"\(0\.\.(\w+)\)\s*\.map\(\|_\|\s*")
    while True:
        ms = list(pat.finditer(text))
        if not ms:
            return text, log
        m = ms[-1]
        n = m.group(1)
        k, depth = m.end(), 0
        while k < len(text):
            ch = text[k]
            if ch in "([{":
                depth += 1
            elif ch in ")]}":
                if depth == 0:
                    break
                depth -= 1
            k += 1
        tail = re.match(r"\)\s*\.collect\(\)", text[k:])
        if not tail:
            raise LostAnchor("R60: `.collect()` does not follow the mapped closure")
        body = text[m.end():k].rstrip().rstrip(",").rstrip()
        d = 1 + max([int(x) for x in re.findall(r"__n_(\d+)", body)] or [0])
        inner = [x.count("Vec<") for x in re.findall(r"let mut __n_\d+: ((?:Vec<)+)f32", body)]
        nv = (1 + max(inner)) if inner else (2 if re.match(r"vec!\[", body) else 1)       # a `vec![x; n]` leaf is itself a Vec<f32>
        ty = "Vec<" * nv + "f32" + ">" * nv
        new = "({ let mut __n_%d: %s = Vec::new(); for __r_%d in 0..%s { __n_%d.push(%s); } __n_%d })" % (d, ty, d, n, d, body, d)
        new += "\n" * max(0, text[m.start():k + tail.end()].count("\n") - new.count("\n"))
        log.append("R60 line %d: `(0..%s).map(|_| ..).collect()` -> counted loop pushing the closure value into a new `%s`" % (base_line + text.count("\n", 0, m.start()), n, ty))
        text = text[:m.start()] + new + text[k + tail.end():]


def r36_extend(text, base_line=0):
    """R36: `X.extend(Y);` (Y a reference to a Vec of `Copy` elements) -> `for __e in 0..Y.len() { X.push(Y[__e]); }`"""
    log = []
    pat = re.compile(r"(\w+)\.extend\((\w+)\);")
    for m in pat.finditer(text):
        log.append("R36 line %d: `%s` -> push loop" % (base_line + text.count("\n", 0, m.start()), m.group(0)))
    return pat.sub(lambda m: "for __e in 0..%s.len() { %s.push(%s[__e]); }" % (m.group(2), m.group(1), m.group(2)), text), log


def r37_for_in_ref(text, base_line=0):
    """R37: `for X in Y {` (Y an identifier bound to a reference to a Vec) -> `for __jN in 0..Y.len() { let X = &Y[__jN];`"""
    log = []
    pat = re.compile(r"for\s+(\w+)\s+in\s+(\w+)\s*\{")
    n = 0
    while True:
        m = pat.search(text)
        if not m:
            return text, log
        n += 1
        x, y = m.groups()
        new = "for __j%d in 0..%s.len() { let %s = &%s[__j%d];" % (n, y, x, y, n)
        log.append("R37 line %d: `%s` -> `%s`" % (base_line + text.count("\n", 0, m.start()), m.group(0), new))
        text = text[:m.start()] + new + text[m.end():]


def r38_flat_map3(text, base_line=0):
    """R38: `D.iter().flat_map(|A| A.iter().flat_map(|B| B.iter().cloned())).collect()` -> block with three nested index loops pushing `B[k]`"""
    log = []
    pat = re.compile(r"(\w+)\s*\.iter\(\)\s*\.flat_map\(\|(\w+)\|\s*\2\.iter\(\)\.flat_map\(\|(\w+)\|\s*\3\.iter\(\)\.cloned\(\)\)\)\s*\.collect\(\)")
    m = pat.search(text)
    if not m:
        return text, log
    d, a, b = m.groups()
    new = ("{ let mut __f: Vec<f32> = Vec::new(); for __a in 0..%s.len() { let %s = &%s[__a]; for __b in 0..%s.len() { let %s = &%s[__b]; for __c in 0..%s.len() { __f.push(%s[__c]); } } } __f }"
           % (d, a, d, a, b, a, b, b)) + "\n" * m.group(0).count("\n")
    log.append("R38 line %d: `%s.iter().flat_map(|%s| %s.iter().flat_map(|%s| %s.iter().cloned())).collect()` -> three nested index loops pushing each element in order"
               % (base_line + text.count("\n", 0, m.start()), d, a, a, b, b))
    return text[:m.start()] + new + text[m.end():], log


def r39_unflatten(text, base_line=0):
    """R39: `let mut iter = SRC.into_iter(); ... (0..A).map(|_| { (0..B).map(|_| { (0..C).map(|_| [*]iter.next().unwrap()).collect() }).collect() }).collect()`
    -> `let __src = SRC; let mut __it: usize = 0; ... { three nested loops pushing __src[__it], __it += 1 }` (an exhausted iterator and an index out of
    range both panic)"""
    log = []
    pat_it = re.compile(r"let\s+mut\s+iter\s*=\s*([\w\.\(\)]+?)\.into_iter\(\);")
    pat_nest = re.compile(r"\(0\.\.(\*?\w+)\)\s*\.map\(\|_\|\s*\{?\s*\(0\.\.(\*?\w+)\)\s*\.map\(\|_\|\s*\{?\s*\(0\.\.(\*?\w+)\)\.map\(\|_\|\s*\*?iter\.next\(\)\.unwrap\(\)\)\.collect\(\)\s*\}?\s*\)\s*\.collect\(\)\s*\}?\s*\)\s*\.collect\(\)")
    while True:
        mi = pat_it.search(text)
        if not mi:
            return text, log
        mn = pat_nest.search(text, mi.end())
        if not mn:
            raise LostAnchor("R39: no nested range map follows `let mut iter = ...into_iter();`")
        a, b, c = mn.groups()
        nest = ("{ let mut __o3: Vec<Vec<Vec<f32>>> = Vec::new(); for __p in 0..%s { let mut __o2: Vec<Vec<f32>> = Vec::new(); for __q in 0..%s { let mut __o1: Vec<f32> = Vec::new(); for __r in 0..%s "
                "{ __o1.push(__src[__it]); __it = __it + 1; } __o2.push(__o1); } __o3.push(__o2); } __o3 }" % (a, b, c)) + "\n" * mn.group(0).count("\n")
        head = "let __src = %s; let mut __it: usize = 0;" % mi.group(1)
        log.append("R39 line %d: stateful `iter.next().unwrap()` inside three nested `(0..n).map(|_| ..).collect()` -> nested loops reading `__src[__it]` with a running index"
                   % (base_line + text.count("\n", 0, mi.start())))
        text = text[:mi.start()] + head + text[mi.end():mn.start()] + nest + text[mn.end():]


def r42_assert_eq(text, base_line=0):
    """R42: `assert_eq!(A, B, "msg");` -> `if !(A == B) { panic!("msg") }` (then R13)"""
    log = []
    pat = re.compile(r"assert_eq!\(")
    while True:
        m = pat.search(text)
        if not m:
            return text, log
        close = _balanced(text, m.end() - 1)
        inner = text[m.end():close - 1]
        # split at top-level commas
        parts, depth, cur = [], 0, ""
        for ch in inner:
            if ch in "([{":
                depth += 1
            elif ch in ")]}":
                depth -= 1
            if ch == "," and depth == 0:
                parts.append(cur)
                cur = ""
            else:
                cur += ch
        if cur.strip():
            parts.append(cur)
        if len(parts) < 2:
            raise LostAnchor("R42: assert_eq! with fewer than two arguments")
        a, b = " ".join(parts[0].split()), " ".join(parts[1].split())
        semi = re.match(r"\s*;", text[close:])
        end = close + (semi.end() if semi else 0)
        new = "if !(%s == %s) { panic!(\"assert_eq\") }" % (a, b) + "\n" * text[m.start():end].count("\n")
        log.append("R42 line %d: `assert_eq!(%s, %s, ..)` -> `if !(%s == %s) { panic!(..) }`" % (base_line + text.count("\n", 0, m.start()), a, b, a, b))
        text = text[:m.start()] + new + text[end:]


def r43_mut_self(text, base_line=0):
    """R43: a `mut self` receiver (unsupported by this Verus) -> the wrapper takes `self` and binds `let mut this = self;`; every `self` in the body -> `this`"""
    log = ["R43: receiver `mut self` -> `self` + `let mut this = self;`, `self` renamed to `this` in the body (%d occurrences)" % len(re.findall(r"\bself\b", text))]
    return re.sub(r"\bself\b", "this", text), log


def r44_name_tail_call(text, base_line=0):
    """R44: a tail expression `RECV.flatten()` on a line of its own -> `{ let __r4 = RECV.flatten(); __r4 }` (names the value so that ghost code can mention it)"""
    log = []
    pat = re.compile(r"^(\s*)(\w+)\.flatten\(\)\s*$", re.M)
    for m in pat.finditer(text):
        log.append("R44 line %d: `%s.flatten()` -> `{ let __r4 = %s.flatten(); __r4 }`" % (base_line + text.count("\n", 0, m.start()), m.group(2), m.group(2)))
    return pat.sub(lambda m: "%s{ let __r4 = %s.flatten(); __r4 }" % (m.group(1), m.group(2)), text), log


def r45_min_method(text, base_line=0):
    """R45: `(E).min(F)` on `usize` -> `usize_min(E, F)` (Verus cannot specify the provided trait method `Ord::min`)"""
    log = []
    pos = 0
    while True:
        k = text.find(").min(", pos)
        if k < 0:
            return text, log
        # find the `(` matching the `)` at k
        depth, j = 0, k
        while j >= 0:
            if text[j] == ")":
                depth += 1
            elif text[j] == "(":
                depth -= 1
                if depth == 0:
                    break
            j -= 1
        if j < 0 or (j > 0 and (text[j - 1].isalnum() or text[j - 1] == "_")):
            pos = k + 1
            continue
        close = _balanced(text, k + 5)
        e, f = text[j + 1:k], text[k + 6:close - 1]
        new = "usize_min(%s, %s)" % (e, f)
        log.append("R45 line %d: `(%s).min(%s)` -> `%s`" % (base_line + text.count("\n", 0, j), " ".join(e.split())[:60], " ".join(f.split()), " ".join(new.split())[:90]))
        text = text[:j] + new + text[close:]
        pos = j + 5


def r46_f32_as_usize(text, base_line=0):
    """R46: `CALL(..) as usize` where the call returns f32 (here: `self.generate(..)`) -> opaque `f32_as_usize(CALL(..))` (Rust's saturating float-to-int cast)"""
    log = []
    pat = re.compile(r"(self\.generate\()")
    pos = 0
    while True:
        m = pat.search(text, pos)
        if not m:
            return text, log
        close = _balanced(text, m.end() - 1)
        tail = re.match(r"\s+as\s+usize\b", text[close:])
        if not tail:
            pos = m.end()
            continue
        call = text[m.start():close]
        new = "f32_as_usize(%s)" % call
        log.append("R46 line %d: `%s as usize` -> `%s`" % (base_line + text.count("\n", 0, m.start()), call, new))
        text = text[:m.start()] + new + text[close + tail.end():]
        pos = m.start() + 14


def r47_zip_mut_enumerate(text, base_line=0):
    """R47: `for (F, (A, B)) in X.iter_mut().zip(Y.iter_mut()).enumerate() { BODY }` (Y an expression producing a temporary Vec) ->
    `{ let mut __zy = Y; let mut __f = 0; while __f < X.len() && __f < __zy.len() { let F = __f; let A = &mut X[F]; let B = &mut __zy[F]; BODY __f += 1; } }`"""
    log = []
    pat = re.compile(r"for\s*\(\s*(\w+)\s*,\s*\(\s*(\w+)\s*,\s*(\w+)\s*\)\s*\)\s*in\s*([\w\.\s]+?)\s*\.iter_mut\(\)\s*\.zip\(")
    while True:
        m = pat.search(text)
        if not m:
            return text, log
        f, a, b, x = m.groups()
        x = "".join(x.split())
        zc = _balanced(text, m.end() - 1)                      # closes `.zip(`
        y = text[m.end():zc - 1].strip()
        if not y.endswith(".iter_mut()"):
            raise LostAnchor("R47: the zipped operand is not `<expr>.iter_mut()`")
        y = y[:-len(".iter_mut()")]
        tail = re.match(r"\s*\.enumerate\(\)\s*\{", text[zc:])
        if not tail:
            raise LostAnchor("R47: `.enumerate() {` does not follow the zip")
        bo = zc + tail.end() - 1
        bc = _balanced(text, bo)
        nl = text[m.start():bo].count("\n")
        head = ("{ let mut __zy = %s; let mut __f: usize = 0; while __f < %s.len() && __f < __zy.len() { let %s = __f; let %s = &mut %s[%s]; let %s = &mut __zy[%s];"
                % (" ".join(y.split()), x, f, a, x, f, b, f)) + "\n" * nl
        log.append("R47 line %d: `for (%s, (%s, %s)) in %s.iter_mut().zip(%s.iter_mut()).enumerate() {` -> index loop over min(len) with `&mut` borrows of both sides (the right side bound to a local first)"
                   % (base_line + text.count("\n", 0, m.start()), f, a, b, x, " ".join(y.split())))
        text = text[:m.start()] + head + text[bo + 1:bc - 1] + " __f = __f + 1; } }" + text[bc:]


def r48_fold_max(text, base_line=0):
    """R48: `E.iter().cloned().fold(INIT, f32::max)` -> `{ let mut __m = INIT; for __t in 0..E.len() { __m = f32::max(__m, E[__t]); } __m }`"""
    log = []
    pat = re.compile(r"(\w+)\.iter\(\)\.cloned\(\)\.fold\(([^,]+),\s*f32::max\)")
    for m in pat.finditer(text):
        log.append("R48 line %d: `%s` -> left fold written as an index loop" % (base_line + text.count("\n", 0, m.start()), m.group(0)))
    return pat.sub(lambda m: "{ let mut __m = %s; for __t in 0..%s.len() { __m = f32::max(__m, %s[__t]); } __m }" % (m.group(2).strip(), m.group(1), m.group(1)), text), log


def r49_chunks_exact_view(text, base_line=0):
    """R49: `V.chunks_exact(A).map(|P| P.chunks_exact(B).map(|Q| Q.to_vec()).collect()).collect()` -> block with three nested index loops:
    `V.len() / A` channels, `A / B` rows of `B` elements, element `V[p*A + q*B + r]` (what chunks_exact yields, in order; a zero chunk size panics / divides by zero)"""
    log = []
    pat = re.compile(r"(\w+)\s*\.chunks_exact\(([^()]+)\)\s*\.map\(\|(\w+)\|\s*\3\.chunks_exact\(([^()]+)\)\.map\(\|(\w+)\|\s*\5\.to_vec\(\)\)\.collect\(\)\)\s*\.collect\(\)")
    while True:
        m = pat.search(text)
        if not m:
            return text, log
        v, a, _, b, _ = m.groups()
        a, b = a.strip(), b.strip()
        new = ("{ let __ca: usize = %s; let __cb: usize = %s; let __cn: usize = %s.len() / __ca; let __rn: usize = __ca / __cb; let mut __o3: Vec<Vec<Vec<f32>>> = Vec::new(); "
               "for __p in 0..__cn { let mut __o2: Vec<Vec<f32>> = Vec::new(); for __q in 0..__rn { let mut __o1: Vec<f32> = Vec::new(); for __r in 0..__cb "
               "{ __o1.push(%s[__p * __ca + __q * __cb + __r]); } __o2.push(__o1); } __o3.push(__o2); } __o3 }" % (a, b, v, v)) + "\n" * m.group(0).count("\n")
        log.append("R49 line %d: `%s.chunks_exact(%s).map(|c| c.chunks_exact(%s).map(|r| r.to_vec()).collect()).collect()` -> three nested index loops reading `%s[p*A + q*B + r]`"
                   % (base_line + text.count("\n", 0, m.start()), v, a, b, v))
        text = text[:m.start()] + new + text[m.end():]


def r50_inner_map_collect(text, base_line=0):
    """R50: expression `E.iter().map(|x| F).collect()` producing a Vec<f32> (not in a `let`) -> `{ let mut __c: Vec<f32> = Vec::new(); for __j in 0..E.len() { let x = &E[__j]; __c.push(F); } __c }`"""
    log = []
    pat = re.compile(r"(?<![\w\)])(\w+)\.iter\(\)\.map\(\|(\w+)\|\s*")
    pos = 0
    while True:
        m = pat.search(text, pos)
        if not m:
            return text, log
        e, x = m.groups()
        k, depth = m.end(), 0
        while k < len(text):
            ch = text[k]
            if ch in "([{":
                depth += 1
            elif ch in ")]}":
                if depth == 0:
                    break
                depth -= 1
            k += 1
        tail = re.match(r"\)\.collect\(\)(?!;)", text[k:])
        pre = text[max(0, m.start() - 40):m.start()]
        if not tail or re.search(r"=\s*$", pre):
            pos = m.end()
            continue
        f = text[m.end():k].strip()
        new = "{ let mut __c: Vec<f32> = Vec::new(); for __j in 0..%s.len() { let %s = &%s[__j]; __c.push(%s); } __c }" % (e, x, e, f)
        log.append("R50 line %d: `%s.iter().map(|%s| %s).collect()` -> index loop pushing the closure value" % (base_line + text.count("\n", 0, m.start()), e, x, f))
        text = text[:m.start()] + new + text[k + tail.end():]
        pos = m.start() + 10


def r51_last_mut(text, base_line=0):
    """R51: `&mut E.last_mut().unwrap()` / `E.last_mut().unwrap()` -> `({ let __li = E.len() - 1; &mut E[__li] })` (panics on an empty Vec either way)"""
    log = []
    pat = re.compile(r"(?:&mut\s+)?((?:self\.)?[\w\.]+?)\.last_mut\(\)\.unwrap\(\)")
    for m in pat.finditer(text):
        log.append("R51 line %d: `%s` -> `(&mut %s[%s.len() - 1])`" % (base_line + text.count("\n", 0, m.start()), m.group(0), m.group(1), m.group(1)))
    return pat.sub(lambda m: "({ let __li = %s.len() - 1; &mut %s[__li] })" % (m.group(1), m.group(1)), text), log


def r52_extend_clone(text, base_line=0):
    """R52: `X.extend(E.clone());` (E a Vec: its clone is consumed element by element, in order) -> `{ let mut __ext = E.clone(); X.append(&mut __ext); }`"""
    log = []
    pat = re.compile(r"(\w+)\.extend\((\w+)\.clone\(\)\);")
    for m in pat.finditer(text):
        log.append("R52 line %d: `%s` -> `{ let mut __ext = %s.clone(); %s.append(&mut __ext); }`" % (base_line + text.count("\n", 0, m.start()), m.group(0), m.group(2), m.group(1)))
    return pat.sub(lambda m: "{ let mut __ext = %s.clone(); %s.append(&mut __ext); }" % (m.group(2), m.group(1)), text), log


def r53_flat_zip_map_sum(text, base_line=0):
    """R53: `A.get_flat().iter().zip(B.get_flat().iter()).map(|(a, b)| BODY).sum::<f32>()` -> `({ let __xa = A.get_flat(); let __xb = B.get_flat();
    let mut __m: Vec<f32> = Vec::new(); for __q in 0..min(__xa.len(), __xb.len()) { let (a, b) = (&__xa[__q], &__xb[__q]); __m.push(BODY); } f32_sum(&__m) })`"""
    log = []
    pat = re.compile(r"(\w+)\s*\.get_flat\(\)\s*\.iter\(\)\s*\.zip\((\w+)\.get_flat\(\)\.iter\(\)\)\s*\.map\(\s*\|\((\w+),\s*(\w+)\)\|\s*")
    while True:
        m = pat.search(text)
        if not m:
            return text, log
        x, y, a, b = m.groups()
        k, depth = m.end(), 0
        while k < len(text):
            ch = text[k]
            if ch in "([{":
                depth += 1
            elif ch in ")]}":
                if depth == 0:
                    break
                depth -= 1
            k += 1
        tail = re.match(r"\)\s*\.sum::<f32>\(\)", text[k:])
        if not tail:
            raise LostAnchor("R53: `.sum::<f32>()` does not follow the mapped closure")
        body = text[m.end():k].rstrip().rstrip(",").rstrip()
        new = ("({ let __xa = %s.get_flat(); let __xb = %s.get_flat(); let mut __m: Vec<f32> = Vec::new(); "
               "for __q in 0..(if __xa.len() < __xb.len() { __xa.len() } else { __xb.len() }) { let (%s, %s) = (&__xa[__q], &__xb[__q]); __m.push(" % (x, y, a, b)) + body + "); } f32_sum(&__m) })"
        new += "\n" * max(0, text[m.start():k + tail.end()].count("\n") - new.count("\n"))
        log.append("R53 line %d: `%s.get_flat().iter().zip(%s.get_flat().iter()).map(|(%s, %s)| ..).sum::<f32>()` -> the two flat vectors bound to locals, index loop collecting the closure values, opaque in-order sum"
                   % (base_line + text.count("\n", 0, m.start()), x, y, a, b))
        text = text[:m.start()] + new + text[k + tail.end():]


def r54_zip_map_collect(text, base_line=0):
    """R54: `X.iter().zip(Y.iter()).map(|(a, b)| BODY).collect::<T>()` (nested: innermost first) -> `({ let mut __m_a: T = Vec::new();
    for __q_a in 0..min(X.len(), Y.len()) { let (a, b) = (&X[__q_a], &Y[__q_a]); __m_a.push(BODY); } __m_a })`"""
    log = []
    pat = re.compile(r"(\w+)\s*\.iter\(\)\s*\.zip\((\w+)\.iter\(\)\)\s*\.map\(\s*\|\((\w+),\s*(\w+)\)\|\s*")
    while True:
        ms = list(pat.finditer(text))
        if not ms:
            return text, log
        m = ms[-1]
        x, y, a, b = m.groups()
        k, depth = m.end(), 0
        while k < len(text):
            ch = text[k]
            if ch in "([{":
                depth += 1
            elif ch in ")]}":
                if depth == 0:
                    break
                depth -= 1
            k += 1
        tail = re.match(r"\)\s*\.collect(?:::<([^;()]*?)>)?\(\)", text[k:])
        if not tail:
            raise LostAnchor("R54: `.collect()` does not follow the mapped closure")
        body = text[m.end():k].rstrip().rstrip(",").rstrip()
        ty = tail.group(1)
        if ty is None:      # no turbofish: nesting depth counted from the innermost, f32 leaf (static information only; rustc rejects a wrong annotation)
            dd = 1 + max([x.count("Vec<") for x in re.findall(r"let mut __m_\w+: ((?:Vec<)+)f32", body)] or [0])
            ty = "Vec<" * dd + "f32" + ">" * dd
        new = ("({ let mut __m_%s: %s = Vec::new(); for __q_%s in 0..(if %s.len() < %s.len() { %s.len() } else { %s.len() }) { let (%s, %s) = (&%s[__q_%s], &%s[__q_%s]); __m_%s.push("
               % (a, ty, a, x, y, x, y, a, b, x, a, y, a, a)) + body + "); } __m_%s })" % a
        new += "\n" * max(0, text[m.start():k + tail.end()].count("\n") - new.count("\n"))
        log.append("R54 line %d: `%s.iter().zip(%s.iter()).map(|(%s, %s)| ..).collect::<%s>()` -> index loop over the shorter length pushing the closure value into a new vector"
                   % (base_line + text.count("\n", 0, m.start()), x, y, a, b, ty))
        text = text[:m.start()] + new + text[k + tail.end():]


def r21_to_owned(text, base_line=0):
    """R21: `.to_owned()` -> `.clone()` (identical for a `Clone` type; vstd specifies `Clone`)"""
    log = []
    for m in re.finditer(r"\.to_owned\(\)", text):
        log.append("R21 line %d: `.to_owned()` -> `.clone()`" % (base_line + text.count("\n", 0, m.start())))
    return text.replace(".to_owned()", ".clone()"), log


def r11_deref_ref_operand(text, base_line=0):
    """R11: explicit copies for `&f32` closure parameters are NOT inserted here; kept as placeholder"""
    return text, []


REWRITES = {
    "R1": r1_compound_assign, "R2": r2_unary_minus, "R3": r3_scale_call, "R6": r6_for_with_continue,
    "R7": r7_isqrt, "R8": r8_step_by, "R9": r9_consts, "R10": r10_tail_continue,
    "R12": r12_enumerate, "R15": r15_iter, "R16": r16_map_index, "R17": r17_for_in_ref_vec, "R18": r18_assert_eq_shape,
    "R19": r19_last_unwrap, "R20": r20_range_enumerate, "R21": r21_to_owned, "R22": r22_map_collect, "R23": r23_slice_iter, "R24": r24_name_wildcard_loop, "R25": r25_par_map_collect, "R26": r26_zip_iter_mut, "R27": r27_sum_f32, "R28": r28_as_f32, "R29": r29_consuming_for, "R30": r30_rev_take_collect, "R31": r31_zip_map_sum, "R32": r32_chunked_zip_flat_map, "R33": r33_unzip, "R34": r34_chunked_flat_map, "R35": r35_chunk_const, "R36": r36_extend, "R37": r37_for_in_ref, "R38": r38_flat_map3, "R39": r39_unflatten, "R42": r42_assert_eq, "R43": r43_mut_self, "R44": r44_name_tail_call, "R45": r45_min_method, "R47": r47_zip_mut_enumerate, "R48": r48_fold_max, "R49": r49_chunks_exact_view, "R50": r50_inner_map_collect, "R51": r51_last_mut, "R52": r52_extend_clone, "R53": r53_flat_zip_map_sum, "R54": r54_zip_map_collect, "R55": r55_len_as_f32, "R56": r56_extend_map, "R57": r57_iter_mut_for_each_while, "R58": r58_zip_mut_for_each_while, "R59": r59_assert_eq_shape, "R60": r60_range_map_collect, "R46": r46_f32_as_usize, "R40": r40_for_mut_ref, "R41": r41_iter_mut_for_each, "R13": r13_panic_allowed, "R14": r14_panic_forbidden,
}
ORDER = ["R42", "R43", "R44", "R28", "R46", "R45", "R47", "R48", "R49", "R18", "R13", "R14", "R16", "R55", "R53", "R54", "R56", "R50", "R51", "R52", "R40", "R60", "R59", "R58", "R57", "R41", "R38", "R39", "R36", "R37", "R31", "R32", "R34", "R35", "R33", "R25", "R26", "R29", "R30", "R27", "R20", "R22", "R23", "R24", "R12", "R15", "R17", "R19", "R21", "R10", "R8", "R6", "R9", "R7", "R3", "R1", "R2"]


def apply_rewrites(text, names, base_line):
    log = []
    for r in ORDER:
        if r in names:
            text, lg = REWRITES[r](text, base_line)
            log += lg
    return text, log


# --------------------------------------------------------------------------------------------
# extraction of a unit's body text

def extract_part(repo, spec):
    """spec: dict with file, impl (opt), fn, part, and optional params / expect.
    Returns (text, first_source_line, description)."""
    path = os.path.join(repo, spec["file"])
    if not os.path.exists(path):
        raise LostAnchor("file %s missing" % spec["file"])
    try:
        S = load(path)
    except LexError as e:
        raise LostAnchor("cannot tokenize %s: %s" % (spec["file"], e))
    kw, bo, be = find_fn(S, spec.get("impl"), spec["fn"])
    t = S.toks
    part = spec.get("part", "whole")
    if part == "whole":
        s, e = t[bo].end, t[be].start
        return S.src[s:e], S.line_of(s), "%s: body of %s::%s" % (spec["file"], spec.get("impl", ""), spec["fn"])
    if part == "sig":
        s, e = t[kw].start, t[bo].start
        return S.src[s:e], S.line_of(s), "signature"
    if part.startswith("closure:"):
        n = int(part.split(":")[1])
        cl = find_closures(S, bo, be)
        if n < 1 or n > len(cl):
            raise LostAnchor("%s::%s has %d closures, unit wants #%d" % (spec.get("impl", ""), spec["fn"], len(cl), n))
        c = cl[n - 1]
        if "params" in spec and norm_ws(spec["params"]) != norm_ws(c["params"]):
            raise LostAnchor("closure #%d of %s::%s has parameters `%s`, unit expects `%s`"
                             % (n, spec.get("impl", ""), spec["fn"], c["params"], spec["params"]))
        txt = S.src[c["start"]:c["end"]]
        return txt, S.line_of(c["start"]), "%s: body of closure #%d |%s| in %s::%s" % (
            spec["file"], n, c["params"], spec.get("impl", ""), spec["fn"])
    if part.startswith("region:"):
        # region:/re_first/../re_last/   -- line-anchored inside the function body, inclusive;
        # the last line's statement is extended to the end of its balanced construct.
        m = re.fullmatch(r"region:/(.+?)/\.\./(.+?)/(?:#(\d+))?", part)
        if not m:
            raise LostAnchor("bad region spec %s" % part)
        re1, re2 = re.compile(m.group(1)), re.compile(m.group(2))
        occ = int(m.group(3) or 1)
        fs, fe = t[bo].end, t[be].start
        body = S.src[fs:fe]
        lines = body.split("\n")
        offs, pos = [], fs
        for ln in lines:
            offs.append(pos)
            pos += len(ln) + 1
        first = [i for i, ln in enumerate(lines) if re1.search(ln)]
        if len(first) < occ:
            raise LostAnchor("region start /%s/ (#%d) not found in %s::%s" % (m.group(1), occ, spec.get("impl", ""), spec["fn"]))
        i0 = first[occ - 1]
        i1 = None
        for i in range(i0, len(lines)):
            if re2.search(lines[i]):
                i1 = i
                break
        if i1 is None:
            raise LostAnchor("region end /%s/ not found in %s::%s" % (m.group(2), spec.get("impl", ""), spec["fn"]))
        s = offs[i0]
        e = offs[i1] + len(lines[i1])
        # extend e so that brackets opened inside [s, e) are closed
        toks_in = [k for k in range(bo, be + 1) if t[k].start >= s and t[k].end <= e]
        need = e
        for k in toks_in:
            if t[k].kind == "punct" and t[k].text in ("(", "[", "{"):
                c = S.match[k]
                if t[c].end > need:
                    need = t[c].end
        if need > e:
            # include up to end of that line (e.g. trailing `;`)
            nl = S.src.find("\n", need)
            e = nl if nl >= 0 else need
        return S.src[s:e], S.line_of(s), "%s: lines %d-%d of %s::%s" % (
            spec["file"], S.line_of(s), S.line_of(e), spec.get("impl", ""), spec["fn"])
    raise LostAnchor("unknown part %s" % part)


def region_span(text, re1, re2, occ=1):
    """(start, end) offsets in `text` of the line-anchored region /re1/../re2/ (inclusive), the end extended so that every
    bracket opened inside is closed (plus the rest of that line)."""
    rx1, rx2 = re.compile(re1), re.compile(re2)
    lines = text.split("\n")
    offs, pos = [], 0
    for ln in lines:
        offs.append(pos)
        pos += len(ln) + 1
    first = [i for i, ln in enumerate(lines) if rx1.search(ln)]
    if len(first) < occ:
        raise LostAnchor("region start /%s/ (#%d) not found" % (re1, occ))
    i0 = first[occ - 1]
    i1 = next((i for i in range(i0, len(lines)) if rx2.search(lines[i])), None)
    if i1 is None:
        raise LostAnchor("region end /%s/ not found" % re2)
    s, e = offs[i0], offs[i1] + len(lines[i1])
    toks = tokenize(text)
    match = match_brackets(toks)
    need = e
    for k, t in enumerate(toks):
        if t.start >= s and t.end <= e and t.kind == "punct" and t.text in ("(", "[", "{"):
            c = match[k]
            if toks[c].end > need:
                need = toks[c].end
    if need > e:
        nl = text.find("\n", need)
        e = nl if nl >= 0 else need
    return s, e


# --------------------------------------------------------------------------------------------
# template expansion

def parse_kv(s):
    out = {}
    for m in re.finditer(r'(\w+)=("([^"]*)"|\S+)', s):
        out[m.group(1)] = m.group(3) if m.group(3) is not None else m.group(2)
    return out


class Generated:
    def __init__(self):
        self.lines = []          # generated lines
        self.unit_of = []        # per line: unit id or None
        self.src_of = []         # per line: (file, line) or None
        self.label_of = []       # per line: obligation label or None
        self.units = {}          # id -> dict(props, fn, drops, clauses, desc)
        self.drops = []

    def add(self, text, unit=None, src=None):
        k = 0
        for ln in text.split("\n"):
            woven = ln.startswith(WOVEN)
            if woven:
                ln = ln[len(WOVEN):]
            lab = None
            m = re.search(r"//@ob\s+(\S+)", ln)
            if m:
                lab = m.group(1)
            self.lines.append(ln)
            self.unit_of.append(unit)
            self.src_of.append((src[0], src[1] + k) if (src and not woven) else None)
            self.label_of.append(lab)
            if not woven:
                k += 1

    def text(self):
        return "\n".join(self.lines) + "\n"


WOVEN = "\x01"   # marks a generated line that does not correspond to a source line


def weave_loops(text, loop_inv, unit_id, expect_loops):
    """insert invariant text after the n-th loop header (before its `{`), n counted in source order
    on the rewritten text."""
    toks, match = _retok(text)
    loops = _loops(toks, match)
    if expect_loops is not None and len(loops) != expect_loops:
        raise LostAnchor("unit %s: extracted text has %d loops, unit file says %d" % (unit_id, len(loops), expect_loops))
    edits = []
    for n, inv in loop_inv.items():
        if n < 1 or n > len(loops):
            raise LostAnchor("unit %s: invariant for loop %d but only %d loops" % (unit_id, n, len(loops)))
        kw, bo = loops[n - 1]
        lines = []
        for l in inv.rstrip().split("\n"):
            if l.strip().endswith(",") and "//@ob" not in l:
                l = l + " //@ob loop%d.invariant" % n
            lines.append(WOVEN + l)
        edits.append((toks[bo].start, toks[bo].start, "\n" + "\n".join(lines) + "\n" + WOVEN))
    return _apply_edits(text, edits)


def generate(template_path, repo, canary=False, contracts_dir=None, exclude=None):
    """exclude: dict unit_id -> extra `requires` text (used for known findings: !excluded_when)."""
    contracts_dir = contracts_dir or os.path.dirname(template_path)
    with open(template_path) as f:
        tl = f.read().split("\n")
    G = Generated()
    defs = {}
    i = 0
    unit = None

    def subst(s, env=None):
        """`${X}` expands the //@def X; `${X:A=u,B=v}` expands it with `${A}` / `${B}` inside replaced by u / v"""
        env = env or {}

        def rep(m):
            name, args = m.group(1), m.group(2)
            if name in env and args is None:
                return env[name]
            if name not in defs:
                raise LostAnchor("template %s: undefined macro %s" % (template_path, name))
            e2 = dict(env)
            if args:
                for kv in args.split(","):
                    k, v = kv.split("=", 1)
                    e2[k.strip()] = subst(v.strip(), env)
            return subst(defs[name], e2)
        return re.sub(r"\$\{(\w+)(?::([^}]*))?\}", rep, s)

    while i < len(tl):
        ln = tl[i]
        s = ln.strip()
        if s.startswith("//@include "):
            with open(os.path.join(contracts_dir, s.split()[1])) as f:
                G.add(f.read().rstrip("\n"))
            i += 1
            continue
        if s.startswith("//@def "):
            name = s.split()[1]
            j = i + 1
            buf = []
            while tl[j].strip() != "//@end":
                buf.append(tl[j])
                j += 1
            defs[name] = "\n".join(buf)
            i = j + 1
            continue
        if s.startswith("//@unit "):
            parts = s.split(None, 2)
            unit = parts[1]
            kv = parse_kv(parts[2] if len(parts) > 2 else "")
            G.units[unit] = dict(props=kv.get("prop", "").split(","), search=kv.get("search"), drops=[], desc=[], fn=None, clauses=0,
                                 start_line=len(G.lines) + 1)
            i += 1
            continue
        if s == "//@endunit":
            G.units[unit]["end_line"] = len(G.lines)
            unit = None
            i += 1
            continue
        if s.startswith("//@requires-extra") and unit:
            if exclude and unit in exclude:
                G.add(exclude[unit], unit)
            i += 1
            continue
        if s == "//@canary":
            if canary:
                G.add("assert(false); // CANARY", unit)
            i += 1
            continue
        if s.startswith("//@body "):
            spec = parse_kv(s[len("//@body "):])
            loop_inv, inserts, skips, outlines, types, assumed, inlines, unreach = {}, [], [], [], [], [], [], []
            j = i + 1
            while tl[j].strip() != "//@endbody":
                d = tl[j].strip()
                if d.startswith("//@loop "):
                    n = int(d.split()[1])
                    k = j + 1
                    buf = []
                    while tl[k].strip() != "//@end":
                        buf.append(tl[k])
                        k += 1
                    loop_inv[n] = subst("\n".join(buf))
                    j = k + 1
                    continue
                m = re.match(r'//@assume-region\s+/(.+?)/\.\./(.+?)/\s*(?:#(\d+))?\s+call="(.*?)"\s+why="(.*)"$', d)
                if m:
                    assumed.append((m.group(1), m.group(2), int(m.group(3) or 1), m.group(4), m.group(5)))
                    j += 1
                    continue
                m = re.match(r"//@unreachable-block\s+/(.+)/\s*(?:#(\d+))?$", d)
                if m:
                    unreach.append((m.group(1), int(m.group(2) or 1)))
                    j += 1
                    continue
                m = re.match(r"//@type\s+(\w+)(?:#(\d+))?\s*=\s*(.+)$", d)
                if m:
                    types.append((m.group(1), m.group(3).strip(), int(m.group(2) or 0)))
                    j += 1
                    continue
                m = re.match(r'//@outline\s+unit=(\S+)\s+call="(.*)"$', d)
                if m:
                    outlines.append((m.group(1), m.group(2)))
                    j += 1
                    continue
                m = re.match(r"//@skip\s+/(.+?)/\.\./(.+?)/\s*(?:#(\d+))?$", d)
                if m:
                    skips.append((m.group(1), m.group(2), int(m.group(3) or 1)))
                    j += 1
                    continue
                m = re.match(r"//@(inline-after)\s+/(.+)/\s*(?:#(\d+))?$", d)
                if m:
                    k = j + 1
                    buf = []
                    while tl[k].strip() != "//@end":
                        buf.append(tl[k].strip())
                        k += 1
                    inlines.append((re.compile(m.group(2)), int(m.group(3) or 1), subst(" ".join(buf))))
                    j = k + 1
                    continue
                m = re.match(r"//@(before|after)\s+/(.+)/\s*(?:#(\d+))?$", d)
                if m:
                    k = j + 1
                    buf = []
                    while tl[k].strip() != "//@end":
                        buf.append(tl[k])
                        k += 1
                    inserts.append((m.group(1), re.compile(m.group(2)), int(m.group(3) or 1), subst("\n".join(buf))))
                    j = k + 1
                    continue
                if d == "" or d.startswith("// "):
                    j += 1
                    continue
                raise LostAnchor("template %s line %d: unexpected `%s` inside //@body" % (template_path, j + 1, d))
            text, first_line, desc = extract_part(repo, spec)
            if spec.get("part", "whole") == "whole":
                # fingerprint: the wrapper's parameter list must be the real function's parameter list
                real_sig, _, _ = extract_part(repo, dict(spec, part="sig"))
                mine = None
                for back in range(len(G.lines) - 1, -1, -1):
                    if G.unit_of[back] != unit:
                        break
                    if re.search(r"\bfn\s+\w+\s*\(", G.lines[back]):
                        mine = "\n".join(G.lines[back:])
                        break

                def plist(t):
                    m = re.search(r"\bfn\s+\w+\s*\(", t)
                    if not m:
                        return None
                    depth, k = 1, m.end()
                    while k < len(t) and depth:
                        depth += t[k] in "([{"
                        depth -= t[k] in ")]}"
                        k += 1
                    return norm_ws(t[m.end():k - 1]).rstrip(",")
                real_pl = plist(real_sig)
                if "R43" in spec.get("rewrites", "") and real_pl is not None:
                    real_pl = re.sub(r"^mut\s*self", "self", real_pl)      # R43: `mut self` is taken as `self`, rebound in the body
                if mine is None or plist(mine) != real_pl:
                    raise LostAnchor("unit %s: parameter list of %s::%s changed: `%s` vs wrapper `%s`" % (
                        unit, spec.get("impl", ""), spec["fn"], plist(real_sig), plist(mine) if mine else None))
            G.units[unit]["part"] = spec.get("part", "whole")
            G.units[unit]["raw"] = text
            G.units[unit]["src"] = (spec["file"], spec.get("impl"), spec["fn"])
            # `//@outline unit=U call="..."`: the statement region that unit U verifies as a function of its own (same file, same
            # function, same region expression) is replaced by a CALL to that function, so this unit sees only U's contract.
            # Outlining a block into a function over the variables it mentions preserves behaviour when the block has no
            # break / continue / return (scanned) - that every free variable is a parameter is checked by rustc.
            for (ou, call) in outlines:
                if ou not in G.units or not G.units[ou].get("part", "").startswith("region:"):
                    raise LostAnchor("unit %s: outline refers to unit %s which is not a region unit defined earlier" % (unit, ou))
                if G.units[ou]["src"] != (spec["file"], spec.get("impl"), spec["fn"]):
                    raise LostAnchor("unit %s: outlined unit %s is cut from a different function" % (unit, ou))
                mm = re.match(r"region:/(.+?)/\.\./(.+?)/(?:#(\d+))?$", G.units[ou]["part"])
                s0, e0 = region_span(text, mm.group(1), mm.group(2), int(mm.group(3) or 1))
                if text[s0:e0].strip() != G.units[ou]["raw"].strip():
                    raise LostAnchor("unit %s: the region outlined for %s is not the text that unit verifies" % (unit, ou))
                code = re.sub(r"//[^\n]*", "", text[s0:e0])
                code = re.sub(r'"(?:[^"\\\\]|\\\\.)*"', '""', code)
                if re.search(r"\b(break|continue|return)\b", code):
                    raise LostAnchor("unit %s: outlined region of %s contains control flow" % (unit, ou))
                G.units[unit]["drops"].append("outline: lines %d-%d (the region verified by unit %s) replaced by a call to that unit's function `%s`"
                                              % (first_line + text.count("\n", 0, s0), first_line + text.count("\n", 0, e0), ou, call))
                text = text[:s0] + call + "\n" * text[s0:e0].count("\n") + text[e0:]
            # `//@unreachable-block /re/ [#k]`: the body of the `if .. {` block that starts on the matching line is replaced by
            # `return must_not_reject_v();` (`requires false`): Verus must PROVE that the block is never entered under the unit's
            # precondition, so what it contains does not matter for this unit
            for (r1, occ) in unreach:
                s0, e0 = region_span(text, r1, r1, occ)
                blk = text[s0:e0]
                ob = blk.index("{")
                cb = blk.rindex("}")
                G.units[unit]["drops"].append("unreachable-block: the body of `%s` (lines %d-%d) is replaced by `must_not_reject_v()`: proved unreachable under the unit's precondition"
                                              % (" ".join(blk[:ob].split())[:60], first_line + text.count("\n", 0, s0), first_line + text.count("\n", 0, e0)))
                text = text[:s0] + blk[:ob + 1] + " return must_not_reject_v(); " + "\n" * blk[ob:cb].count("\n") + blk[cb:] + text[e0:]
            # `//@assume-region /re1/../re2/ [#k] call=".." why=".."`: a statement region is replaced by a call to an `external_body`
            # function of the template whose contract is ASSUMED for that region (listed as such); same control-flow scan as //@outline
            if assumed:
                spans = sorted((region_span(text, r1, r2, occ) + (r1, call, why)) for (r1, r2, occ, call, why) in assumed)
                for (s0, e0, r1, call, why) in reversed(spans):
                    code = re.sub(r"//[^\n]*", "", text[s0:e0])
                    code = re.sub(r'"(?:[^"\\\\]|\\\\.)*"', '""', code)
                    if re.search(r"\b(break|continue|return)\b", code):
                        raise LostAnchor("unit %s: assumed region /%s/ contains control flow" % (unit, r1))
                    G.units[unit]["drops"].append("ASSUMED: lines %d-%d (starts `%s`) replaced by `%s` whose contract is assumed for this region: %s"
                                                  % (first_line + text.count("\n", 0, s0), first_line + text.count("\n", 0, e0),
                                                     " ".join(text[s0:e0].split())[:50], call, why))
                    text = text[:s0] + call + "\n" * text[s0:e0].count("\n") + text[e0:]
            # statements dropped from the unit (`//@skip /re1/../re2/ [#k]`), after a syntactic non-interference scan:
            # no break/continue/return inside, no write to a variable listed in `protect=`
            if skips:
                spans = sorted(region_span(text, r1, r2, occ) + (r1,) for (r1, r2, occ) in skips)
                protect = [v for v in spec.get("protect", "").split(",") if v]
                for (s0, e0, r1) in reversed(spans):
                    dropped = text[s0:e0]
                    code = re.sub(r"//[^\n]*", "", dropped)
                    code = re.sub(r'"(?:[^"\\\\]|\\\\.)*"', '""', code)
                    if re.search(r"\b(break|continue|return)\b", code):
                        raise LostAnchor("unit %s: skipped statement /%s/ contains control flow" % (unit, r1))
                    for v in protect:
                        if re.search(r"\b%s\b(\s*\[[^\]]*\])*\s*(\.\s*(push|add_inplace|sub_inplace|mul_inplace|mean_inplace|remove)\s*\(|=[^=]|\+=|-=)" % re.escape(v), code):
                            raise LostAnchor("unit %s: skipped statement /%s/ writes protected variable `%s`" % (unit, r1, v))
                    G.units[unit]["drops"].append("skip: lines %d-%d (starts `%s`) are NOT part of this unit; scanned: no break/continue/return, no write to {%s}"
                                                  % (first_line + text.count("\n", 0, s0), first_line + text.count("\n", 0, e0), " ".join(dropped.split())[:50], ",".join(protect)))
                    text = text[:s0] + "\n" * dropped.count("\n") + text[e0:]
            rw = [r for r in spec.get("rewrites", "").split(",") if r]
            text, log = apply_rewrites(text, rw, first_line)
            G.units[unit]["desc"].append(desc)
            G.units[unit]["drops"] += log
            # `//@type VAR = TYPE`: a type annotation on the unique `let mut VAR = Vec::new();` (static information only; rustc rejects a wrong one)
            # (`VAR#k`: the k-th of several; the numbered ones are applied last to first so that earlier positions keep their ordinal)
            for (var, ty, occ) in sorted(types, key=lambda t: -t[2]):
                pat_t = "let mut %s = Vec::" % var
                if occ:
                    hits = [h.start() for h in re.finditer(re.escape(pat_t), text)]
                    if len(hits) < occ:
                        raise LostAnchor("unit %s: `%s` #%d not found for //@type" % (unit, pat_t, occ))
                    text = text[:hits[occ - 1]] + "let mut %s: %s = Vec::" % (var, ty) + text[hits[occ - 1] + len(pat_t):]
                else:
                    if text.count(pat_t) != 1:
                        raise LostAnchor("unit %s: `%s` not found exactly once for //@type" % (unit, pat_t))
                    text = text.replace(pat_t, "let mut %s: %s = Vec::" % (var, ty))
                G.units[unit]["drops"].append("type annotation added: `let mut %s: %s`" % (var, ty))
            if spec.get("part", "whole").startswith("closure:"):
                G.units[unit]["drops"].append(
                    "R4: closure parameter pattern |%s| became wrapper parameters; the iterator adapter "
                    "chain around the closure is not part of the verified text" % spec.get("params", "?"))
            # `//@inline-after /re/ [#k]`: ghost text spliced right after the k-th match INSIDE a line (for loops that a rewrite put on one line)
            for rx, occ, ins in inlines:
                hits = list(rx.finditer(text))
                if len(hits) < occ:
                    raise LostAnchor("unit %s: inline anchor /%s/ #%d not found" % (unit, rx.pattern, occ))
                at = hits[occ - 1].end()
                text = text[:at] + " " + ins + " " + text[at:]
            if loop_inv or "loops" in spec:
                text = weave_loops(text, loop_inv, unit, int(spec["loops"]) if "loops" in spec else None)
            # line-anchored inserts
            if inserts:
                tls = text.split("\n")
                for where, rx, occ, ins in inserts:
                    hits = [k for k, l in enumerate(tls) if rx.search(l) and "//@ins" not in l]
                    if len(hits) < occ:
                        raise LostAnchor("unit %s: insert anchor /%s/ #%d not found" % (unit, rx.pattern, occ))
                    k = hits[occ - 1]
                    block = [WOVEN + x + " //@ins" for x in ins.split("\n")]
                    if where == "before":
                        tls[k:k] = block
                    else:
                        tls[k + 1:k + 1] = block
                text = "\n".join(tls)
            if canary:
                G.add("assert(false); // CANARY(start)", unit)
            G.add(text, unit, (spec["file"], first_line))
            i = j + 1
            continue
        G.add(subst(ln), unit)
        i += 1
    # count clauses per unit
    for u, d in G.units.items():
        seg = "\n".join(G.lines[d["start_line"] - 1:d["end_line"]])
        d["clauses"] = len(re.findall(r"//@ob\s+\S+", seg))
        m = re.search(r"\bfn\s+(\w+)", seg)
        d["fn"] = m.group(1) if m else None
        mi = re.search(r"\bimpl\s+(\w+)\s*\{", seg[:m.start()] if m else seg)
        d["qual"] = ("%s::%s" % (mi.group(1), d["fn"])) if (mi and m) else d["fn"]
    return G


if __name__ == "__main__":
    import argparse
    ap = argparse.ArgumentParser()
    ap.add_argument("template")
    ap.add_argument("--repo", default="/repo")
    ap.add_argument("--canary", action="store_true")
    ap.add_argument("-o", "--out")
    a = ap.parse_args()
    try:
        G = generate(a.template, a.repo, canary=a.canary)
    except LostAnchor as e:
        print("LOST ANCHOR:", e, file=sys.stderr)
        sys.exit(2)
    if a.out:
        with open(a.out, "w") as f:
            f.write(G.text())
    else:
        sys.stdout.write(G.text())
    for u, d in G.units.items():
        print("unit", u, d["fn"], d["clauses"], "clauses;", "; ".join(d["desc"]), file=sys.stderr)
        for x in d["drops"]:
            print("   ", x, file=sys.stderr)
