"""Run Kani harnesses (one process per harness, own process group, address-space limit) and parse results."""
import os
import re
import resource
import signal
import subprocess
import time
from concurrent.futures import ThreadPoolExecutor

VERIF = os.path.dirname(os.path.dirname(os.path.abspath(__file__)))

HARNESS_RE = re.compile(r"^\s*//\s*@harness\s+(\w+)\s*(.*)$")


def parse_kv(s):
    out = {}
    for m in re.finditer(r'(\w+)=("([^"]*)"|\S+)', s):
        out[m.group(1)] = m.group(3) if m.group(3) is not None else m.group(2)
    return out


def list_harnesses(paths):
    """`// @harness name props=C18 tier=quick kind=complete|bounded bound="len<=4" flags="..." timeout=600 mem=12`
    directly above the #[kani::proof...] function of that name."""
    out = []
    for p in paths:
        with open(p) as f:
            for n, ln in enumerate(f, 1):
                m = HARNESS_RE.match(ln)
                if m:
                    kv = parse_kv(m.group(2))
                    stem = os.path.splitext(os.path.basename(p))[0]
                    out.append(dict(name=m.group(1), file=p, line=n, module=kv.get("module", stem),
                                    qualified="%s::verif_%s::harnesses::%s" % (kv.get("module", stem), stem, m.group(1)),
                                    props=kv.get("props", "").split(","), tier=kv.get("tier", "quick"),
                                    kind=kv.get("kind", "bounded"), bound=kv.get("bound", ""),
                                    flags=kv.get("flags", "").split(), timeout=int(kv.get("timeout", "600")),
                                    mem=int(kv.get("mem", "12")), expect=kv.get("expect", "pass"),
                                    finding=kv.get("finding"), what=kv.get("what", ""), modular=kv.get("modular") == "1",
                                    cbmc=kv.get("cbmc", "")))
    return out


def _limits(mem_gb):
    def f():
        os.setsid()
        lim = mem_gb * 1024 * 1024 * 1024
        resource.setrlimit(resource.RLIMIT_AS, (lim, lim))
    return f


def run_one(crate, h, playback=False, target_root=None):
    name = h["name"]
    tdir = os.path.join(target_root or os.path.join(crate, "target"), name)
    cmd = ["cargo", "kani", "-Z", "function-contracts", "-Z", "stubbing", "--harness", h.get("qualified", name),
           "--exact", "--target-dir", tdir]
    cmd += h["flags"]
    if h.get("cbmc"):
        cmd += ["-Z", "unstable-options", "--cbmc-args"] + h["cbmc"].split()
    if playback:
        cmd += ["-Z", "concrete-playback", "--concrete-playback=print"]
    env = dict(os.environ, CARGO_NET_OFFLINE="true")
    t0 = time.time()
    try:
        p = subprocess.Popen(cmd, cwd=crate, stdout=subprocess.PIPE, stderr=subprocess.STDOUT, text=True,
                             env=env, preexec_fn=_limits(h["mem"]))
        try:
            out, _ = p.communicate(timeout=h["timeout"])
            timed_out = False
        except subprocess.TimeoutExpired:
            try:
                os.killpg(p.pid, signal.SIGKILL)
            except ProcessLookupError:
                pass
            out, _ = p.communicate()
            timed_out = True
        rc = p.returncode
    except OSError as e:
        out, rc, timed_out = "could not start cargo kani: %s" % e, -1, False
    wall = time.time() - t0
    r = parse_output(out)
    r.update(name=name, cmd=" ".join(cmd), rc=rc, wall=wall, timed_out=timed_out, out_tail=out[-6000:], out=out)
    if timed_out:
        r["status"] = "undecided"
        r["reason"] = "timeout after %ds" % h["timeout"]
    return r


def parse_output(out):
    r = dict(status="undecided", reason="", failed=[], checks_total=0, checks_failed=0, covers_total=0,
             covers_sat=0, solver_s=0.0, stubs=[], playback=None)
    m = re.search(r"SUMMARY:\s*\n\s*\*\* (\d+) of (\d+) failed", out)
    if m:
        r["checks_failed"], r["checks_total"] = int(m.group(1)), int(m.group(2))
    m = re.search(r"\*\* (\d+) of (\d+) cover properties satisfied", out)
    if m:
        r["covers_sat"], r["covers_total"] = int(m.group(1)), int(m.group(2))
    for m in re.finditer(r"Runtime decision procedure: ([0-9.]+)s", out):
        r["solver_s"] += float(m.group(1))
    r["stubs"] = re.findall(r"- Stub: (.+)", out)
    for m in re.finditer(r"Failed Checks: (.+)\n(?:\s*File: \"([^\"]+)\", line (\d+), in (\S+))?", out):
        r["failed"].append(dict(desc=m.group(1).strip(), file=m.group(2), line=int(m.group(3)) if m.group(3) else None,
                                fn=m.group(4)))
    blocks = re.findall(r"Concrete playback unit test for `[^`]+`:\s*\n```\n(.*?)\n```", out, re.S)
    # keep only tests generated for failed *assertions* (not the ones for satisfied cover points)
    fails = [b for b in blocks if "Check for `cover`" not in b]
    if fails:
        r["playback"] = fails[0]
        r["playbacks"] = fails
    if "VERIFICATION:- SUCCESSFUL" in out:
        r["status"] = "ok"
    elif "VERIFICATION:- FAILED" in out:
        if any("unwinding assertion" in f["desc"] for f in r["failed"]):
            r["status"] = "undecided"
            r["reason"] = "unwinding assertion failed (bound too small for this code)"
        elif any(k in out for k in ("CBMC failed", "out of memory", "std::bad_alloc")) or not r["failed"] or "Status: ERROR" in out:
            r["status"] = "undecided"
            r["reason"] = "CBMC resource failure / solver error (no failed check reported)"
        else:
            r["status"] = "fail"
    else:
        tail = out[-800:]
        if "error[" in out or "error:" in out:
            m2 = re.search(r"(error(?:\[E\d+\])?: .+)", out)
            r["reason"] = "did not compile / tool error: %s" % (m2.group(1) if m2 else tail[-300:])
        elif "bad_alloc" in out or "Killed" in out or "memory" in tail:
            r["reason"] = "out of memory"
        else:
            r["reason"] = "no verdict from kani: %s" % tail[-300:].replace("\n", " | ")
    if r["status"] == "ok" and r["covers_total"] and r["covers_sat"] < r["covers_total"]:
        r["status"] = "undecided"
        r["reason"] = "vacuity guard: %d of %d kani::cover! points unreachable" % (
            r["covers_total"] - r["covers_sat"], r["covers_total"])
    if r["status"] == "ok" and r["checks_total"] == 0:
        r["status"] = "undecided"
        r["reason"] = "vacuity guard: zero checks"
    return r


def run_many(crate, harnesses, jobs=8, target_root=None):
    res = {}
    with ThreadPoolExecutor(max_workers=jobs) as ex:
        futs = {h["name"]: ex.submit(run_one, crate, h, False, target_root) for h in harnesses}
        for n, f in futs.items():
            res[n] = f.result()
    return res
