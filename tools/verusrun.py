"""Run Verus on generated unit files and turn its output into named obligations."""
import json
import os
import re
import subprocess
import time

from extract import generate, LostAnchor

VERIF = os.path.dirname(os.path.dirname(os.path.abspath(__file__)))

# messages that mean "an obligation could not be proved" (candidate violation); everything else at
# error level (type errors, unsupported constructs, rlimit) means UNDECIDED.
PROOF_FAIL = (
    "postcondition not satisfied", "precondition not satisfied", "assertion failed",
    "invariant not satisfied", "possible arithmetic underflow/overflow", "possible division by zero",
    "decreases not satisfied", "possible bit shift underflow/overflow", "unable to prove",
    "cannot show invariant", "failed precondition", "failed this postcondition",
)
RESOURCE = ("rlimit", "Resource limit", "timed out", "timeout")


def run_verus(path, rlimit=None, threads=4, extra=()):
    cmd = ["verus", os.path.basename(path), "--output-json", "--time", "--triggers-mode", "silent",
           "--error-format=json", "--multiple-errors", "8", "--num-threads", str(threads)]
    if rlimit:
        cmd += ["--rlimit", str(rlimit)]
    cmd += list(extra)
    t0 = time.time()
    p = subprocess.run(cmd, cwd=os.path.dirname(path), capture_output=True, text=True)
    wall = time.time() - t0
    summary = None
    try:
        i = p.stdout.index("{")
        summary = json.loads(p.stdout[i:])
    except (ValueError, json.JSONDecodeError):
        summary = None
    diags = []
    for ln in p.stderr.splitlines():
        ln = ln.strip()
        if ln.startswith("{"):
            try:
                d = json.loads(ln)
            except json.JSONDecodeError:
                continue
            if d.get("$message_type") == "diagnostic":
                diags.append(d)
    return dict(cmd=" ".join(cmd), rc=p.returncode, summary=summary, diags=diags, wall=wall,
                stderr_tail=p.stderr[-3000:], stdout_tail=p.stdout[-500:])


def fn_results(summary):
    """{fn short name: (success, time_ms, rlimit)} from the smt function breakdown"""
    out = {}
    if not summary:
        return out
    for m in summary.get("times-ms", {}).get("smt", {}).get("smt-run-module-times", []):
        for f in m.get("function-breakdown", []):
            name = "::".join(f["function"].split("::")[1:])   # drop the crate name
            prev = out.get(name)
            ok = f.get("success", False) and (prev[0] if prev else True)
            out[name] = (ok, f.get("time", 0) + (prev[1] if prev else 0), f.get("rlimit", 0) + (prev[2] if prev else 0))
    # an `impl` for a type that lives in a module of the generated file is reported as `module::Type::fn`: also offer the two-segment name the units use
    for name in list(out):
        segs = name.split("::")
        if len(segs) > 2 and "::".join(segs[-2:]) not in out:
            out["::".join(segs[-2:])] = out[name]
    return out


def classify(diag):
    msg = diag.get("message", "")
    if diag.get("level") != "error":
        return "note"
    if msg.startswith("aborting due to"):
        return "note"
    if any(r in msg for r in RESOURCE):
        return "resource"
    if any(k in msg for k in PROOF_FAIL):
        return "proof"
    return "other"


def locate(G, diag):
    """(unit, obligation label, source (file,line) or None, generated line) for a diagnostic.
    A Verus postcondition failure carries two spans: the clause (label 'failed this postcondition')
    and the function body; prefer a span that lies on a labelled clause line."""
    spans = diag.get("spans", [])
    best = None
    for sp in spans:
        ln = sp.get("line_start", 0)
        if 1 <= ln <= len(G.lines):
            unit, lab, src = G.unit_of[ln - 1], G.label_of[ln - 1], G.src_of[ln - 1]
            # multi-line clause: the label sits on the last line of the clause
            if lab is None and unit and src is None:
                depth = 0
                for k in range(ln - 1, min(ln + 14, len(G.lines))):
                    if G.label_of[k]:
                        lab = G.label_of[k]
                        break
                    code = G.lines[k].split("//")[0]
                    depth += sum(code.count(c) for c in "([{") - sum(code.count(c) for c in ")]}")
                    if code.rstrip().endswith(",") and depth <= 0:      # the clause ended without a label
                        break
            cand = (unit, lab, src, ln)
            if lab and (best is None or best[1] is None):
                best = cand
            elif best is None:
                best = cand
            elif best[1] is None and src and not best[2]:
                best = cand
    return best or (None, None, None, 0)


def check_template(template, repo, workdir, prop, exclude=None, rlimit=None, threads=4):
    """Generates + verifies one template (real and canary).  Returns a dict:
      status: 'ok' | 'fail' | 'undecided'
      units: {unit: {fn, clauses, ok, time_ms, drops, desc}}
      failures: [ {unit, obligation, message, src, gen_line} ]
      undecided: [reason...]
    Only units that list `prop` are judged."""
    os.makedirs(workdir, exist_ok=True)
    base = os.path.splitext(os.path.basename(template))[0]
    res = dict(template=os.path.relpath(template, VERIF), status="ok", units={}, failures=[], undecided=[],
               cmds=[], smt_ms=0, wall=0.0, verus_version=None)
    try:
        G = generate(template, repo, canary=False, exclude=exclude)
        C = generate(template, repo, canary=True, exclude=exclude)
    except LostAnchor as e:
        res["status"] = "undecided"
        res["undecided"].append("lost anchor: %s" % e)
        return res
    real = os.path.join(workdir, base + ".rs")
    can = os.path.join(workdir, base + "__canary.rs")
    with open(real, "w") as f:
        f.write(G.text())
    with open(can, "w") as f:
        f.write(C.text())
    mine = {u: d for u, d in G.units.items() if prop in d["props"]}
    if not mine:
        res["status"] = "undecided"
        res["undecided"].append("template has no unit for %s" % prop)
        return res
    for u, d in mine.items():
        if d["clauses"] == 0:
            res["status"] = "undecided"
            res["undecided"].append("unit %s has no labelled clause (vacuity guard)" % u)
    R = run_verus(real, rlimit, threads)
    # Z3 instability guard: a unit that fails is re-verified under two other crate names (the SMT encoding's symbol names change, nothing else);
    # a run that discharges every obligation of the unit IS a proof, so the unit counts as verified (noted as unstable); only a unit that fails
    # under every name is reported.
    retried = []
    if R["summary"] is not None:
        fr0 = fn_results(R["summary"])
        bad = [u for u, d in mine.items() if fr0.get(d.get("qual") or d["fn"], (None, 0, 0))[0] is False]
        if bad:
            import shutil
            alt_ok = set()
            for k in (1, 2):
                alt = os.path.join(workdir, "%s_retry%d.rs" % (base, k))
                shutil.copyfile(real, alt)
                A = run_verus(alt, rlimit, threads)
                fa = fn_results(A["summary"]) if A["summary"] else {}
                for u in bad:
                    if fa.get(mine[u].get("qual") or mine[u]["fn"], (None, 0, 0))[0] is True:
                        alt_ok.add(u)
                if set(bad) <= alt_ok:
                    break
            retried = sorted(alt_ok)
    K = run_verus(can, rlimit, threads)
    res["cmds"] = [R["cmd"], K["cmd"] + "   # canary: every unit must FAIL"]
    res["wall"] = R["wall"] + K["wall"]
    if R["summary"]:
        res["verus_version"] = R["summary"].get("verus", {}).get("version")
        res["smt_ms"] = R["summary"].get("times-ms", {}).get("smt", {}).get("smt-run", 0)
    fr = fn_results(R["summary"])
    fk = fn_results(K["summary"])
    # hard errors (type errors, unsupported constructs, crashes)
    vr = (R["summary"] or {}).get("verification-results", {})
    others = [d for d in R["diags"] if classify(d) == "other"]
    resource = [d for d in R["diags"] if classify(d) == "resource"]
    if R["summary"] is None or vr.get("encountered-vir-error") or (others and not fr):
        res["status"] = "undecided"
        msg = others[0]["message"] if others else (R["stderr_tail"][-400:] or "no summary from verus")
        res["undecided"].append("verus could not process the extracted text: %s" % msg)
        return res
    for d in others:
        u = locate(G, d)[0]
        if u in mine or u is None:
            res["status"] = "undecided"
            res["undecided"].append("verus error outside the proof obligations: %s" % d["message"])
    for d in resource:
        u = locate(G, d)[0]
        if u in mine or u is None:
            res["status"] = "undecided"
            res["undecided"].append("resource limit: %s" % d["message"])
    for u, d in mine.items():
        fn = d.get("qual") or d["fn"]
        ok, ms, rl = fr.get(fn, (None, 0, 0))
        if u in retried:
            ok = True
            d["drops"].append("UNSTABLE PROOF: this unit failed under the crate name of the first run and verified under another crate name (same obligations, different SMT symbol names); counted as verified - add explicit hints")
        res["units"][u] = dict(fn=fn, clauses=d["clauses"], ok=ok, time_ms=ms, rlimit=rl, drops=d["drops"], desc=d["desc"],
                               search=d.get("search"))
        if ok is None:
            res["status"] = "undecided"
            res["undecided"].append("unit %s (%s) was not reported by verus" % (u, fn))
        # canary: must fail
        cok = fk.get(fn, (None, 0, 0))[0]
        if cok is not False:
            res["status"] = "undecided"
            res["undecided"].append("canary for unit %s did not fail (contradictory requires/axioms?)" % u)
    # proof failures
    seen = set()
    for d in R["diags"]:
        if classify(d) != "proof":
            continue
        unit, lab, src, gl = locate(G, d)
        if unit not in mine:
            continue
        if unit in retried:
            continue
        kind = d["message"]
        if lab is None:
            if src:
                lab = "body@%s:%d" % (os.path.basename(src[0]), src[1])
            else:
                lab = "line%d" % gl
        ob = "%s/%s/%s" % (prop, unit, lab)
        if (ob, kind) in seen:
            continue
        seen.add((ob, kind))
        res["failures"].append(dict(unit=unit, obligation=ob, message=kind, src=src, gen_line=gl,
                                    gen_text=G.lines[gl - 1].strip()[:300] if gl else "",
                                    rendered=(d.get("rendered") or "")[:2000]))
    res["unstable_units"] = retried
    for u, d in res["units"].items():
        if d["ok"] is False and not any(f["unit"] == u for f in res["failures"]):
            res["failures"].append(dict(unit=u, obligation="%s/%s/unlocated" % (prop, u),
                                        message="verus reported the function as failed", src=None, gen_line=0,
                                        gen_text="", rendered=""))
    if res["failures"] and res["status"] == "ok":
        res["status"] = "fail"
    res["generated"] = os.path.relpath(real, VERIF)
    return res


def unit_searches(template, prop):
    """[(unit id, native search name)] declared by `//@unit` lines of a template for this property (read from the template text, so it
    works even when the extraction or Verus itself fails)"""
    out = []
    try:
        with open(template) as f:
            for ln in f:
                m = re.match(r"\s*//@unit\s+(\S+)\s+(.*)$", ln)
                if m:
                    kv = dict(re.findall(r"(\w+)=(\S+)", m.group(2)))
                    if prop in kv.get("prop", "").split(",") and kv.get("search"):
                        out.append((m.group(1), kv["search"]))
    except OSError:
        pass
    return out


def scan_assumptions(paths):
    """mechanical scan for trusted constructs in contract files"""
    pats = [r"\baxiom\b", r"assume_specification", r"external_body", r"\bassume\s*\(", r"\badmit\s*\(",
            r"kani::assume", r"kani::stub", r"mem::forget", r"\buninterp\b"]
    out = []
    for p in paths:
        try:
            with open(p) as f:
                for n, ln in enumerate(f, 1):
                    s = ln.strip()
                    if s.startswith("//"):
                        continue
                    for pat in pats:
                        if re.search(pat, s):
                            out.append("%s:%d: %s" % (os.path.relpath(p, VERIF), n, s[:160]))
                            break
        except OSError:
            pass
    return out
