#!/bin/bash
# tools/stability.sh: verify every template under 5 different crate names (probe for Z3 instability: a proof that depends on symbol names is a future false alarm). Needs /verif/tools/vrun.py-style runner: uses tools/vrun.py
cd /verif
for t in contracts/verus/C*.rs; do
  b=$(basename $t .rs)
  python3 tools/extract.py $t --repo /repo > /tmp/vt/stab_src.rs 2>/dev/null || { echo "$b: extract failed"; continue; }
  r=""
  for n in $b a1 q zz9x m_7; do
    cp /tmp/vt/stab_src.rs /tmp/vt/$n.rs
    e=$(cd /tmp/vt && python3 /verif/tools/vrun.py $n.rs 2>&1 | grep "^ERR" | grep -vc aborting)
    r="$r $n:$e"
  done
  echo "$b:$r"
done
