#!/bin/bash
# tools/seedcheck2.sh <seed-id> <worktree> <prop> [<prop>...]     (round-2 layout: <worktree>/patch.diff, examples/seed_demo.rs, notes.txt)
# 1. confirm in the scratch worktree: existing tests pass with the change; the demo exits 1 with it and 0 without
# 2. copy patch/demo/notes to /verif/seeded/<id>/
# 3. apply the patch to /repo, run the listed checks (quick), revert /repo
id=$1; wt=$2; shift 2
out=/verif/seeded/$id; mkdir -p $out
cd $wt
git diff -- src > /tmp/seedcheck_$id.diff
[ -s /tmp/seedcheck_$id.diff ] || { echo "WORKTREE HAS NO CHANGE"; exit 1; }
cp /tmp/seedcheck_$id.diff $out/patch.diff; cp notes.txt $out/notes.txt 2>/dev/null; cp examples/seed_demo.rs $out/seed_demo.rs
lib=$(CARGO_NET_OFFLINE=true cargo test --offline --lib 2>&1 | grep "^test result" | head -1)
doc=$(CARGO_NET_OFFLINE=true cargo test --offline --doc 2>&1 | grep "^test result" | head -1)
CARGO_NET_OFFLINE=true cargo run --offline --quiet --example seed_demo >/tmp/seedcheck_$id.with 2>&1; with=$?
git apply -R /tmp/seedcheck_$id.diff
CARGO_NET_OFFLINE=true cargo run --offline --quiet --example seed_demo >/tmp/seedcheck_$id.without 2>&1; without=$?
git apply /tmp/seedcheck_$id.diff
echo "existing(lib): $lib"; echo "existing(doc): $doc"; echo "demo exit with change: $with"; echo "demo exit without: $without"
cd /verif
git -C /repo apply $out/patch.diff || { echo "PATCH DOES NOT APPLY"; exit 1; }
res=""
for p in "$@"; do
  o=$(./check $p --tier quick 2>&1); e=$?
  echo "== check $p exit=$e"; echo "$o" | grep "VIOLATION\|UNDECIDED\|failed obligation" | head -6
  res="$res $p:$e"
done
git -C /repo checkout -- .
git -C /repo status --short | head -2
echo "RESULT $id:$res"
python3 - "$id" "$lib" "$doc" "$with" "$without" "$res" <<'PY'
import json,sys
id,lib,doc,w,wo,res=sys.argv[1:7]
p='/verif/seeded/%s/meta.json'%id
try: m=json.load(open(p))
except Exception: m={}
m.update(dict(id=id, existing_tests_with_change=dict(lib=lib,doc=doc), demo_exit_with_change=int(w), demo_exit_without_change=int(wo),
  checks_with_patch_applied=res.strip(), ran="tools/seedcheck2.sh (cargo test --offline and `cargo run --example seed_demo` in the scratch worktree, with and without the change; git -C /repo apply; ./check <prop> --tier quick; git -C /repo checkout -- .)"))
json.dump(m,open(p,'w'),indent=1)
PY
