#!/usr/bin/env python3
"""setup_cmd: nothing to build (Python + pre-installed verifiers); verify the tools are callable."""
import shutil, subprocess, sys
bad = [t for t in ("verus", "cargo", "kani", "cbmc") if not shutil.which(t)]
if bad:
    print("missing tools:", bad); sys.exit(1)
subprocess.run(["verus", "--version"], check=True, stdout=subprocess.DEVNULL)
print("tools present: verus, cargo-kani, cbmc")
