#!/usr/bin/env python3
"""list closures of a function: tools/lsclosures.py src/activation.rs ReLU forward"""
import sys, os
sys.path.insert(0, os.path.dirname(os.path.abspath(__file__)))
from extract import load, find_fn, find_closures
path, impl, fn = sys.argv[1], sys.argv[2], sys.argv[3]
S = load(os.path.join("/repo", path))
kw, bo, be = find_fn(S, impl if impl != "-" else None, fn)
for n, c in enumerate(find_closures(S, bo, be), 1):
    print(n, "|%s|" % c["params"], "block" if c["block"] else "expr", repr(" ".join(S.src[c["start"]:c["end"]].split())[:90]))
