"""Minimal Rust tokenizer + bracket matcher used by the extractor.

It understands: line/block (nested) comments, string / raw string / byte string literals, char
literals vs. lifetimes, numeric literals (incl. 1.0, 1e-6, 0x.., suffixes), identifiers, and
multi-character punctuation.  Every token keeps its byte offsets so that the extractor can copy
source ranges *verbatim*.
"""
import re
from dataclasses import dataclass


@dataclass
class Tok:
    kind: str   # 'id', 'num', 'str', 'char', 'life', 'punct', 'comment'
    text: str
    start: int
    end: int
    line: int


PUNCT3 = ["<<=", ">>=", "...", "..="]
PUNCT2 = ["::", "->", "=>", "==", "!=", "<=", ">=", "&&", "||", "+=", "-=", "*=", "/=", "%=",
          "^=", "&=", "|=", "<<", ">>", ".."]

_num_re = re.compile(
    r"0[xX][0-9a-fA-F_]+(?:[iu](?:8|16|32|64|128|size))?"
    r"|0[bB][01_]+(?:[iu](?:8|16|32|64|128|size))?"
    r"|0[oO][0-7_]+(?:[iu](?:8|16|32|64|128|size))?"
    r"|[0-9][0-9_]*(?:\.(?![.a-zA-Z_])[0-9_]*)?(?:[eE][+-]?[0-9_]+)?(?:f32|f64|[iu](?:8|16|32|64|128|size))?"
)
_id_re = re.compile(r"(?:r#)?[A-Za-z_][A-Za-z0-9_]*")


class LexError(Exception):
    pass


def tokenize(src, keep_comments=False):
    toks = []
    i, n, line = 0, len(src), 1
    while i < n:
        c = src[i]
        if c == "\n":
            line += 1
            i += 1
            continue
        if c.isspace():
            i += 1
            continue
        # comments
        if src.startswith("//", i):
            j = src.find("\n", i)
            if j < 0:
                j = n
            if keep_comments:
                toks.append(Tok("comment", src[i:j], i, j, line))
            i = j
            continue
        if src.startswith("/*", i):
            depth, j = 1, i + 2
            while j < n and depth:
                if src.startswith("/*", j):
                    depth += 1
                    j += 2
                elif src.startswith("*/", j):
                    depth -= 1
                    j += 2
                else:
                    j += 1
            if depth:
                raise LexError("unterminated block comment at line %d" % line)
            if keep_comments:
                toks.append(Tok("comment", src[i:j], i, j, line))
            line += src.count("\n", i, j)
            i = j
            continue
        # raw strings r"..", r#".."#, br#".."#
        m = re.match(r"b?r(#*)\"", src[i:i + 40])
        if m:
            hashes = m.group(1)
            close = '"' + hashes
            j = src.find(close, i + m.end())
            if j < 0:
                raise LexError("unterminated raw string at line %d" % line)
            j += len(close)
            toks.append(Tok("str", src[i:j], i, j, line))
            line += src.count("\n", i, j)
            i = j
            continue
        # strings
        if c == '"' or (c == "b" and src.startswith('b"', i)):
            j = i + (2 if c == "b" else 1)
            while j < n and src[j] != '"':
                j += 2 if src[j] == "\\" else 1
            if j >= n:
                raise LexError("unterminated string at line %d" % line)
            j += 1
            toks.append(Tok("str", src[i:j], i, j, line))
            line += src.count("\n", i, j)
            i = j
            continue
        # char literal or lifetime
        if c == "'" or (c == "b" and src.startswith("b'", i)):
            k = i + (2 if c == "b" else 1)
            m = re.match(r"(?:\\(?:x[0-9a-fA-F]{2}|u\{[0-9a-fA-F_]+\}|.)|[^\\'])'", src[k:k + 14])
            if m:
                j = k + m.end()
                toks.append(Tok("char", src[i:j], i, j, line))
                i = j
                continue
            m = _id_re.match(src, k)
            if m and c == "'":
                toks.append(Tok("life", src[i:m.end()], i, m.end(), line))
                i = m.end()
                continue
            raise LexError("bad quote at line %d" % line)
        if c.isdigit():
            m = _num_re.match(src, i)
            j = m.end()
            # method call on integer literal like `2u64.pow` or `1.` handled by regex lookahead
            toks.append(Tok("num", src[i:j], i, j, line))
            i = j
            continue
        m = _id_re.match(src, i)
        if m:
            toks.append(Tok("id", m.group(0), i, m.end(), line))
            i = m.end()
            continue
        for table, ln in ((PUNCT3, 3), (PUNCT2, 2)):
            s = src[i:i + ln]
            if s in table:
                toks.append(Tok("punct", s, i, i + ln, line))
                i += ln
                break
        else:
            toks.append(Tok("punct", c, i, i + 1, line))
            i += 1
    return toks


OPEN = {"(": ")", "[": "]", "{": "}"}
CLOSE = {v: k for k, v in OPEN.items()}


def match_brackets(toks):
    """Returns dict index->matching index for (), [], {} tokens."""
    stack, match = [], {}
    for idx, t in enumerate(toks):
        if t.kind != "punct":
            continue
        if t.text in OPEN:
            stack.append(idx)
        elif t.text in CLOSE:
            if not stack or toks[stack[-1]].text != CLOSE[t.text]:
                raise LexError("unbalanced %r at line %d" % (t.text, t.line))
            o = stack.pop()
            match[o] = idx
            match[idx] = o
    if stack:
        raise LexError("unclosed %r at line %d" % (toks[stack[-1]].text, toks[stack[-1]].line))
    return match
