#!/usr/bin/env python3
"""developer helper: run named Kani harness(es) once:  tools/k1.py [--repo R] [--timeout S] name [name...]"""
import argparse, os, sys, time
sys.path.insert(0, os.path.dirname(os.path.abspath(__file__)))
import kanirun, mirror
from plan import KANI_FILES
VERIF = os.path.dirname(os.path.dirname(os.path.abspath(__file__)))
ap = argparse.ArgumentParser(); ap.add_argument("names", nargs="+"); ap.add_argument("--repo", default="/repo")
ap.add_argument("--timeout", type=int, default=300); ap.add_argument("--playback", action="store_true"); ap.add_argument("-v", action="store_true")
a = ap.parse_args()
K = os.path.join(VERIF, "contracts", "kani")
fm = {m: [os.path.join(K, f) for f in fs] for m, fs in KANI_FILES.items()}
crate = os.path.join(VERIF, ".work", "k1")
os.makedirs(crate, exist_ok=True)
mirror.make_crate(a.repo, crate, fm)
hs = kanirun.list_harnesses([p for ps in fm.values() for p in ps])
sel = []
for h in hs:
    if h["name"] in a.names:
        for m, ps in fm.items():
            if h["file"] in ps:
                stem = os.path.splitext(os.path.basename(h["file"]))[0]
                h["module"] = m; h["qualified"] = "%s::verif_%s::harnesses::%s" % (m, stem, h["name"])
        h["timeout"] = a.timeout
        sel.append(h)
res = kanirun.run_many(crate, sel, jobs=8) if not a.playback else {h["name"]: kanirun.run_one(crate, h, True) for h in sel}
for n, r in res.items():
    print(n, r["status"], r["reason"], "checks %d/%d covers %d/%d wall %.0fs solver %.1fs" % (r["checks_failed"], r["checks_total"], r["covers_sat"], r["covers_total"], r["wall"], r["solver_s"]))
    for f in r["failed"][:6]: print("    ", f)
    if a.v or r["status"] == "undecided": print(r["out_tail"][-700:])
    if a.playback and r.get("playback"): print(r["playback"])
