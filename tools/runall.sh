#!/bin/bash
# run every claimed check (quick tier by default) on /repo and validate manifest + evidence
cd /verif
tier=${1:-quick}
rc=0
for p in $(python3 -c "import sys; sys.path.insert(0,'tools'); from plan import PLAN; print(' '.join(sorted(PLAN)))"); do
  s=$(date +%s)
  out=$(./check $p --tier $tier 2>&1); e=$?
  echo "$p exit=$e $(( $(date +%s) - s ))s  $(echo "$out" | grep '^obligations' )"
  if [ $e -ne 0 ]; then rc=1; echo "$out" | grep "VIOLATION\|UNDECIDED" | head -5; fi
done
python3-vt tools/validate.py | grep -v "^valid" 
exit $rc
