#[path = "/repo/src/random.rs"]
pub mod random;

#[cfg(kani)]
mod contracts {
    use super::random::Generator;

    // State model: the generator as built by the public constructor from a reduced seed.
    fn any_generator() -> Generator {
        let seed: u64 = kani::any();
        kani::assume(seed < 2147483647);
        Generator::create(seed)
    }

    // Contract wrapper around the real function (forwarding only).
    #[kani::requires(min <= max && min.is_finite() && max.is_finite() && (max - min).is_finite())]
    #[kani::ensures(|r: &f32| *r >= min && *r <= max)]
    fn generate_c(g: &mut Generator, min: f32, max: f32) -> f32 { g.generate(min, max) }

    #[kani::proof_for_contract(generate_c)]
    fn check_generate() {
        let mut g = any_generator();
        let min: f32 = kani::any(); let max: f32 = kani::any();
        generate_c(&mut g, min, max);
    }

    #[kani::proof]
    #[kani::unwind(4)]
    fn shuffle_len3() {
        let mut g = any_generator();
        let mut v = vec![0usize, 1, 2];
        g.shuffle(&mut v);
        let mut seen = [false; 3];
        for x in v.iter() { assert!(*x < 3); seen[*x] = true; }
        assert!(seen[0] && seen[1] && seen[2]);
    }
}
