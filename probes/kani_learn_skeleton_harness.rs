// appended to a sequentialised mirror of /repo/src/network.rs; did NOT finish symex (see DESIGN §2)
#[cfg(kani)]
mod verif_learn {
    use super::*;
    use crate::tensor::{Tensor, Shape, Data};

    static mut LOG_STEP: [i32; 8] = [0; 8];
    static mut LOG_SUM: [f32; 8] = [0.0; 8];
    static mut LOG_N: usize = 0;

    fn fwd_stub(_net: &Network, input: &Tensor) -> (Vec<Tensor>, Vec<Tensor>, Vec<Option<Tensor>>, Vec<Vec<Tensor>>) {
        // contract of forward: a pure function of (weights, input); here: passes the sample id through
        (Vec::new(), vec![input.clone()], Vec::new(), Vec::new())
    }
    fn loss_stub(_o: &objective::Function, prediction: &Tensor, _target: &Tensor) -> (f32, Tensor) {
        let id = match &prediction.data { Data::Single(d) => d[0], _ => 0.0 };
        (id, Tensor::single(vec![id]))
    }
    fn bwd_stub(_net: &Network, gradient: Tensor, _p: &Vec<Tensor>, _a: &Vec<Tensor>, _m: &Vec<Option<Tensor>>, _f: Vec<Vec<Tensor>>) -> (Vec<Tensor>, Vec<Option<Tensor>>) {
        (vec![gradient], vec![None])
    }
    fn upd_stub(_net: &mut Network, stepnr: i32, wg: Vec<Tensor>, _bg: Vec<Option<Tensor>>) {
        unsafe {
            let v = match &wg[0].data { Data::Single(d) => d[0], _ => -1.0 };
            if LOG_N < 8 { LOG_STEP[LOG_N] = stepnr; LOG_SUM[LOG_N] = v; }
            LOG_N += 1;
        }
    }
    fn rs_stub() -> std::collections::hash_map::RandomState {
        unsafe { std::mem::transmute::<(u64,u64), std::collections::hash_map::RandomState>((1u64, 2u64)) }
    }

    #[kani::proof]
    #[kani::unwind(3)]
    #[kani::stub(Network::forward, fwd_stub)]
    #[kani::stub(Network::backward, bwd_stub)]
    #[kani::stub(Network::update, upd_stub)]
    #[kani::stub(objective::Function::loss, loss_stub)]
    #[kani::stub(std::collections::hash_map::RandomState::new, rs_stub)]
    fn learn_skeleton() {
        let mut net = Network::new(Shape::Single(1));
        let x0 = Tensor::single(vec![1.0]); let x1 = Tensor::single(vec![2.0]); let x2 = Tensor::single(vec![4.0]);
        let xs = vec![&x0, &x1]; let ys = vec![&x0, &x1];
        let (tl, vl, va) = net.learn(&xs, &ys, None, 1, 2, None);
        assert!(tl.len() == 2 && vl.len() == 0 && va.len() == 0);
        unsafe {
            assert!(LOG_N == 4);
            assert!(LOG_STEP[0] == 1 && LOG_SUM[0] == 1.0);
            assert!(LOG_STEP[1] == 1 && LOG_SUM[1] == 2.0);
            assert!(LOG_STEP[2] == 2 && LOG_SUM[2] == 1.0);
            assert!(LOG_STEP[3] == 2 && LOG_SUM[3] == 2.0);
        }
        // mean over groups of mean per-sample loss: ((1+2)/2 + 4/1)/2
        assert!(tl[0] == 1.5);
    }
}
