// harnesses over #[path]-included /repo/src files; timings in DESIGN §2
#[cfg(kani)]
mod proofs {
    use super::*;
    use tensor::{Tensor, Shape, Data};

    fn anyf() -> f32 { let v: f32 = kani::any(); kani::assume(v.is_finite()); v }
    fn sym_single(n: usize) -> Vec<f32> { let mut r = Vec::new(); for _ in 0..n { r.push(anyf()); } r }
    fn sym_double(n: usize, m: usize) -> Vec<Vec<f32>> { let mut r = Vec::new(); for _ in 0..n { r.push(sym_single(m)); } r }
    fn sym_triple(c: usize, h: usize, w: usize) -> Vec<Vec<Vec<f32>>> { let mut r = Vec::new(); for _ in 0..c { r.push(sym_double(h,w)); } r }
    fn random_stub(shape: Shape, _min: f32, _max: f32) -> Tensor {
        match shape {
            Shape::Single(n) => Tensor::single(sym_single(n)),
            Shape::Double(n,m) => Tensor::double(sym_double(n,m)),
            Shape::Triple(c,h,w) => Tensor::triple(sym_triple(c,h,w)),
            _ => panic!("unsupported in stub"),
        }
    }

    fn smallf() -> f32 { let v: u8 = kani::any(); ((v & 7) as i8 - 3) as f32 }
    fn small_single(n: usize) -> Vec<f32> { let mut r = Vec::with_capacity(n); for _ in 0..n { r.push(smallf()); } r }
    fn small_double(n: usize, m: usize) -> Vec<Vec<f32>> { let mut r = Vec::with_capacity(n); for _ in 0..n { r.push(small_single(m)); } r }
    fn small_triple(c: usize, h: usize, w: usize) -> Vec<Vec<Vec<f32>>> { let mut r = Vec::with_capacity(c); for _ in 0..c { r.push(small_double(h,w)); } r }

    #[kani::proof]
    #[kani::unwind(4)]
    fn add_inplace_triple_small() {
        let a = small_triple(2,2,3); let b = small_triple(2,2,3);
        let mut t = Tensor::triple(a.clone());
        t.add_inplace(&Tensor::triple(b.clone()));
        assert!(t.shape == Shape::Triple(2,2,3));
        let d = match &t.data { Data::Triple(d) => d, _ => panic!() };
        for i in 0..2 { for j in 0..2 { for k in 0..3 {
            assert!(d[i][j][k] == a[i][j][k] + b[i][j][k]);
        }}}
    }

    #[kani::proof]
    #[kani::unwind(4)]
    fn sgd_double_small() {
        let w = small_double(2,3); let g = small_double(2,3);
        let lr = smallf(); let decay = smallf();
        kani::assume(lr != 0.0);
        let mut opt = optimizer::SGD::create(lr, Some(decay));
        opt.validate(Vec::new());
        let mut wt = Tensor::double(w.clone()); let mut gt = Tensor::double(g.clone());
        opt.update(0, 0, false, 1, &mut wt, &mut gt);
        let d = match &wt.data { Data::Double(d) => d, _ => panic!() };
        for i in 0..2 { for j in 0..3 {
            let e = w[i][j] - lr * (g[i][j] + decay * w[i][j]);
            assert!(d[i][j] == e);
        }}
    }

    #[kani::proof]
    #[kani::unwind(5)]
    fn add_inplace_single4() {
        let a: [f32;4] = kani::any(); let b: [f32;4] = kani::any();
        let mut t = Tensor::single(a.to_vec());
        t.add_inplace(&Tensor::single(b.to_vec()));
        let d = match &t.data { Data::Single(d) => d, _ => panic!() };
        assert!(d.len() == 4);
        for i in 0..4 {
            let e = a[i] + b[i];
            assert!(d[i].to_bits() == e.to_bits() || (e.is_nan() && d[i].is_nan()));
        }
    }

    #[kani::proof]
    #[kani::unwind(3)]
    fn adam_single1() {
        let w: f32 = anyf(); let g: f32 = anyf();
        let lr = anyf(); let b1 = anyf(); let b2 = anyf(); let eps = anyf();
        kani::assume(lr != 0.0 && b1 != 0.0 && b2 != 0.0 && eps != 0.0);
        let mut opt = optimizer::Adam::create(lr, b1, b2, eps, None);
        opt.validate(vec![vec![vec![Tensor::single(vec![0.0])]]]);
        let mut wt = Tensor::single(vec![w]); let mut gt = Tensor::single(vec![g]);
        let step: i32 = kani::any(); kani::assume(step >= 1 && step <= 3);
        opt.update(0, 0, false, step, &mut wt, &mut gt);
        let m = 0.0 * b1 + g * (1.0 - b1);
        let v = 0.0 * b2 + g.powf(2.0) * (1.0 - b2);
        let mh = m / (1.0 - b1.powi(step));
        let vh = v / (1.0 - b2.powi(step));
        let e = w - lr * mh / (vh.sqrt() + eps);
        let d = match &wt.data { Data::Single(d) => d, _ => panic!() };
        assert!(d[0].to_bits() == e.to_bits() || (e.is_nan() && d[0].is_nan()));
    }

    #[kani::proof]
    #[kani::unwind(4)]
    fn add_inplace_triple() {
        let a = sym_triple(2,2,2); let b = sym_triple(2,2,2);
        let mut t = Tensor::triple(a.clone());
        t.add_inplace(&Tensor::triple(b.clone()));
        assert!(t.shape == Shape::Triple(2,2,2));
        let d = match &t.data { Data::Triple(d) => d, _ => panic!() };
        for i in 0..2 { for j in 0..2 { for k in 0..2 {
            let e = a[i][j][k] + b[i][j][k];
            assert!(d[i][j][k] == e || (e.is_nan() && d[i][j][k].is_nan()));
        }}}
    }

    #[kani::proof]
    #[kani::unwind(4)]
    fn sgd_double() {
        let w = sym_double(2,2); let g = sym_double(2,2);
        let lr = anyf(); let decay = anyf();
        let mut opt = optimizer::SGD::create(lr, Some(decay));
        opt.validate(Vec::new());
        let mut wt = Tensor::double(w.clone()); let mut gt = Tensor::double(g.clone());
        opt.update(0, 0, false, 1, &mut wt, &mut gt);
        let lr_eff = if lr == 0.0 { 0.1 } else { lr };
        let d = match &wt.data { Data::Double(d) => d, _ => panic!() };
        for i in 0..2 { for j in 0..2 {
            let e = w[i][j] - lr_eff * (g[i][j] + decay * w[i][j]);
            assert!(d[i][j] == e || (e.is_nan() && d[i][j].is_nan()));
        }}
    }

    #[kani::proof]
    #[kani::unwind(4)]
    #[kani::stub(tensor::Tensor::random, random_stub)]
    fn dense_fwd() {
        let layer = dense::Dense::create(Shape::Single(2), Shape::Single(2), &activation::Activation::Linear, true, None);
        let x = sym_single(2);
        let (pre, _post) = layer.forward(&Tensor::single(x.clone()));
        let w = match &layer.weights.data { Data::Double(d) => d.clone(), _ => panic!() };
        let b = match &layer.bias.as_ref().unwrap().data { Data::Single(d) => d.clone(), _ => panic!() };
        let p = pre.get_flat();
        assert!(p.len() == 2);
    }

    fn rs_stub() -> std::collections::hash_map::RandomState {
        unsafe { std::mem::transmute::<(u64,u64), std::collections::hash_map::RandomState>((1u64, 2u64)) }
    }
    fn small_random_stub(shape: Shape, _min: f32, _max: f32) -> Tensor {
        match shape {
            Shape::Single(n) => Tensor::single(small_single(n)),
            Shape::Double(n,m) => Tensor::double(small_double(n,m)),
            Shape::Triple(c,h,w) => Tensor::triple(small_triple(c,h,w)),
            _ => panic!("unsupported in stub"),
        }
    }

    #[kani::proof]
    #[kani::unwind(4)]
    #[kani::stub(tensor::Tensor::random, small_random_stub)]
    #[kani::stub(std::collections::hash_map::RandomState::new, rs_stub)]
    fn net_learn() {
        let mut net = network::Network::new(Shape::Single(1));
        net.dense(1, activation::Activation::Linear, false, None);
        let x0 = Tensor::single(small_single(1)); let x1 = Tensor::single(small_single(1));
        let y0 = Tensor::single(small_single(1)); let y1 = Tensor::single(small_single(1));
        let xs = vec![&x0, &x1]; let ys = vec![&y0, &y1];
        let (tl, vl, va) = net.learn(&xs, &ys, None, 1, 2, None);
        assert!(tl.len() == 2 && vl.len() == 0 && va.len() == 0);
    }

    #[kani::proof]
    #[kani::unwind(4)]
    #[kani::stub(tensor::Tensor::random, random_stub)]
    fn net_fwd() {
        let mut net = network::Network::new(Shape::Single(2));
        net.dense(2, activation::Activation::Linear, true, None);
        net.dense(1, activation::Activation::Linear, false, None);
        let x = sym_single(2);
        let out = net.predict(&Tensor::single(x));
        assert!(out.shape == Shape::Single(1));
    }
}
