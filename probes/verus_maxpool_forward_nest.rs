use vstd::prelude::*;
use vstd::std_specs::ops::*;
use vstd::std_specs::cmp::*;
verus! {
global layout usize is size == 8;

pub axiom fn f32_cmp_obeys()
    ensures <f32 as PartialOrdSpec>::obeys_partial_cmp_spec(), <f32 as PartialEqSpec>::obeys_eq_spec();

pub uninterp spec fn f32_min_spec() -> f32;
#[verifier::external_body]
fn f32_min() -> (r: f32) ensures r == f32_min_spec() { f32::MIN }

pub struct Maxpool {
    pub kernel: (usize, usize),
    pub stride: (usize, usize),
}

pub open spec fn rect3(x: Seq<Vec<Vec<f32>>>, c: int, h: int, w: int) -> bool {
    x.len() == c && forall|i: int| 0 <= i < c ==> (#[trigger] x[i]).len() == h
        && forall|j: int| 0 <= j < h ==> (#[trigger] x[i][j]).len() == w
}
pub open spec fn rect3i(x: Seq<Vec<Vec<Vec<(usize, usize)>>>>, c: int, h: int, w: int) -> bool {
    x.len() == c && forall|i: int| 0 <= i < c ==> (#[trigger] x[i]).len() == h
        && forall|j: int| 0 <= j < h ==> (#[trigger] x[i][j]).len() == w
}

pub open spec fn gt(a: f32, b: f32) -> bool { a.partial_cmp_spec(&b) == Some(core::cmp::Ordering::Greater) }

// scan state after visiting the first n cells (row-major) of the kh x kw window at (h0, w0)
pub open spec fn scan(x: Seq<Vec<Vec<f32>>>, c: int, h0: int, w0: int, kw: int, n: int, init: (f32, (usize, usize))) -> (f32, (usize, usize))
    decreases n
{
    if n <= 0 { init } else {
        let p = scan(x, c, h0, w0, kw, n - 1, init);
        let k = (n - 1) / kw; let l = (n - 1) % kw;
        let v = x[c]@[h0 + k]@[w0 + l];
        if gt(v, p.0) { (v, ((h0 + k) as usize, (w0 + l) as usize)) } else { p }
    }
}

impl Maxpool {
    fn forward_nest(&self, x: &Vec<Vec<Vec<f32>>>, oc: usize, oh: usize, ow: usize) -> (r: (Vec<Vec<Vec<f32>>>, Vec<Vec<Vec<Vec<(usize, usize)>>>>))
        requires
            x@.len() >= 1, x@[0]@.len() >= 1, x@[0]@[0]@.len() >= 1,
            rect3(x@, x@.len() as int, x@[0]@.len() as int, x@[0]@[0]@.len() as int),
            oc == x@.len(),
            self.stride.0 >= 1, self.stride.1 >= 1, self.kernel.0 >= 1, self.kernel.1 >= 1,
            self.kernel.0 <= x@[0]@.len(), self.kernel.1 <= x@[0]@[0]@.len(),
            x@[0]@.len() < 0x8000_0000, x@[0]@[0]@.len() < 0x8000_0000, self.stride.0 < 0x8000_0000, self.stride.1 < 0x8000_0000,
            oh == (x@[0]@.len() - self.kernel.0) / (self.stride.0 as int) + 1,
            ow == (x@[0]@[0]@.len() - self.kernel.1) / (self.stride.1 as int) + 1,
        ensures
            rect3(r.0@, oc as int, oh as int, ow as int),
            rect3i(r.1@, oc as int, oh as int, ow as int),
            forall|c: int, a: int, b: int| 0 <= c < oc && 0 <= a < oh && 0 <= b < ow ==> {
                let s = scan(x@, c, a * self.stride.0, b * self.stride.1, self.kernel.1 as int, self.kernel.0 * self.kernel.1, (f32_min_spec(), (0usize, 0usize)));
                #[trigger] r.0@[c]@[a]@[b] == s.0 && r.1@[c]@[a]@[b]@.len() == 1 && r.1@[c]@[a]@[b]@[0] == s.1
            },
    {
        let (ih, iw) = (x[0].len(), x[0][0].len());
        let mut y = vec![vec![vec![0.0; ow]; oh]; oc];
        let mut max: Vec<Vec<Vec<Vec<(usize, usize)>>>> =
            vec![vec![vec![vec![(0, 0)]; ow]; oh]; oc];
        for c in 0..oc
            invariant
                ih == x@[0]@.len(), iw == x@[0]@[0]@.len(), oc == x@.len(), rect3(x@, oc as int, ih as int, iw as int),
                self.stride.0 >= 1, self.stride.1 >= 1, self.kernel.0 >= 1, self.kernel.1 >= 1, self.kernel.0 <= ih, self.kernel.1 <= iw,
                ih < 0x8000_0000, iw < 0x8000_0000, self.stride.0 < 0x8000_0000, self.stride.1 < 0x8000_0000,
                oh == (ih - self.kernel.0) / (self.stride.0 as int) + 1, ow == (iw - self.kernel.1) / (self.stride.1 as int) + 1,
                rect3(y@, oc as int, oh as int, ow as int), rect3i(max@, oc as int, oh as int, ow as int),
                forall|cc: int, a: int, b: int| 0 <= cc < c && 0 <= a < oh && 0 <= b < ow ==> {
                    let s = scan(x@, cc, a * self.stride.0, b * self.stride.1, self.kernel.1 as int, self.kernel.0 * self.kernel.1, (f32_min_spec(), (0usize, 0usize)));
                    #[trigger] y@[cc]@[a]@[b] == s.0 && max@[cc]@[a]@[b]@.len() == 1 && max@[cc]@[a]@[b]@[0] == s.1 },
        {
            let ghost mut ga: int = 0;
            let mut h = 0;
            while h < ih - self.kernel.0 + 1
                invariant
                    ih == x@[0]@.len(), iw == x@[0]@[0]@.len(), oc == x@.len(), rect3(x@, oc as int, ih as int, iw as int), c < oc,
                    self.stride.0 >= 1, self.stride.1 >= 1, self.kernel.0 >= 1, self.kernel.1 >= 1, self.kernel.0 <= ih, self.kernel.1 <= iw,
                    ih < 0x8000_0000, iw < 0x8000_0000, self.stride.0 < 0x8000_0000, self.stride.1 < 0x8000_0000,
                    oh == (ih - self.kernel.0) / (self.stride.0 as int) + 1, ow == (iw - self.kernel.1) / (self.stride.1 as int) + 1,
                    rect3(y@, oc as int, oh as int, ow as int), rect3i(max@, oc as int, oh as int, ow as int),
                    h == ga * self.stride.0, 0 <= ga <= oh, h < 0x1_0000_0000,
                    forall|cc: int, a: int, b: int| 0 <= cc < c && 0 <= a < oh && 0 <= b < ow ==> {
                        let s = scan(x@, cc, a * self.stride.0, b * self.stride.1, self.kernel.1 as int, self.kernel.0 * self.kernel.1, (f32_min_spec(), (0usize, 0usize)));
                        #[trigger] y@[cc]@[a]@[b] == s.0 && max@[cc]@[a]@[b]@.len() == 1 && max@[cc]@[a]@[b]@[0] == s.1 },
                    forall|a: int, b: int| 0 <= a < ga && 0 <= b < ow ==> {
                        let s = scan(x@, c as int, a * self.stride.0, b * self.stride.1, self.kernel.1 as int, self.kernel.0 * self.kernel.1, (f32_min_spec(), (0usize, 0usize)));
                        #[trigger] y@[c as int]@[a]@[b] == s.0 && max@[c as int]@[a]@[b]@.len() == 1 && max@[c as int]@[a]@[b]@[0] == s.1 },
                decreases 0x2_0000_0000 - h,
            {
                proof {
                    // h = ga*s <= ih-k  ==>  ga <= (ih-k)/s = oh-1
                    assert(ga <= (ih - self.kernel.0) / (self.stride.0 as int)) by (nonlinear_arith)
                        requires ga * self.stride.0 <= ih - self.kernel.0, self.stride.0 >= 1, ga >= 0;
                }
                {
                    let ghost mut gb: int = 0;
                    let mut w = 0;
                    while w < iw - self.kernel.1 + 1
                        invariant
                            ih == x@[0]@.len(), iw == x@[0]@[0]@.len(), oc == x@.len(), rect3(x@, oc as int, ih as int, iw as int), c < oc,
                            self.stride.0 >= 1, self.stride.1 >= 1, self.kernel.0 >= 1, self.kernel.1 >= 1, self.kernel.0 <= ih, self.kernel.1 <= iw,
                            ih < 0x8000_0000, iw < 0x8000_0000, self.stride.0 < 0x8000_0000, self.stride.1 < 0x8000_0000,
                            oh == (ih - self.kernel.0) / (self.stride.0 as int) + 1, ow == (iw - self.kernel.1) / (self.stride.1 as int) + 1,
                            rect3(y@, oc as int, oh as int, ow as int), rect3i(max@, oc as int, oh as int, ow as int),
                            h == ga * self.stride.0, 0 <= ga < oh, h <= ih - self.kernel.0,
                            w == gb * self.stride.1, 0 <= gb <= ow, w < 0x1_0000_0000,
                            forall|cc: int, a: int, b: int| 0 <= cc < c && 0 <= a < oh && 0 <= b < ow ==> {
                                let s = scan(x@, cc, a * self.stride.0, b * self.stride.1, self.kernel.1 as int, self.kernel.0 * self.kernel.1, (f32_min_spec(), (0usize, 0usize)));
                                #[trigger] y@[cc]@[a]@[b] == s.0 && max@[cc]@[a]@[b]@.len() == 1 && max@[cc]@[a]@[b]@[0] == s.1 },
                            forall|a: int, b: int| 0 <= a < ga && 0 <= b < ow ==> {
                                let s = scan(x@, c as int, a * self.stride.0, b * self.stride.1, self.kernel.1 as int, self.kernel.0 * self.kernel.1, (f32_min_spec(), (0usize, 0usize)));
                                #[trigger] y@[c as int]@[a]@[b] == s.0 && max@[c as int]@[a]@[b]@.len() == 1 && max@[c as int]@[a]@[b]@[0] == s.1 },
                            forall|b: int| 0 <= b < gb ==> {
                                let s = scan(x@, c as int, ga * self.stride.0, b * self.stride.1, self.kernel.1 as int, self.kernel.0 * self.kernel.1, (f32_min_spec(), (0usize, 0usize)));
                                #[trigger] y@[c as int]@[ga]@[b] == s.0 && max@[c as int]@[ga]@[b]@.len() == 1 && max@[c as int]@[ga]@[b]@[0] == s.1 },
                        decreases 0x2_0000_0000 - w,
                    {
                        proof {
                            assert(gb <= (iw - self.kernel.1) / (self.stride.1 as int)) by (nonlinear_arith)
                                requires gb * self.stride.1 <= iw - self.kernel.1, self.stride.1 >= 1, gb >= 0;
                        }
                        {
                            let mut value = f32_min();
                            let mut index = (0, 0);
                            for k in 0..self.kernel.0
                                invariant
                                    ih == x@[0]@.len(), iw == x@[0]@[0]@.len(), oc == x@.len(), rect3(x@, oc as int, ih as int, iw as int), c < oc,
                                    self.kernel.0 >= 1, self.kernel.1 >= 1, self.kernel.0 <= ih, self.kernel.1 <= iw, ih < 0x8000_0000, iw < 0x8000_0000,
                                    h <= ih - self.kernel.0, w <= iw - self.kernel.1,
                                    (value, index) == scan(x@, c as int, h as int, w as int, self.kernel.1 as int, k * self.kernel.1, (f32_min_spec(), (0usize, 0usize))),
                            {
                                for l in 0..self.kernel.1
                                    invariant
                                        ih == x@[0]@.len(), iw == x@[0]@[0]@.len(), oc == x@.len(), rect3(x@, oc as int, ih as int, iw as int), c < oc,
                                        self.kernel.0 >= 1, self.kernel.1 >= 1, self.kernel.0 <= ih, self.kernel.1 <= iw, ih < 0x8000_0000, iw < 0x8000_0000,
                                        h <= ih - self.kernel.0, w <= iw - self.kernel.1, k < self.kernel.0,
                                        (value, index) == scan(x@, c as int, h as int, w as int, self.kernel.1 as int, k * self.kernel.1 + l, (f32_min_spec(), (0usize, 0usize))),
                                {
                                    proof {
                                        f32_cmp_obeys();
                                        let n = k * self.kernel.1 + l + 1;
                                        assert((n - 1) / (self.kernel.1 as int) == k && (n - 1) % (self.kernel.1 as int) == l) by (nonlinear_arith)
                                            requires n - 1 == k * self.kernel.1 + l, 0 <= l < self.kernel.1, k >= 0;
                                    }
                                    let _dh = h + k;
                                    let _dw = w + l;
                                    if _dh < ih && _dw < iw {
                                        let _x = x[c][_dh][_dw];
                                        if _x > value {
                                            value = _x;
                                            index = (_dh, _dw);
                                        }
                                    }
                                }
                                proof {
                                    assert((k + 1) * self.kernel.1 == k * self.kernel.1 + self.kernel.1) by (nonlinear_arith);
                                }
                            }
                            let h = h / self.stride.0;
                            let w = w / self.stride.1;
                            proof {
                                assert(h == ga) by (nonlinear_arith) requires h == (ga * self.stride.0) / (self.stride.0 as int), self.stride.0 >= 1;
                                assert(w == gb) by (nonlinear_arith) requires w == (gb * self.stride.1) / (self.stride.1 as int), self.stride.1 >= 1;
                            }
                            y[c][h][w] = value;
                            max[c][h][w] = vec![index];
                        }
                        w = w + self.stride.1;
                        proof { gb = gb + 1; assert(w == gb * self.stride.1) by (nonlinear_arith) requires w == (gb - 1) * self.stride.1 + self.stride.1; }
                    }
                    proof {
                        // loop exit: w >= iw-k1+1 with w = gb*s1  ==> gb >= ow
                        assert(gb >= ow) by (nonlinear_arith)
                            requires gb * self.stride.1 >= iw - self.kernel.1 + 1, ow == (iw - self.kernel.1) / (self.stride.1 as int) + 1, self.stride.1 >= 1, iw - self.kernel.1 >= 0, gb >= 0;
                    }
                }
                h = h + self.stride.0;
                proof { ga = ga + 1; assert(h == ga * self.stride.0) by (nonlinear_arith) requires h == (ga - 1) * self.stride.0 + self.stride.0; }
            }
            proof {
                assert(ga >= oh) by (nonlinear_arith)
                    requires ga * self.stride.0 >= ih - self.kernel.0 + 1, oh == (ih - self.kernel.0) / (self.stride.0 as int) + 1, self.stride.0 >= 1, ih - self.kernel.0 >= 0, ga >= 0;
            }
        }
        (y, max)
    }
}

} // verus!
fn main() {}
