// Kani harnesses through the REAL Network::forward / predict on tiny dense networks (C17 loop connections, C16 skip values).
// Weights are symbolic small integers (Tensor::random stub), inputs likewise; the reference is built from the property
// statement with the real Dense::forward and the real tensor operations as callees.

#[cfg(kani)]
mod harnesses {
    use super::*;
    use crate::activation::Activation;
    use crate::feedback::Accumulation;
    use crate::tensor::{Shape, Tensor};

    fn smallf() -> f32 { let v: u8 = kani::any(); ((v & 3) as i8 - 1) as f32 }          // -1, 0, 1, 2
    fn small_single(n: usize) -> Vec<f32> { let mut r = Vec::with_capacity(n); let mut i = 0; while i < n { r.push(smallf()); i += 1; } r }
    fn small_double(n: usize, m: usize) -> Vec<Vec<f32>> { let mut r = Vec::with_capacity(n); let mut i = 0; while i < n { r.push(small_single(m)); i += 1; } r }
    fn small_random_stub(shape: Shape, _min: f32, _max: f32) -> Tensor {
        match shape {
            Shape::Single(n) => Tensor::single(small_single(n)),
            Shape::Double(n, m) => Tensor::double(small_double(n, m)),
            _ => panic!("unsupported in stub"),
        }
    }
    fn rs_stub() -> std::collections::hash_map::RandomState {
        unsafe { std::mem::transmute::<(u64, u64), std::collections::hash_map::RandomState>((1u64, 2u64)) }
    }
    fn dense_of(net: &Network, i: usize) -> &dense::Dense { match &net.layers[i] { Layer::Dense(d) => d, _ => panic!() } }
    fn acc_of(k: u8) -> Accumulation { match k { 0 => Accumulation::Add, 1 => Accumulation::Subtract, 2 => Accumulation::Multiply, 3 => Accumulation::Mean, _ => Accumulation::Overwrite } }
    /// the configured accumulation of y0 with the later values (statement of C16 / C17)
    fn accumulate(k: u8, y0: &Tensor, rest: &Vec<&Tensor>) -> Tensor {
        let mut r = y0.clone();
        match k {
            0 => { let mut i = 0; while i < rest.len() { r.add_inplace(rest[i]); i += 1; } }
            1 => { let mut i = 0; while i < rest.len() { r.sub_inplace(rest[i]); i += 1; } }
            2 => { let mut i = 0; while i < rest.len() { r.mul_inplace(rest[i]); i += 1; } }
            3 => { r.mean_inplace(rest); }
            _ => { r = rest[rest.len() - 1].clone(); }
        }
        r
    }
    fn same2(a: &Tensor, b: &Tensor) -> bool { let (x, y) = (a.get_flat(), b.get_flat()); x.len() == 2 && y.len() == 2 && x[0] == y[0] && x[1] == y[1] }

    // @harness probe_skip_add props=CXX tier=thorough kind=bounded timeout=600
    #[kani::proof]
    #[kani::unwind(4)]
    #[kani::stub(crate::tensor::Tensor::random, small_random_stub)]
    #[kani::stub(std::collections::hash_map::RandomState::new, rs_stub)]
    fn probe_skip_add() {
        let mut net = Network::new(Shape::Single(2));
        net.dense(2, Activation::Linear, false, None);
        net.dense(2, Activation::Linear, false, None);
        net.connect(0, 1);
        let x = Tensor::single(small_single(2));
        let out = net.predict(&x);
        let (_, h0) = dense_of(&net, 0).forward(&x);
        let mut inp = h0.clone(); inp.add_inplace(&x);
        let (_, h1) = dense_of(&net, 1).forward(&inp);
        let a = out.get_flat(); let b = h1.get_flat();
        assert!(a.len() == 2 && b.len() == 2);
        assert!(a[0] == b[0] && a[1] == b[1]);
        std::mem::forget(net);
    }
    // @harness probe_loop_overwrite props=CXX tier=thorough kind=bounded timeout=600 cbmc="--unwindset _RINvNvNtCs8xvirJzNMvV_4core3ptr25swap_nonoverlapping_bytes26swap_nonoverlapping_chunksKj8_ECscrgiVT8UQOZ_6object.0:40"
    #[kani::proof]
    #[kani::unwind(4)]
    #[kani::stub(crate::tensor::Tensor::random, small_random_stub)]
    #[kani::stub(std::collections::hash_map::RandomState::new, rs_stub)]
    fn probe_loop_overwrite() {
        let mut net = Network::new(Shape::Single(2));
        net.dense(2, Activation::Linear, false, None);
        net.set_accumulation(Accumulation::Add, Accumulation::Overwrite);
        net.loopback(0, 0, 1, std::sync::Arc::new(|x| 1.0 / x), false);
        let x = Tensor::single(small_single(2));
        let out = net.predict(&x);
        let (_, h0) = dense_of(&net, 0).forward(&x);
        let (_, h1) = dense_of(&net, 0).forward(&h0);
        let a = out.get_flat(); let b = h1.get_flat();
        assert!(a[0] == b[0] && a[1] == b[1]);
        std::mem::forget(net);
    }

    // @harness probe_loop_overwrite_u6 props=CXX tier=thorough kind=bounded timeout=600 cbmc="--unwindset _RINvNvNtCs8xvirJzNMvV_4core3ptr25swap_nonoverlapping_bytes26swap_nonoverlapping_chunksKj8_ECscrgiVT8UQOZ_6object.0:6"
    #[kani::proof]
    #[kani::unwind(4)]
    #[kani::stub(crate::tensor::Tensor::random, small_random_stub)]
    #[kani::stub(std::collections::hash_map::RandomState::new, rs_stub)]
    fn probe_loop_overwrite_u6() {
        let mut net = Network::new(Shape::Single(2));
        net.dense(2, Activation::Linear, false, None);
        net.set_accumulation(Accumulation::Add, Accumulation::Overwrite);
        net.loopback(0, 0, 1, std::sync::Arc::new(|x| 1.0 / x), false);
        let x = Tensor::single(small_single(2));
        let out = net.predict(&x);
        let (_, h0) = dense_of(&net, 0).forward(&x);
        let (_, h1) = dense_of(&net, 0).forward(&h0);
        let a = out.get_flat(); let b = h1.get_flat();
        assert!(a[0] == b[0] && a[1] == b[1]);
        std::mem::forget(net);
    }

    // @harness probe_loop_overwrite_u12 props=CXX tier=thorough kind=bounded timeout=600 cbmc="--unwindset _RINvNvNtCs8xvirJzNMvV_4core3ptr25swap_nonoverlapping_bytes26swap_nonoverlapping_chunksKj8_ECscrgiVT8UQOZ_6object.0:12"
    #[kani::proof]
    #[kani::unwind(4)]
    #[kani::stub(crate::tensor::Tensor::random, small_random_stub)]
    #[kani::stub(std::collections::hash_map::RandomState::new, rs_stub)]
    fn probe_loop_overwrite_u12() {
        let mut net = Network::new(Shape::Single(2));
        net.dense(2, Activation::Linear, false, None);
        net.set_accumulation(Accumulation::Add, Accumulation::Overwrite);
        net.loopback(0, 0, 1, std::sync::Arc::new(|x| 1.0 / x), false);
        let x = Tensor::single(small_single(2));
        let out = net.predict(&x);
        let (_, h0) = dense_of(&net, 0).forward(&x);
        let (_, h1) = dense_of(&net, 0).forward(&h0);
        let a = out.get_flat(); let b = h1.get_flat();
        assert!(a[0] == b[0] && a[1] == b[1]);
        std::mem::forget(net);
    }

    // ------------------------------------------------------------------ C17: loop connection over one dense layer
    macro_rules! loop_h {
        ($name:ident, $acc:expr, $k:expr, $inskips:expr) => {
            #[kani::proof]
            #[kani::unwind(5)]
            #[kani::stub(crate::tensor::Tensor::random, small_random_stub)]
            #[kani::stub(std::collections::hash_map::RandomState::new, rs_stub)]
            fn $name() {
                let mut net = Network::new(Shape::Single(2));
                net.dense(2, Activation::Linear, false, None);
                net.set_accumulation(Accumulation::Add, acc_of($acc));
                net.loopback(0, 0, $k, std::sync::Arc::new(|x| 1.0 / x), $inskips);
                let x = Tensor::single(small_single(2));
                let out = net.predict(&x);
                // the k+1 successive outputs of repeatedly applying layer 0 (plus its original input when in-skips are on)
                let f = dense_of(&net, 0);
                let (_, y0) = f.forward(&x);
                let mut cur = y0.clone();
                if $inskips { cur.add_inplace(&x); }
                let (_, y1) = f.forward(&cur);
                let mut cur2 = y1.clone();
                if $inskips { cur2.add_inplace(&x); }
                let (_, y2) = f.forward(&cur2);
                let rest: Vec<&Tensor> = if $k == 1 { vec![&y1] } else { vec![&y1, &y2] };
                let want = accumulate($acc, &y0, &rest);
                assert!(same2(&out, &want));
                kani::cover!(out.get_flat()[0] != 0.0);
                std::mem::forget(net);
            }
        };
    }
    // @harness c17_loop_overwrite_k1 props=C17 tier=quick kind=bounded flags="--no-overflow-checks" bound="one dense 2->2 layer, k = 1, overwrite, no in-skips; weights/inputs in -1..2" what="loop connection with overwrite = the layer applied k+1 times with shared weights" timeout=1200
    loop_h!(c17_loop_overwrite_k1, 4u8, 1usize, false);
    // @harness c17_loop_add_k2_inskips props=C17 tier=quick kind=bounded flags="--no-overflow-checks" bound="one dense 2->2 layer, k = 2, add, in-skips on" what="value passed on = sum of the k+1 successive outputs, each iteration fed output + original input" timeout=1800
    loop_h!(c17_loop_add_k2_inskips, 0u8, 2usize, true);
    // @harness c17_loop_mean_k2 props=C17 tier=thorough kind=bounded flags="--no-overflow-checks" bound="k = 2, mean, no in-skips" what="mean of the k+1 successive outputs" timeout=1800
    loop_h!(c17_loop_mean_k2, 3u8, 2usize, false);
    // @harness c17_loop_subtract_k1_inskips props=C17 tier=thorough kind=bounded flags="--no-overflow-checks" bound="k = 1, subtract, in-skips on" what="y0 - y1" timeout=1800
    loop_h!(c17_loop_subtract_k1_inskips, 1u8, 1usize, true);
    // @harness c17_loop_multiply_k2 props=C17 tier=thorough kind=bounded flags="--no-overflow-checks" bound="k = 2, multiply" what="y0 * y1 * y2" timeout=1800
    loop_h!(c17_loop_multiply_k2, 2u8, 2usize, false);
    // @harness c17_loop_overwrite_k2_inskips props=C17 tier=thorough kind=bounded flags="--no-overflow-checks" bound="k = 2, overwrite, in-skips on" what="overwrite with in-skips" timeout=1800
    loop_h!(c17_loop_overwrite_k2_inskips, 4u8, 2usize, true);
    // @harness c17_loop_add_k1 props=C17 tier=thorough kind=bounded flags="--no-overflow-checks" bound="k = 1, add" what="y0 + y1" timeout=1800
    loop_h!(c17_loop_add_k1, 0u8, 1usize, false);

    // ------------------------------------------------------------------ C16: skip connection 0 -> 1 over two dense layers
    macro_rules! skip_h {
        ($name:ident, $acc:expr) => {
            #[kani::proof]
            #[kani::unwind(5)]
            #[kani::stub(crate::tensor::Tensor::random, small_random_stub)]
            #[kani::stub(std::collections::hash_map::RandomState::new, rs_stub)]
            fn $name() {
                let mut net = Network::new(Shape::Single(2));
                net.dense(2, Activation::Linear, false, None);
                net.dense(2, Activation::Linear, false, None);
                net.set_accumulation(acc_of($acc), Accumulation::Mean);
                net.connect(0, 1);
                let x = Tensor::single(small_single(2));
                let out = net.predict(&x);
                // layer 1 processes the configured accumulation of its ordinary input with the input that was fed to layer 0
                let (_, h0) = dense_of(&net, 0).forward(&x);
                let inp = accumulate($acc, &h0, &vec![&x]);
                let (_, h1) = dense_of(&net, 1).forward(&inp);
                assert!(same2(&out, &h1));
                kani::cover!(out.get_flat()[0] != 0.0);
                std::mem::forget(net);
            }
        };
    }
    // @harness c16_skip_subtract props=C16 tier=quick kind=bounded flags="--no-overflow-checks" bound="two dense 2->2 layers, connect(0,1), subtract; weights/inputs in -1..2" what="layer b processes (ordinary input) - (input fed to layer a)" timeout=1800
    skip_h!(c16_skip_subtract, 1u8);
    // @harness c16_skip_add props=C16 tier=thorough kind=bounded flags="--no-overflow-checks" bound="two dense layers, add" what="skip values, add" timeout=1800
    skip_h!(c16_skip_add, 0u8);
    // @harness c16_skip_multiply props=C16 tier=thorough kind=bounded flags="--no-overflow-checks" bound="two dense layers, multiply" what="skip values, multiply" timeout=1800
    skip_h!(c16_skip_multiply, 2u8);
    // @harness c16_skip_mean props=C16 tier=thorough kind=bounded flags="--no-overflow-checks" bound="two dense layers, mean" what="skip values, mean" timeout=1800
    skip_h!(c16_skip_mean, 3u8);
    // @harness c16_skip_overwrite props=C16 tier=thorough kind=bounded flags="--no-overflow-checks" bound="two dense layers, overwrite" what="skip values, overwrite" timeout=1800
    skip_h!(c16_skip_overwrite, 4u8);
}
