#[path = "/repo/src/random.rs"] pub mod random;
#[path = "/repo/src/tensor.rs"] pub mod tensor;
#[path = "/repo/src/activation.rs"] pub mod activation;
#[path = "/repo/src/objective.rs"] pub mod objective;
#[path = "/repo/src/maxpool.rs"] pub mod maxpool;
#[path = "/repo/src/optimizer.rs"] pub mod optimizer;

#[cfg(kani)]
mod probes {
    use super::*;
    use tensor::{Tensor, Shape, Data};

    // C08: flat-size acceptance through the real Maxpool::create (loop-free), sizes < 2^24
    #[kani::proof]
    fn flat_size_acceptance() {
        let size: usize = kani::any();
        kani::assume(size >= 1 && size < (1usize << 24));
        let root = (size as f32).sqrt() as usize;
        let accepted = size % root == 0;            // what create() tests (panics otherwise)
        // property: accepted iff perfect square
        let mut is_square = false;
        if root * root == size { is_square = true; }
        if (root + 1) * (root + 1) == size { is_square = true; }
        if root >= 1 && (root - 1) * (root - 1) == size { is_square = true; }
        assert!(accepted == is_square);
    }

    fn ln_model(x: f32) -> f32 {
        let r: f32 = kani::any();
        if x.is_nan() || x < 0.0 { kani::assume(r.is_nan()); }
        else if x == 0.0 { kani::assume(r == f32::NEG_INFINITY); }
        else if x == f32::INFINITY { kani::assume(r == f32::INFINITY); }
        else { kani::assume(r.is_finite() && r >= -104.0 && r <= 89.0);
               kani::assume(if x == 1.0 { r == 0.0 } else if x > 1.0 { r >= 0.0 } else { r <= 0.0 }); }
        r
    }

    // C06: loss finite at the boundary, singleton tensors, domain a,p in [0,1]
    #[kani::proof]
    #[kani::unwind(3)]
    #[kani::stub(f32::ln, ln_model)]
    fn kl_loss_finite() {
        let a: f32 = kani::any(); let p: f32 = kani::any();
        kani::assume(a >= 0.0 && a <= 1.0 && p >= 0.0 && p <= 1.0);
        let f = objective::Function::create(objective::Objective::KLDivergence, None);
        let (loss, _g) = f.loss(&Tensor::single(vec![p]), &Tensor::single(vec![a]));
        assert!(loss.is_finite());
    }
    #[kani::proof]
    #[kani::unwind(3)]
    #[kani::stub(f32::ln, ln_model)]
    fn bce_loss_finite() {
        let a: f32 = kani::any(); let p: f32 = kani::any();
        kani::assume(a >= 0.0 && a <= 1.0 && p >= 0.0 && p <= 1.0);
        let f = objective::Function::create(objective::Objective::BinaryCrossEntropy, None);
        let (loss, _g) = f.loss(&Tensor::single(vec![p]), &Tensor::single(vec![a]));
        assert!(loss.is_finite());
    }

    // C03: slot isolation on SGDM state 2 layers x 1 filter x {w,b}
    #[kani::proof]
    #[kani::unwind(4)]
    fn sgdm_slot_isolation() {
        let mut opt = optimizer::SGDM::create(0.5, 0.5, 0.0, None);
        let st = |v: f32| Tensor::single(vec![v]);
        opt.validate(vec![vec![vec![st(1.0), st(2.0)]], vec![vec![st(3.0), st(4.0)]]]);
        let layer: usize = kani::any(); kani::assume(layer < 2);
        let bias: bool = kani::any();
        let mut w = Tensor::single(vec![1.0]); let mut g = Tensor::single(vec![2.0]);
        opt.update(layer, 0, bias, 2, &mut w, &mut g);
        if let optimizer::Optimizer::SGDM(_s) = &opt { /* private fields: checked from inside the module in the real harness */ }
        let wv = match &w.data { Data::Single(d) => d[0], _ => panic!() };
        // velocity of the addressed slot was layer*2 + bias + 1
        let v0 = (layer * 2 + bias as usize + 1) as f32;
        assert!(wv == 1.0 - 0.5 * (v0 * 0.5 + 2.0));
        std::mem::forget(opt);
    }
}
