// Hand-simulated slice of Network::learn (what tools/extract.py is to produce): kept statements verbatim,
// dropped: print blocks, batch loop (replaced by `loss_epoch` oracle), validate() replaced by oracle.
#[cfg(kani)]
mod slice {
    fn print_stub(_a: std::fmt::Arguments) {}

    fn learn_slice(validation: Option<i32>, epochs: i32, oracle: &[f32; 8]) -> (Vec<f32>, Vec<f32>, Vec<f32>) {
        let mut threshold: Option<i32> = None;
        if let Some(limit) = validation {
            threshold = Some(limit);
        }
        let mut train_loss = Vec::new();
        let mut val_loss = Vec::new();
        let mut val_acc = Vec::new();
        for epoch in 1..epochs + 1 {
            let loss_epoch = 0.0;
            let batches_len = 1usize;
            train_loss.push(loss_epoch / batches_len as f32);

            if let Some(_) = validation {
                let (_val_loss, _val_acc) = (oracle[(epoch - 1) as usize], 0.0f32);
                val_loss.push(_val_loss);
                val_acc.push(_val_acc);
            }

            // Check if the validation loss has not improved for the last `threshold` epochs.
            // If so, stop training.
            if let Some(threshold) = threshold {
                if epoch > threshold {
                    let history: Vec<&f32> =
                        val_loss.iter().rev().take(threshold as usize).collect();
                    let mut increasing = true;
                    for i in 0..threshold as usize - 1 {
                        if history[i] <= history[i + 1] {
                            increasing = false;
                            break;
                        }
                    }
                    if increasing {
                        break;
                    }
                }
            }
        }
        (train_loss, val_loss, val_acc)
    }

    // spec predicate from the property statement
    fn should_stop(val: &[f32], e: usize, tol: usize) -> bool {
        // e epochs recorded (val[0..e]); more than tol epochs have run; last tol losses strictly increasing
        if e <= tol { return false; }
        let mut k = e - tol;
        while k + 1 < e { if !(val[k] < val[k + 1]) { return false; } k += 1; }
        true
    }

    #[kani::proof]
    #[kani::unwind(7)]
    fn early_stopping_contract() {
        let oracle: [f32; 8] = kani::any();
        kani::assume(!oracle[0].is_nan() && !oracle[1].is_nan() && !oracle[2].is_nan() && !oracle[3].is_nan() && !oracle[4].is_nan() && !oracle[5].is_nan() && !oracle[6].is_nan() && !oracle[7].is_nan());
        let epochs: i32 = 5;
        let tol: i32 = 2;
        let with_val: bool = true;
        let (tl, vl, va) = learn_slice(if with_val { Some(tol) } else { None }, epochs, &oracle);
        let n = tl.len();
        assert!(n >= 1 && n <= epochs as usize);
        if with_val { assert!(vl.len() == n && va.len() == n); } else { assert!(vl.len() == 0 && va.len() == 0 && n == epochs as usize); }
        if with_val {
            // never continues past the first epoch at which the predicate holds; stops early only if it holds
            let mut e = 1; 
            while e < n { assert!(!should_stop(&oracle, e, tol as usize)); e += 1; }
            if n < epochs as usize { assert!(should_stop(&oracle, n, tol as usize)); }
            else { /* ran to the end: fine either way */ }
            for i in 0..n { assert!(vl[i].to_bits() == oracle[i].to_bits()); }
        }
        kani::cover!(with_val && n < epochs as usize);
        kani::cover!(with_val && n == epochs as usize && epochs > tol);
    }
}
