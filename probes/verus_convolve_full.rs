use vstd::prelude::*;
use vstd::std_specs::ops::*;
verus! {

pub broadcast axiom fn f32_add_total(a: f32, b: f32) ensures #[trigger] a.add_req(b);
pub broadcast axiom fn f32_mul_total(a: f32, b: f32) ensures #[trigger] a.mul_req(b);
pub axiom fn f32_obeys()
    ensures <f32 as AddSpec>::obeys_add_spec(), <f32 as MulSpec>::obeys_mul_spec();

pub struct Convolution {
    pub stride: (usize, usize),
    pub padding: (usize, usize),
    pub dilation: (usize, usize),
}

pub open spec fn rect3(x: Seq<Vec<Vec<f32>>>, c: int, h: int, w: int) -> bool {
    x.len() == c && forall|i: int| 0 <= i < c ==> (#[trigger] x[i]).len() == h
        && forall|j: int| 0 <= j < h ==> (#[trigger] x[i][j]).len() == w
}
pub open spec fn rect4(k: Seq<&Vec<Vec<Vec<f32>>>>, f: int, c: int, h: int, w: int) -> bool {
    k.len() == f && forall|i: int| 0 <= i < f ==> rect3((#[trigger] k[i])@, c, h, w)
}

// term contributed by tap (c,h,w) to output cell (f,a,b); None if the tap is out of range
pub open spec fn tap(s: Convolution, x: Seq<Vec<Vec<f32>>>, k: Seq<&Vec<Vec<Vec<f32>>>>, f: int, a: int, b: int, c: int, h: int, w: int, ih: int, iw: int) -> Option<f32> {
    let hh = a * s.stride.0 + h * s.dilation.0;
    let ww = b * s.stride.1 + w * s.dilation.1;
    if hh < ih && ww < iw { Some(k[f]@[c]@[h]@[w].mul_spec(x[c]@[hh]@[ww])) } else { None }
}
pub open spec fn acc(sum: f32, t: Option<f32>) -> f32 { match t { Some(v) => sum.add_spec(v), None => sum } }

// fold over w in [0, n)
pub open spec fn fold_w(s: Convolution, x: Seq<Vec<Vec<f32>>>, k: Seq<&Vec<Vec<Vec<f32>>>>, f: int, a: int, b: int, c: int, h: int, n: int, ih: int, iw: int, init: f32) -> f32
    decreases n
{ if n <= 0 { init } else { acc(fold_w(s, x, k, f, a, b, c, h, n - 1, ih, iw, init), tap(s, x, k, f, a, b, c, h, n - 1, ih, iw)) } }
pub open spec fn fold_h(s: Convolution, x: Seq<Vec<Vec<f32>>>, k: Seq<&Vec<Vec<Vec<f32>>>>, f: int, a: int, b: int, c: int, n: int, kw: int, ih: int, iw: int, init: f32) -> f32
    decreases n
{ if n <= 0 { init } else { fold_w(s, x, k, f, a, b, c, n - 1, kw, ih, iw, fold_h(s, x, k, f, a, b, c, n - 1, kw, ih, iw, init)) } }
pub open spec fn fold_c(s: Convolution, x: Seq<Vec<Vec<f32>>>, k: Seq<&Vec<Vec<Vec<f32>>>>, f: int, a: int, b: int, n: int, kh: int, kw: int, ih: int, iw: int, init: f32) -> f32
    decreases n
{ if n <= 0 { init } else { fold_h(s, x, k, f, a, b, n - 1, kh, kw, ih, iw, fold_c(s, x, k, f, a, b, n - 1, kh, kw, ih, iw, init)) } }

pub open spec fn cell(s: Convolution, x: Seq<Vec<Vec<f32>>>, k: Seq<&Vec<Vec<Vec<f32>>>>, f: int, a: int, b: int) -> f32 {
    fold_c(s, x, k, f, a, b, k[0]@.len() as int, k[0]@[0]@.len() as int, k[0]@[0]@[0]@.len() as int, x[0]@.len() as int, x[0]@[0]@.len() as int, 0.0f32)
}

impl Convolution {
    fn convolve(
        &self,
        x: &Vec<Vec<Vec<f32>>>,
        kernels: &Vec<&Vec<Vec<Vec<f32>>>>,
    ) -> (y: Vec<Vec<Vec<f32>>>)
        requires
            x@.len() >= 1, x@[0]@.len() >= 1, x@[0]@[0]@.len() >= 1,
            rect3(x@, x@.len() as int, x@[0]@.len() as int, x@[0]@[0]@.len() as int),
            kernels@.len() >= 1, kernels@[0]@.len() >= 1, kernels@[0]@[0]@.len() >= 1, kernels@[0]@[0]@[0]@.len() >= 1,
            rect4(kernels@, kernels@.len() as int, kernels@[0]@.len() as int, kernels@[0]@[0]@.len() as int, kernels@[0]@[0]@[0]@.len() as int),
            kernels@[0]@.len() <= x@.len(),
            self.stride.0 >= 1, self.stride.1 >= 1,
            (kernels@[0]@[0]@.len() - 1) * self.dilation.0 + 1 <= x@[0]@.len(),
            (kernels@[0]@[0]@[0]@.len() - 1) * self.dilation.1 + 1 <= x@[0]@[0]@.len(),
            x@[0]@.len() < 0x8000_0000, x@[0]@[0]@.len() < 0x8000_0000,
            self.stride.0 < 0x8000_0000, self.stride.1 < 0x8000_0000,
            self.dilation.0 < 0x8000_0000, self.dilation.1 < 0x8000_0000,
            kernels@[0]@[0]@.len() < 0x8000_0000, kernels@[0]@[0]@[0]@.len() < 0x8000_0000,
        ensures
            rect3(y@, kernels@.len() as int,
                (x@[0]@.len() - (kernels@[0]@[0]@.len() - 1) * self.dilation.0 - 1) / (self.stride.0 as int) + 1,
                (x@[0]@[0]@.len() - (kernels@[0]@[0]@[0]@.len() - 1) * self.dilation.1 - 1) / (self.stride.1 as int) + 1),
            forall|f: int, a: int, b: int| 0 <= f < y@.len() && 0 <= a < y@[f]@.len() && 0 <= b < y@[f]@[a]@.len()
                ==> y@[f]@[a]@[b] == cell(*self, x@, kernels@, f, a, b),
    {
        broadcast use {f32_add_total, f32_mul_total};
        proof { f32_obeys(); }
        let (ih, iw) = (x[0].len(), x[0][0].len());
        let (kf, kc, kh, kw) = (
            kernels.len(),
            kernels[0].len(),
            kernels[0][0].len(),
            kernels[0][0][0].len(),
        );

        // Defining the output dimensions and vector.
        let oh = (ih - (kh - 1) * self.dilation.0 - 1) / self.stride.0 + 1;
        let ow = (iw - (kw - 1) * self.dilation.1 - 1) / self.stride.1 + 1;
        let mut y = vec![vec![vec![0.0; ow]; oh]; kf];

        proof {
            assert((oh - 1) * self.stride.0 <= ih - (kh - 1) * self.dilation.0 - 1) by (nonlinear_arith)
                requires oh - 1 == (ih - (kh - 1) * self.dilation.0 - 1) / (self.stride.0 as int), self.stride.0 >= 1, ih - (kh - 1) * self.dilation.0 - 1 >= 0;
            assert((ow - 1) * self.stride.1 <= iw - (kw - 1) * self.dilation.1 - 1) by (nonlinear_arith)
                requires ow - 1 == (iw - (kw - 1) * self.dilation.1 - 1) / (self.stride.1 as int), self.stride.1 >= 1, iw - (kw - 1) * self.dilation.1 - 1 >= 0;
        }

        // Convolving the input with the kernels.
        for filter in 0..kf
            invariant
                ih == x@[0]@.len(), iw == x@[0]@[0]@.len(), kf == kernels@.len(), kc == kernels@[0]@.len(), kh == kernels@[0]@[0]@.len(), kw == kernels@[0]@[0]@[0]@.len(),
                rect3(x@, x@.len() as int, ih as int, iw as int), rect4(kernels@, kf as int, kc as int, kh as int, kw as int), kc <= x@.len(),
                (oh - 1) * self.stride.0 <= ih - (kh - 1) * self.dilation.0 - 1, (ow - 1) * self.stride.1 <= iw - (kw - 1) * self.dilation.1 - 1,
                ih < 0x8000_0000, iw < 0x8000_0000, kh >= 1, kw >= 1, kh < 0x8000_0000, kw < 0x8000_0000,
                self.stride.0 < 0x8000_0000, self.stride.1 < 0x8000_0000, self.dilation.0 < 0x8000_0000, self.dilation.1 < 0x8000_0000,
                (kh - 1) * self.dilation.0 + 1 <= ih, (kw - 1) * self.dilation.1 + 1 <= iw,
                rect3(y@, kf as int, oh as int, ow as int),
                forall|f: int, a: int, b: int| 0 <= f < filter && 0 <= a < oh && 0 <= b < ow ==> y@[f]@[a]@[b] == cell(*self, x@, kernels@, f, a, b),
        {
            for height in 0..oh
                invariant
                ih == x@[0]@.len(), iw == x@[0]@[0]@.len(), kf == kernels@.len(), kc == kernels@[0]@.len(), kh == kernels@[0]@[0]@.len(), kw == kernels@[0]@[0]@[0]@.len(),
                rect3(x@, x@.len() as int, ih as int, iw as int), rect4(kernels@, kf as int, kc as int, kh as int, kw as int), kc <= x@.len(),
                (oh - 1) * self.stride.0 <= ih - (kh - 1) * self.dilation.0 - 1, (ow - 1) * self.stride.1 <= iw - (kw - 1) * self.dilation.1 - 1,
                ih < 0x8000_0000, iw < 0x8000_0000, kh >= 1, kw >= 1, kh < 0x8000_0000, kw < 0x8000_0000,
                self.stride.0 < 0x8000_0000, self.stride.1 < 0x8000_0000, self.dilation.0 < 0x8000_0000, self.dilation.1 < 0x8000_0000,
                (kh - 1) * self.dilation.0 + 1 <= ih, (kw - 1) * self.dilation.1 + 1 <= iw,
                    rect3(y@, kf as int, oh as int, ow as int), filter < kf,
                    forall|f: int, a: int, b: int| 0 <= f < filter && 0 <= a < oh && 0 <= b < ow ==> y@[f]@[a]@[b] == cell(*self, x@, kernels@, f, a, b),
                    forall|a: int, b: int| 0 <= a < height && 0 <= b < ow ==> y@[filter as int]@[a]@[b] == cell(*self, x@, kernels@, filter as int, a, b),
            {
                for width in 0..ow
                    invariant
                ih == x@[0]@.len(), iw == x@[0]@[0]@.len(), kf == kernels@.len(), kc == kernels@[0]@.len(), kh == kernels@[0]@[0]@.len(), kw == kernels@[0]@[0]@[0]@.len(),
                rect3(x@, x@.len() as int, ih as int, iw as int), rect4(kernels@, kf as int, kc as int, kh as int, kw as int), kc <= x@.len(),
                (oh - 1) * self.stride.0 <= ih - (kh - 1) * self.dilation.0 - 1, (ow - 1) * self.stride.1 <= iw - (kw - 1) * self.dilation.1 - 1,
                ih < 0x8000_0000, iw < 0x8000_0000, kh >= 1, kw >= 1, kh < 0x8000_0000, kw < 0x8000_0000,
                self.stride.0 < 0x8000_0000, self.stride.1 < 0x8000_0000, self.dilation.0 < 0x8000_0000, self.dilation.1 < 0x8000_0000,
                (kh - 1) * self.dilation.0 + 1 <= ih, (kw - 1) * self.dilation.1 + 1 <= iw,
                        rect3(y@, kf as int, oh as int, ow as int), filter < kf, height < oh,
                        forall|f: int, a: int, b: int| 0 <= f < filter && 0 <= a < oh && 0 <= b < ow ==> y@[f]@[a]@[b] == cell(*self, x@, kernels@, f, a, b),
                        forall|a: int, b: int| 0 <= a < height && 0 <= b < ow ==> y@[filter as int]@[a]@[b] == cell(*self, x@, kernels@, filter as int, a, b),
                        forall|b: int| 0 <= b < width ==> y@[filter as int]@[height as int]@[b] == cell(*self, x@, kernels@, filter as int, height as int, b),
                {
                    let mut sum = 0.0;
                    proof {
                        assert(height * self.stride.0 <= (oh - 1) * self.stride.0) by (nonlinear_arith) requires height <= oh - 1, self.stride.0 >= 0;
                        assert(width * self.stride.1 <= (ow - 1) * self.stride.1) by (nonlinear_arith) requires width <= ow - 1, self.stride.1 >= 0;
                    }
                    for c in 0..kc
                        invariant
                ih == x@[0]@.len(), iw == x@[0]@[0]@.len(), kf == kernels@.len(), kc == kernels@[0]@.len(), kh == kernels@[0]@[0]@.len(), kw == kernels@[0]@[0]@[0]@.len(),
                rect3(x@, x@.len() as int, ih as int, iw as int), rect4(kernels@, kf as int, kc as int, kh as int, kw as int), kc <= x@.len(),
                (oh - 1) * self.stride.0 <= ih - (kh - 1) * self.dilation.0 - 1, (ow - 1) * self.stride.1 <= iw - (kw - 1) * self.dilation.1 - 1,
                ih < 0x8000_0000, iw < 0x8000_0000, kh >= 1, kw >= 1, kh < 0x8000_0000, kw < 0x8000_0000,
                self.stride.0 < 0x8000_0000, self.stride.1 < 0x8000_0000, self.dilation.0 < 0x8000_0000, self.dilation.1 < 0x8000_0000,
                (kh - 1) * self.dilation.0 + 1 <= ih, (kw - 1) * self.dilation.1 + 1 <= iw,
                            sum == fold_c(*self, x@, kernels@, filter as int, height as int, width as int, c as int, kh as int, kw as int, ih as int, iw as int, 0.0f32),
                            filter < kf, height < oh, width < ow,
                            height * self.stride.0 <= ih - (kh - 1) * self.dilation.0 - 1,
                            width * self.stride.1 <= iw - (kw - 1) * self.dilation.1 - 1,
                    {
                        for h in 0..kh
                            invariant
                ih == x@[0]@.len(), iw == x@[0]@[0]@.len(), kf == kernels@.len(), kc == kernels@[0]@.len(), kh == kernels@[0]@[0]@.len(), kw == kernels@[0]@[0]@[0]@.len(),
                rect3(x@, x@.len() as int, ih as int, iw as int), rect4(kernels@, kf as int, kc as int, kh as int, kw as int), kc <= x@.len(),
                (oh - 1) * self.stride.0 <= ih - (kh - 1) * self.dilation.0 - 1, (ow - 1) * self.stride.1 <= iw - (kw - 1) * self.dilation.1 - 1,
                ih < 0x8000_0000, iw < 0x8000_0000, kh >= 1, kw >= 1, kh < 0x8000_0000, kw < 0x8000_0000,
                self.stride.0 < 0x8000_0000, self.stride.1 < 0x8000_0000, self.dilation.0 < 0x8000_0000, self.dilation.1 < 0x8000_0000,
                (kh - 1) * self.dilation.0 + 1 <= ih, (kw - 1) * self.dilation.1 + 1 <= iw,
                                sum == fold_h(*self, x@, kernels@, filter as int, height as int, width as int, c as int, h as int, kw as int, ih as int, iw as int,
                                    fold_c(*self, x@, kernels@, filter as int, height as int, width as int, c as int, kh as int, kw as int, ih as int, iw as int, 0.0f32)),
                                filter < kf, height < oh, width < ow, c < kc,
                                height * self.stride.0 <= ih - (kh - 1) * self.dilation.0 - 1,
                                width * self.stride.1 <= iw - (kw - 1) * self.dilation.1 - 1,
                        {
                            for w in 0..kw
                                invariant
                ih == x@[0]@.len(), iw == x@[0]@[0]@.len(), kf == kernels@.len(), kc == kernels@[0]@.len(), kh == kernels@[0]@[0]@.len(), kw == kernels@[0]@[0]@[0]@.len(),
                rect3(x@, x@.len() as int, ih as int, iw as int), rect4(kernels@, kf as int, kc as int, kh as int, kw as int), kc <= x@.len(),
                (oh - 1) * self.stride.0 <= ih - (kh - 1) * self.dilation.0 - 1, (ow - 1) * self.stride.1 <= iw - (kw - 1) * self.dilation.1 - 1,
                ih < 0x8000_0000, iw < 0x8000_0000, kh >= 1, kw >= 1, kh < 0x8000_0000, kw < 0x8000_0000,
                self.stride.0 < 0x8000_0000, self.stride.1 < 0x8000_0000, self.dilation.0 < 0x8000_0000, self.dilation.1 < 0x8000_0000,
                (kh - 1) * self.dilation.0 + 1 <= ih, (kw - 1) * self.dilation.1 + 1 <= iw,
                                    sum == fold_w(*self, x@, kernels@, filter as int, height as int, width as int, c as int, h as int, w as int, ih as int, iw as int,
                                        fold_h(*self, x@, kernels@, filter as int, height as int, width as int, c as int, h as int, kw as int, ih as int, iw as int,
                                            fold_c(*self, x@, kernels@, filter as int, height as int, width as int, c as int, kh as int, kw as int, ih as int, iw as int, 0.0f32))),
                                    filter < kf, height < oh, width < ow, c < kc, h < kh,
                                    height * self.stride.0 <= ih - (kh - 1) * self.dilation.0 - 1,
                                    width * self.stride.1 <= iw - (kw - 1) * self.dilation.1 - 1,
                            {
                                broadcast use {f32_add_total, f32_mul_total};
                                proof {
                                    f32_obeys();
                                    assert(h * self.dilation.0 <= (kh - 1) * self.dilation.0) by (nonlinear_arith) requires h <= kh - 1, self.dilation.0 >= 0;
                                    assert(w * self.dilation.1 <= (kw - 1) * self.dilation.1) by (nonlinear_arith) requires w <= kw - 1, self.dilation.1 >= 0;
                                }
                                // let _h = height * self.stride.0 + h;
                                let _h = height * self.stride.0 + h * self.dilation.0;
                                let _w = width * self.stride.1 + w * self.dilation.1;
                                if _h < ih && _w < iw {
                                    sum = sum + kernels[filter][c][h][w] * x[c][_h][_w];
                                }
                            }
                        }
                    }
                    y[filter][height][width] = sum;
                }
            }
        }

        y
    }
}

} // verus!
fn main() {}
