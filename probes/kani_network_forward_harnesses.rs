// appended to a sequentialised mirror of /repo/src/network.rs (see DESIGN §3.1)
#[cfg(kani)]
mod verif_net {
    use super::*;
    use crate::tensor::{Tensor, Shape, Data};
    use crate::activation::Activation;

    fn smallf() -> f32 { let v: u8 = kani::any(); ((v & 3) as i8 - 1) as f32 }
    fn small_single(n: usize) -> Vec<f32> { let mut r = Vec::with_capacity(n); for _ in 0..n { r.push(smallf()); } r }
    fn small_double(n: usize, m: usize) -> Vec<Vec<f32>> { let mut r = Vec::with_capacity(n); for _ in 0..n { r.push(small_single(m)); } r }
    fn small_random_stub(shape: Shape, _min: f32, _max: f32) -> Tensor {
        match shape {
            Shape::Single(n) => Tensor::single(small_single(n)),
            Shape::Double(n,m) => Tensor::double(small_double(n,m)),
            _ => panic!("unsupported in stub"),
        }
    }
    fn rs_stub() -> std::collections::hash_map::RandomState {
        unsafe { std::mem::transmute::<(u64,u64), std::collections::hash_map::RandomState>((1u64, 2u64)) }
    }
    fn dense_of(net: &Network, i: usize) -> &dense::Dense { match &net.layers[i] { Layer::Dense(d) => d, _ => panic!() } }

    #[kani::proof]
    #[kani::unwind(4)]
    #[kani::stub(tensor::Tensor::random, small_random_stub)]
    #[kani::stub(std::collections::hash_map::RandomState::new, rs_stub)]
    fn skip_add_forward() {
        let mut net = Network::new(Shape::Single(2));
        net.dense(2, Activation::Linear, false, None);
        net.dense(2, Activation::Linear, false, None);
        net.connect(0, 1);
        let x = Tensor::single(small_single(2));
        let out = net.predict(&x);
        // reference from the statement: layer 1 processes (ordinary input) + (input fed to layer 0)
        let (_, h0) = dense_of(&net, 0).forward(&x);
        let mut inp = h0.clone(); inp.add_inplace(&x);
        let (_, h1) = dense_of(&net, 1).forward(&inp);
        let a = out.get_flat(); let b = h1.get_flat();
        assert!(a.len() == 2 && b.len() == 2);
        assert!(a[0] == b[0] && a[1] == b[1]);
        std::mem::forget(net);
    }

    #[kani::proof]
    #[kani::unwind(4)]
    #[kani::stub(tensor::Tensor::random, small_random_stub)]
    #[kani::stub(std::collections::hash_map::RandomState::new, rs_stub)]
    fn loopback_overwrite_forward() {
        let mut net = Network::new(Shape::Single(2));
        net.dense(2, Activation::Linear, false, None);
        net.set_accumulation(feedback::Accumulation::Add, feedback::Accumulation::Overwrite);
        net.loopback(0, 0, 1, std::sync::Arc::new(|x| 1.0 / x), false);
        let x = Tensor::single(small_single(2));
        let out = net.predict(&x);
        let (_, h0) = dense_of(&net, 0).forward(&x);
        let (_, h1) = dense_of(&net, 0).forward(&h0);
        let a = out.get_flat(); let b = h1.get_flat();
        assert!(a[0] == b[0] && a[1] == b[1]);
        std::mem::forget(net);
    }

    // region of validate(): prologue, verbatim
    fn validate_prologue(layers: &mut Vec<Layer>) -> bool {
        let mut training: bool = false;
        for layer in layers {
            match layer {
                Layer::Dense(layer) => {
                    if layer.training && !training {
                        training = true;
                    } else {
                        break;
                    }
                    layer.training = false
                }
                Layer::Convolution(layer) => layer.training = false,
                Layer::Deconvolution(layer) => layer.training = false,
                Layer::Feedback(feedback) => feedback.training(false),
                _ => (),
            }
        }
        training
    }

    #[kani::proof]
    #[kani::unwind(4)]
    #[kani::stub(tensor::Tensor::random, small_random_stub)]
    #[kani::stub(std::collections::hash_map::RandomState::new, rs_stub)]
    fn validate_prologue_clears_all() {
        let mut net = Network::new(Shape::Single(1));
        let n: u8 = kani::any(); kani::assume(n >= 1 && n <= 3);
        for _ in 0..n { net.dense(1, Activation::Linear, false, None); }
        for l in net.layers.iter_mut() { if let Layer::Dense(d) = l { d.training = true; } }
        let _ = validate_prologue(&mut net.layers);
        for l in net.layers.iter() { if let Layer::Dense(d) = l { assert!(!d.training); } }
        std::mem::forget(net);
    }
}
