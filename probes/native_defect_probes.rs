#![allow(dead_code, unused)]
#[path = "/repo/src/random.rs"] pub mod random;
#[path = "/repo/src/tensor.rs"] pub mod tensor;
#[path = "/repo/src/activation.rs"] pub mod activation;
#[path = "/repo/src/objective.rs"] pub mod objective;
#[path = "/repo/src/optimizer.rs"] pub mod optimizer;
#[path = "/repo/src/dense.rs"] pub mod dense;
#[path = "/repo/src/convolution.rs"] pub mod convolution;
#[path = "/repo/src/deconvolution.rs"] pub mod deconvolution;
#[path = "/repo/src/maxpool.rs"] pub mod maxpool;
#[path = "/repo/src/feedback.rs"] pub mod feedback;
#[path = "/repo/src/network.rs"] pub mod network;
use tensor::{Tensor, Shape, Data};
use activation::Activation;

fn lcg(s: &mut u64) -> f32 { *s = s.wrapping_mul(6364136223846793005).wrapping_add(1442695040888963407); (((*s >> 33) % 9) as i32 - 4) as f32 }
fn rt(c: usize, h: usize, w: usize, s: &mut u64) -> Vec<Vec<Vec<f32>>> { (0..c).map(|_| (0..h).map(|_| (0..w).map(|_| lcg(s)).collect()).collect()).collect() }

fn conv_fd(ic: usize, ih: usize, iw: usize, f: usize, k: (usize,usize), st: (usize,usize), p: (usize,usize), d: (usize,usize)) -> (f32, f32) {
    let mut s = 42u64;
    let mut layer = convolution::Convolution::create(Shape::Triple(ic,ih,iw), f, &Activation::Linear, k, st, p, d, None);
    for kk in layer.kernels.iter_mut() { *kk = Tensor::triple(rt(ic,k.0,k.1,&mut s)); }
    let x = rt(ic,ih,iw,&mut s);
    let xt = Tensor::triple(x.clone());
    let (pre, _) = layer.forward(&xt);
    let (oc, oh, ow) = match pre.shape { Shape::Triple(a,b,c) => (a,b,c), _ => panic!() };
    let g = rt(oc,oh,ow,&mut s);
    let gt = Tensor::triple(g.clone());
    let (ig, kg, _) = layer.backward(&gt, &xt, &pre);
    let obj = |layer: &convolution::Convolution, x: &Vec<Vec<Vec<f32>>>| -> f32 {
        let (pre,_) = layer.forward(&Tensor::triple(x.clone()));
        let y = match &pre.data { Data::Triple(y) => y.clone(), _ => panic!() };
        let mut t = 0.0; for a in 0..oc { for b in 0..oh { for c in 0..ow { t += y[a][b][c]*g[a][b][c]; }}} t };
    let base = obj(&layer, &x);
    let mut kerr = 0.0f32; let mut ierr = 0.0f32;
    let kgd = match &kg.data { Data::Quadruple(q) => q.clone(), _ => panic!() };
    for ff in 0..f { for c in 0..ic { for i in 0..k.0 { for j in 0..k.1 {
        let mut l2 = layer.clone();
        if let Data::Triple(kk) = &mut l2.kernels[ff].data { kk[c][i][j] += 1.0; }
        let fd = obj(&l2, &x) - base;
        kerr = kerr.max((fd - kgd[ff][c][i][j]).abs());
    }}}}
    let igd = match &ig.data { Data::Triple(q) => q.clone(), _ => panic!() };
    if igd.len() != ic || igd[0].len() != ih || igd[0][0].len() != iw { return (kerr, f32::INFINITY); }
    for c in 0..ic { for i in 0..ih { for j in 0..iw {
        let mut x2 = x.clone(); x2[c][i][j] += 1.0;
        let fd = obj(&layer, &x2) - base;
        ierr = ierr.max((fd - igd[c][i][j]).abs());
    }}}
    (kerr, ierr)
}


fn t<F: FnOnce() -> String + std::panic::UnwindSafe>(name: &str, f: F) {
    match std::panic::catch_unwind(f) { Ok(v) => println!("{name}: {v}"), Err(e) => println!("{name}: PANIC {:?}", e.downcast_ref::<String>().cloned().or(e.downcast_ref::<&str>().map(|s| s.to_string()))) }
}
fn main() {
    std::panic::set_hook(Box::new(|_| {}));
    t("maxpool flat vs triple", || {
        let mp = maxpool::Maxpool::create(Shape::Triple(1,4,4), (2,2), (2,2));
        let mut s = 1u64; let x = rt(1,4,4,&mut s);
        let a = mp.forward(&Tensor::triple(x.clone())).0.get_flat();
        let flat: Vec<f32> = x.iter().flatten().flatten().cloned().collect();
        let b = mp.forward(&Tensor::single(flat)).0.get_flat();
        format!("{:?} vs {:?}", a, b)
    });
    t("KL zero target", || { let f = objective::Function::create(objective::Objective::KLDivergence, None); let (l,g) = f.loss(&Tensor::single(vec![0.5,0.5]), &Tensor::single(vec![0.0,1.0])); format!("{l} {:?}", g.get_flat()) });
    t("BCE boundary", || { let f = objective::Function::create(objective::Objective::BinaryCrossEntropy, None); let (l,g) = f.loss(&Tensor::single(vec![0.0,1.0,1.0,0.0]), &Tensor::single(vec![0.0,1.0,0.0,1.0])); format!("{l} {:?}", g.get_flat()) });
    t("CE boundary", || { let f = objective::Function::create(objective::Objective::CrossEntropy, None); let (l,g) = f.loss(&Tensor::single(vec![0.0,1.0]), &Tensor::single(vec![1.0,0.0])); format!("{l} {:?}", g.get_flat()) });
    t("shuffle seeds", || { let mut bad = Vec::new(); for seed in 0..3_000_000u64 { let r = std::panic::catch_unwind(|| { let mut g = random::Generator::create(seed); let mut v = vec![0usize,1,2]; g.shuffle(&mut v); }); if r.is_err() { bad.push(seed); if bad.len()>3 {break;} } } format!("{:?}", bad) });
    t("generate == max state", || { let mut g = random::Generator::create(0); let m = 2147483647u64; // find cur with ratio 1.0
        let cur = 2147483600u64; let inv = { // a^-1 mod m
            let mut r=1u128; let mut b=48271u128; let mut e=(m-2) as u128; let mm=m as u128; while e>0 { if e&1==1 { r=r*b%mm;} b=b*b%mm; e>>=1;} r as u64 };
        let seed = ((cur as u128 * inv as u128) % m as u128) as u64;
        let mut g = random::Generator::create(seed); let r = g.generate(0.0, 3.0); format!("seed {seed} -> {r}") });
    t("big seed", || { let mut g = random::Generator::create(1_700_000_000_000_000_000); format!("{}", g.generate(0.0,1.0)) });
    t("conv create Single(6)", || { let c = convolution::Convolution::create(Shape::Single(6), 1, &Activation::Linear, (1,1),(1,1),(0,0),(1,1),None); format!("{} -> {}", c.inputs, c.outputs) });
    t("conv create Single(16785409)", || { let c = maxpool::Maxpool::create(Shape::Single(16785409), (1,1),(1,1)); format!("{} -> {}", c.inputs, c.outputs) });
    t("deconv ih=1 s=1 p=1 k=3", || { let mut s=3u64; let c = deconvolution::Deconvolution::create(Shape::Triple(1,1,1), 1, &Activation::Linear, (3,3),(1,1),(1,1),None); let (pre,_) = c.forward(&Tensor::triple(rt(1,1,1,&mut s))); format!("{} produced {}", c.outputs, pre.shape) });
    t("connect dup", || { let mut n = network::Network::new(Shape::Single(2)); for _ in 0..4 { n.dense(2, Activation::Linear, false, None);} n.connect(0,2); n.connect(1,2); format!("{:?}", n.connect) });
    t("connect chain", || { let mut n = network::Network::new(Shape::Single(2)); for _ in 0..4 { n.dense(2, Activation::Linear, false, None);} n.connect(0,1); n.connect(1,2); format!("{:?}", n.connect) });
    t("dropout leak in learn-validate", || {
        let mk = |drop: Option<f32>| { let mut n = network::Network::new(Shape::Single(2)); n.dense(3, Activation::Linear, true, None); n.dense(2, Activation::Linear, true, drop); 
            if let network::Layer::Dense(l) = &mut n.layers[0] { l.weights = Tensor::double(vec![vec![1.0,2.0],vec![3.0,4.0],vec![5.0,6.0]]); l.bias = Some(Tensor::single(vec![0.1,0.2,0.3])); }
            if let network::Layer::Dense(l) = &mut n.layers[1] { l.weights = Tensor::double(vec![vec![1.0,-2.0,0.5],vec![0.3,0.4,-1.0]]); l.bias = Some(Tensor::single(vec![0.1,0.2])); }
            n.set_optimizer(optimizer::SGD::create(0.0001, None)); n };
        let x = Tensor::single(vec![1.0, 2.0]); let y = Tensor::single(vec![0.5, 0.5]);
        let mut a = mk(Some(0.9)); let (_, vl, _) = a.learn(&vec![&x], &vec![&y], Some((&vec![&x], &vec![&y], 5)), 1, 1, None);
        let (l2, _) = a.validate(&[&x], &[&y], 1e-6);
        format!("val loss during learn {:?} vs validate after {}", vl, l2)
    });
    t("rmsprop centered const grad", || {
        let mut o = optimizer::RMSprop::create(0.01, 0.99, 1e-8, None, None, true);
        o.validate(vec![vec![vec![Tensor::single(vec![0.0])]]]);
        let mut w = Tensor::single(vec![1.0]); let mut first_nan = 0;
        for step in 1..5000 { let mut g = Tensor::single(vec![0.3]); o.update(0,0,false,step,&mut w,&mut g); if w.get_flat()[0].is_nan() { first_nan = step; break; } }
        format!("first NaN at step {first_nan}, w={:?}", w.get_flat())
    });
    t("dense->conv flat reshape", || { let mut n = network::Network::new(Shape::Single(4)); n.dense(9, Activation::Linear, false, None); n.convolution(1,(2,2),(1,1),(0,0),(1,1),Activation::Linear,None); n.dense(2, Activation::Linear, false, None); let o = n.predict(&Tensor::single(vec![1.0,2.0,3.0,4.0])); format!("{}", o.shape) });
}
