use vstd::prelude::*;
use vstd::std_specs::ops::*;
verus! {

pub broadcast axiom fn f32_add_total(a: f32, b: f32) ensures #[trigger] a.add_req(b);
pub broadcast axiom fn f32_sub_total(a: f32, b: f32) ensures #[trigger] a.sub_req(b);
pub broadcast axiom fn f32_mul_total(a: f32, b: f32) ensures #[trigger] a.mul_req(b);
pub broadcast axiom fn f32_div_total(a: f32, b: f32) ensures #[trigger] a.div_req(b);
pub broadcast axiom fn f32_neg_total(a: f32) ensures #[trigger] a.neg_req();
pub axiom fn f32_obeys()
    ensures <f32 as AddSpec>::obeys_add_spec(), <f32 as SubSpec>::obeys_sub_spec(), <f32 as MulSpec>::obeys_mul_spec(), <f32 as DivSpec>::obeys_div_spec(), <f32 as NegSpec>::obeys_neg_spec();

pub uninterp spec fn f32_exp_spec(a: f32) -> f32;
pub uninterp spec fn f32_max_spec(a: f32, b: f32) -> f32;
pub uninterp spec fn f32_abs_spec(a: f32) -> f32;
pub uninterp spec fn f32_ln_spec(a: f32) -> f32;
pub uninterp spec fn f32_clamp_spec(a: f32, lo: f32, hi: f32) -> f32;
pub assume_specification[ f32::exp ](a: f32) -> (r: f32) ensures r == f32_exp_spec(a);
pub assume_specification[ f32::max ](a: f32, b: f32) -> (r: f32) ensures r == f32_max_spec(a, b);
pub assume_specification[ f32::abs ](a: f32) -> (r: f32) ensures r == f32_abs_spec(a);
pub assume_specification[ f32::ln ](a: f32) -> (r: f32) ensures r == f32_ln_spec(a);
pub assume_specification[ f32::clamp ](a: f32, lo: f32, hi: f32) -> (r: f32) ensures r == f32_clamp_spec(a, lo, hi);

pub uninterp spec fn f32_neg_spec(a: f32) -> f32;
#[verifier::external_body]
fn fneg(a: f32) -> (r: f32) ensures r == f32_neg_spec(a) { -a }
// closure |&v| 1.0 / (1.0 + f32::exp(-v))
fn sigmoid_elem(v: f32) -> (r: f32)
    ensures r == (1.0f32).div_spec((1.0f32).add_spec(f32_exp_spec(f32_neg_spec(v))))
{
    broadcast use {f32_add_total, f32_sub_total, f32_mul_total, f32_div_total, f32_neg_total};
    proof { f32_obeys(); }
    1.0 / (1.0 + f32::exp(fneg(v)))
}

// closure |&v| v.max(0.0)
fn relu_elem(v: f32) -> (r: f32)
    ensures r == f32_max_spec(v, 0.0f32)
{
    v.max(0.0)
}

// closure |&v| if v > 0.0 { 1.0 } else { 0.0 }
fn relu_back_elem(v: f32) -> (r: f32)
{
    if v > 0.0 { 1.0 } else { 0.0 }
}

// closure |(actual, predicted)| { if actual == predicted {0.0} else if actual > predicted {-1.0} else {1.0} }
fn ae_grad_elem(actual: &f32, predicted: &f32) -> (r: f32)
{
    if actual == predicted {
        0.0
    } else if actual > predicted {
        -1.0
    } else {
        1.0
    }
}

fn bce_elem(actual: &f32, predicted: &f32, eps: f32) -> (r: f32)
{
    broadcast use {f32_add_total, f32_sub_total, f32_mul_total, f32_div_total, f32_neg_total};
    let predicted = predicted.clamp(eps, 1.0 - eps);
    actual * predicted.ln() + (1.0 - actual) * (1.0 - predicted).ln()
}

} // verus!
fn main() {}
