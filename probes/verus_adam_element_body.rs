use vstd::prelude::*;
use vstd::std_specs::ops::*;
verus! {

pub broadcast axiom fn f32_add_total(a: f32, b: f32) ensures #[trigger] a.add_req(b);
pub broadcast axiom fn f32_sub_total(a: f32, b: f32) ensures #[trigger] a.sub_req(b);
pub broadcast axiom fn f32_mul_total(a: f32, b: f32) ensures #[trigger] a.mul_req(b);
pub broadcast axiom fn f32_div_total(a: f32, b: f32) ensures #[trigger] a.div_req(b);

pub axiom fn f32_obeys()
    ensures <f32 as AddSpec>::obeys_add_spec(), <f32 as SubSpec>::obeys_sub_spec(), <f32 as MulSpec>::obeys_mul_spec(), <f32 as DivSpec>::obeys_div_spec();

pub uninterp spec fn f32_sqrt_spec(a: f32) -> f32;
pub uninterp spec fn f32_powi_spec(a: f32, n: i32) -> f32;
pub uninterp spec fn f32_powf_spec(a: f32, n: f32) -> f32;

pub assume_specification[ f32::sqrt ](a: f32) -> (r: f32) ensures r == f32_sqrt_spec(a);
pub assume_specification[ f32::powi ](a: f32, n: i32) -> (r: f32) ensures r == f32_powi_spec(a, n);
pub assume_specification[ f32::powf ](a: f32, n: f32) -> (r: f32) ensures r == f32_powf_spec(a, n);

pub struct Adam {
    learning_rate: f32,
    beta1: f32,
    beta2: f32,
    epsilon: f32,
    decay: Option<f32>,
}

spec fn adam_w(s: Adam, w: f32, g0: f32, m0: f32, v0: f32, stepnr: i32) -> f32 {
    let g = match s.decay { Some(d) => g0.add_spec(d.mul_spec(w)), None => g0 };
    let m1 = m0.mul_spec(s.beta1).add_spec(g.mul_spec((1.0f32).sub_spec(s.beta1)));
    let v1 = v0.mul_spec(s.beta2).add_spec(f32_powf_spec(g, 2.0f32).mul_spec((1.0f32).sub_spec(s.beta2)));
    let m = m1.div_spec((1.0f32).sub_spec(f32_powi_spec(s.beta1, stepnr)));
    let v = v1.div_spec((1.0f32).sub_spec(f32_powi_spec(s.beta2, stepnr)));
    w.sub_spec(s.learning_rate.mul_spec(m).div_spec(f32_sqrt_spec(v).add_spec(s.epsilon)))
}

impl Adam {
    fn elem_single(&self, weights: &mut Vec<f32>, gradients: &mut Vec<f32>, momentum: &mut Vec<f32>, velocity: &mut Vec<f32>, i: usize, stepnr: i32)
        requires i < old(weights).len(), old(weights).len() == old(gradients).len(), old(weights).len() == old(momentum).len(), old(weights).len() == old(velocity).len(),
        ensures final(weights).len() == old(weights).len(),
            final(weights)[i as int] == adam_w(*self, old(weights)[i as int], old(gradients)[i as int], old(momentum)[i as int], old(velocity)[i as int], stepnr),
            forall|j: int| 0 <= j < old(weights).len() && j != i ==> final(weights)[j] == old(weights)[j],
    {
        broadcast use {f32_add_total, f32_sub_total, f32_mul_total, f32_div_total};
        proof { f32_obeys(); }
                if let Some(decay) = self.decay {
                    gradients[i] = gradients[i] + decay * weights[i];
                }
                momentum[i] = momentum[i] * self.beta1 + gradients[i] * (1.0 - self.beta1);
                velocity[i] =
                    velocity[i] * self.beta2 + gradients[i].powf(2.0) * (1.0 - self.beta2);
                let m = momentum[i] / (1.0 - self.beta1.powi(stepnr));
                let v = velocity[i] / (1.0 - self.beta2.powi(stepnr));
                weights[i] = weights[i] - self.learning_rate * m / (v.sqrt() + self.epsilon);
    }
}

} // verus!
fn main() {}
