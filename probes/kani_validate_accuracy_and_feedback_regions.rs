// appended to mirrors of network.rs / feedback.rs (see DESIGN §3.1); timings in DESIGN §2
#[cfg(kani)]
impl Network {
    // region of validate(): the accuracy expression, verbatim
    fn verif_acc_region(&self, target: &tensor::Tensor, prediction: &tensor::Tensor, tol: f32) -> f32 {
                        let acc = match self.layers.last().unwrap() {
                            Layer::Dense(layer) => match layer.activation {
                                activation::Function::Softmax(_) => {
                                    if target.argmax() == prediction.argmax() {
                                        1.0
                                    } else {
                                        0.0
                                    }
                                }
                                _ => {
                                    let target = target.get_flat();
                                    let prediction = prediction.get_flat();

                                    if target.len() == 1 {
                                        if (prediction[0] - target[0]).abs() < tol {
                                            1.0
                                        } else {
                                            0.0
                                        }
                                    } else {
                                        target
                                            .iter()
                                            .zip(prediction.iter())
                                            .map(
                                                |(t, p)| {
                                                    if (t - p).abs() < tol {
                                                        1.0
                                                    } else {
                                                        0.0
                                                    }
                                                },
                                            )
                                            .sum::<f32>()
                                            / target.len() as f32
                                    }
                                }
                            },
                            Layer::Convolution(_) => {
                                unimplemented!("Image output (target) not supported.")
                            }
                            Layer::Deconvolution(_) => {
                                unimplemented!("Image output (target) not supported.")
                            }
                            Layer::Maxpool(_) => {
                                unimplemented!("Image output (target) not supported.")
                            }
                            _ => unimplemented!("Feedback blocks not yet implemented."),
                        };
        acc
    }
}
#[cfg(kani)]
mod verif_net3 {
    use super::*;
    use crate::tensor::{Tensor, Shape, Data};
    use crate::activation::Activation;
    fn smallf() -> f32 { let v: u8 = kani::any(); ((v & 3) as i8 - 1) as f32 }
    fn small_single(n: usize) -> Vec<f32> { let mut r = Vec::with_capacity(n); for _ in 0..n { r.push(smallf()); } r }
    fn small_double(n: usize, m: usize) -> Vec<Vec<f32>> { let mut r = Vec::with_capacity(n); for _ in 0..n { r.push(small_single(m)); } r }
    fn small_random_stub(shape: Shape, _min: f32, _max: f32) -> Tensor {
        match shape { Shape::Single(n) => Tensor::single(small_single(n)), Shape::Double(n,m) => Tensor::double(small_double(n,m)), _ => panic!("unsupported in stub") }
    }
    fn rs_stub() -> std::collections::hash_map::RandomState { unsafe { std::mem::transmute::<(u64,u64), std::collections::hash_map::RandomState>((1u64, 2u64)) } }

    #[kani::proof]
    #[kani::unwind(4)]
    #[kani::stub(tensor::Tensor::random, small_random_stub)]
    #[kani::stub(std::collections::hash_map::RandomState::new, rs_stub)]
    fn accuracy_rule_fraction() {
        let mut net = Network::new(Shape::Single(1));
        net.dense(2, Activation::Linear, false, None);
        let t = small_single(2); let p = small_single(2);
        let tol: f32 = kani::any(); kani::assume(tol > 0.0 && tol < 4.0);
        let acc = net.verif_acc_region(&Tensor::single(t.clone()), &Tensor::single(p.clone()), tol);
        let e0 = if (t[0] - p[0]).abs() < tol { 1.0 } else { 0.0 };
        let e1 = if (t[1] - p[1]).abs() < tol { 1.0 } else { 0.0 };
        assert!(acc == (e0 + e1) / 2.0);
        kani::cover!(acc == 0.5);
        std::mem::forget(net);
    }

    #[kani::proof]
    #[kani::unwind(9)]
    #[kani::stub(tensor::Tensor::random, small_random_stub)]
    #[kani::stub(std::collections::hash_map::RandomState::new, rs_stub)]
    fn feedback_accumulate_region() {
        let mut connect = std::collections::HashMap::new();
        connect.insert(1usize, vec![0usize]);
        let block = feedback::Feedback::verif_bare(connect, feedback::Accumulation::Add);
        let a0 = small_single(2); let x0 = small_single(2);
        let activated = vec![Tensor::single(a0.clone()), Tensor::single(x0.clone())];
        let x = block.verif_acc_region(1, &activated);
        let d = match &x.data { Data::Single(d) => (d[0], d[1]), _ => panic!() };
        assert!(d.0 == x0[0] + a0[0] && d.1 == x0[1] + a0[1]);
        std::mem::forget(block); std::mem::forget(activated); std::mem::forget(x);
    }
}

// ---- appended to the feedback.rs mirror ----
#[cfg(kani)]
impl Feedback {
    pub(crate) fn verif_bare(connect: HashMap<usize, Vec<usize>>, accumulation: Accumulation) -> Self {
        Feedback { inputs: tensor::Shape::Single(2), outputs: tensor::Shape::Single(2), optimizer: optimizer::SGD::create(0.1, None),
                   flatten: false, layers: Vec::new(), connect, accumulation, coupled: Vec::new() }
    }
    // region of forward(): clone of the previous activation + the skip-accumulation block, verbatim
    pub(crate) fn verif_acc_region(&self, i: usize, activated: &Vec<tensor::Tensor>) -> tensor::Tensor {
            let mut x = activated.last().unwrap().clone();

            // Check if the layer should account for a skip connection.
            if self.connect.contains_key(&i) {
                match self.accumulation {
                    Accumulation::Add => {
                        for idx in self.connect.get(&i).unwrap() {
                            x.add_inplace(&activated[*idx]);
                        }
                    }
                    Accumulation::Subtract => {
                        for idx in self.connect.get(&i).unwrap() {
                            x.sub_inplace(&activated[*idx]);
                        }
                    }
                    Accumulation::Multiply => {
                        for idx in self.connect.get(&i).unwrap() {
                            x.mul_inplace(&activated[*idx]);
                        }
                    }
                    Accumulation::Overwrite => {
                        x = activated[*self.connect.get(&i).unwrap().last().unwrap()].clone();
                    }
                    Accumulation::Mean => {
                        let mut _x: Vec<&tensor::Tensor> = Vec::new();
                        for idx in self.connect.get(&i).unwrap() {
                            _x.push(&activated[*idx]);
                        }
                        x.mean_inplace(&_x);
                    }
                    #[allow(unreachable_patterns)]
                    _ => unimplemented!("Accumulation method not implemented."),
                }
            }
        x
    }
}
