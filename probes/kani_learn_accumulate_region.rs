#[path = "/repo/src/random.rs"]
pub mod random;
#[path = "/repo/src/tensor.rs"]
pub mod tensor;

#[cfg(kani)]
mod learn_regions {
    use crate::tensor;
    use crate::tensor::{Tensor, Data};

    // region (ii) of Network::learn: accumulation loop, verbatim; `results` is the parameter
    fn accumulate(results: Vec<(Vec<tensor::Tensor>, Vec<Option<tensor::Tensor>>, f32)>) -> (Vec<tensor::Tensor>, Vec<Option<tensor::Tensor>>, Vec<f32>) {
                let mut weight_gradients: Vec<tensor::Tensor> = Vec::new();
                let mut bias_gradients: Vec<Option<tensor::Tensor>> = Vec::new();
                let mut losses: Vec<f32> = Vec::new();

                // Collect the results from the parallel iteration, and sum the gradients and loss.
                for (wg, wb, loss) in results {
                    if loss.is_nan() {
                        panic!("Loss is NaN. Aborting.");
                    }
                    losses.push(loss);

                    if weight_gradients.is_empty() {
                        weight_gradients = wg;
                        bias_gradients = wb;
                    } else {
                        for (gradient, new) in weight_gradients.iter_mut().zip(wg.iter()) {
                            gradient.add_inplace(new)
                        }

                        for (gradient, new) in bias_gradients.iter_mut().zip(wb.iter()) {
                            match gradient {
                                Some(gradient) => match new {
                                    Some(new) => gradient.add_inplace(new),
                                    None => panic!("Expected Some, got None."),
                                },
                                None => match new {
                                    Some(_) => panic!("Expected None, got Some."),
                                    None => (),
                                },
                            }
                        }
                    }
                }
        (weight_gradients, bias_gradients, losses)
    }

    fn smallf() -> f32 { let v: u8 = kani::any(); ((v & 7) as i8 - 3) as f32 }

    #[kani::proof]
    #[kani::unwind(4)]
    fn accumulate_is_ordered_sum() {
        let a = smallf(); let b = smallf(); let c = smallf();
        let ba = smallf(); let bb = smallf(); let bc = smallf();
        let results = vec![
            (vec![Tensor::single(vec![a])], vec![Some(Tensor::single(vec![ba]))], 1.0f32),
            (vec![Tensor::single(vec![b])], vec![Some(Tensor::single(vec![bb]))], 2.0f32),
            (vec![Tensor::single(vec![c])], vec![Some(Tensor::single(vec![bc]))], 4.0f32),
        ];
        let (wg, bg, losses) = accumulate(results);
        assert!(wg.len() == 1 && bg.len() == 1 && losses.len() == 3);
        let w = match &wg[0].data { Data::Single(d) => d[0], _ => panic!() };
        let bz = match &bg[0].as_ref().unwrap().data { Data::Single(d) => d[0], _ => panic!() };
        assert!(w == (a + b) + c);
        assert!(bz == (ba + bb) + bc);
        assert!(losses[0] == 1.0 && losses[1] == 2.0 && losses[2] == 4.0);
        kani::cover!(w == 9.0);
        std::mem::forget(wg); std::mem::forget(bg);
    }
}
