use vstd::prelude::*;
use vstd::std_specs::ops::*;
verus! {
global layout usize is size == 8;

pub broadcast axiom fn f32_add_total(a: f32, b: f32) ensures #[trigger] a.add_req(b);
pub broadcast axiom fn f32_mul_total(a: f32, b: f32) ensures #[trigger] a.mul_req(b);
pub axiom fn f32_obeys()
    ensures <f32 as AddSpec>::obeys_add_spec(), <f32 as MulSpec>::obeys_mul_spec();

pub struct Deconvolution {
    pub stride: (usize, usize),
    pub padding: (usize, usize),
}

pub open spec fn rect3(x: Seq<Vec<Vec<f32>>>, c: int, h: int, w: int) -> bool {
    x.len() == c && forall|i: int| 0 <= i < c ==> (#[trigger] x[i]).len() == h
        && forall|j: int| 0 <= j < h ==> (#[trigger] x[i][j]).len() == w
}
pub open spec fn rect4(k: Seq<&Vec<Vec<Vec<f32>>>>, f: int, c: int, h: int, w: int) -> bool {
    k.len() == f && forall|i: int| 0 <= i < f ==> rect3((#[trigger] k[i])@, c, h, w)
}

pub struct Ctx<'a> {
    pub s: Deconvolution,
    pub x: Seq<Vec<Vec<f32>>>,
    pub k: Seq<&'a Vec<Vec<Vec<f32>>>>,
    pub ih: int, pub iw: int, pub kh: int, pub kw: int,
}

pub open spec fn tap(g: Ctx<'_>, f: int, c: int, i: int, j: int, ki: int, kj: int, a: int, b: int) -> Option<f32> {
    if i * g.s.stride.0 + ki - g.s.padding.0 == a && j * g.s.stride.1 + kj - g.s.padding.1 == b {
        Some(g.x[c]@[i]@[j].mul_spec(g.k[f]@[c]@[ki]@[kj]))
    } else { None }
}
pub open spec fn acc(sum: f32, t: Option<f32>) -> f32 { match t { Some(v) => sum.add_spec(v), None => sum } }

pub open spec fn f5(g: Ctx<'_>, f: int, c: int, i: int, j: int, ki: int, n: int, a: int, b: int, init: f32) -> f32
    decreases n
{ if n <= 0 { init } else { acc(f5(g, f, c, i, j, ki, n - 1, a, b, init), tap(g, f, c, i, j, ki, n - 1, a, b)) } }
pub open spec fn f4(g: Ctx<'_>, f: int, c: int, i: int, j: int, n: int, a: int, b: int, init: f32) -> f32
    decreases n
{ if n <= 0 { init } else { f5(g, f, c, i, j, n - 1, g.kw, a, b, f4(g, f, c, i, j, n - 1, a, b, init)) } }
pub open spec fn f3(g: Ctx<'_>, f: int, c: int, i: int, n: int, a: int, b: int, init: f32) -> f32
    decreases n
{ if n <= 0 { init } else { f4(g, f, c, i, n - 1, g.kh, a, b, f3(g, f, c, i, n - 1, a, b, init)) } }
pub open spec fn f2(g: Ctx<'_>, f: int, c: int, n: int, a: int, b: int, init: f32) -> f32
    decreases n
{ if n <= 0 { init } else { f3(g, f, c, n - 1, g.iw, a, b, f2(g, f, c, n - 1, a, b, init)) } }
pub open spec fn f1(g: Ctx<'_>, f: int, n: int, a: int, b: int, init: f32) -> f32
    decreases n
{ if n <= 0 { init } else { f2(g, f, n - 1, g.ih, a, b, f1(g, f, n - 1, a, b, init)) } }

pub open spec fn zeros_from(y: Seq<Vec<Vec<f32>>>, from: int, oh: int, ow: int) -> bool {
    forall|f: int, a: int, b: int| from <= f < y.len() && 0 <= a < oh && 0 <= b < ow ==> (#[trigger] y[f]@[a]@[b]) == 0.0f32
}

impl Deconvolution {
    fn forward_nest(
        &self,
        x: &Vec<Vec<Vec<f32>>>,
        kernels: &Vec<&Vec<Vec<Vec<f32>>>>,
    ) -> (y: Vec<Vec<Vec<f32>>>)
        requires
            x@.len() >= 1, x@[0]@.len() >= 1, x@[0]@[0]@.len() >= 1,
            rect3(x@, x@.len() as int, x@[0]@.len() as int, x@[0]@[0]@.len() as int),
            kernels@.len() >= 1, kernels@[0]@.len() >= 1, kernels@[0]@[0]@.len() >= 1, kernels@[0]@[0]@[0]@.len() >= 1,
            rect4(kernels@, kernels@.len() as int, kernels@[0]@.len() as int, kernels@[0]@[0]@.len() as int, kernels@[0]@[0]@[0]@.len() as int),
            kernels@[0]@.len() <= x@.len(),
            x@[0]@.len() < 0x8000_0000, x@[0]@[0]@.len() < 0x8000_0000,
            self.stride.0 < 0x8000_0000, self.stride.1 < 0x8000_0000,
            self.padding.0 < 0x8000_0000, self.padding.1 < 0x8000_0000,
            kernels@[0]@[0]@.len() < 0x8000_0000, kernels@[0]@[0]@[0]@.len() < 0x8000_0000,
            // valid configuration: announced output size is positive
            (x@[0]@.len() - 1) * self.stride.0 + kernels@[0]@[0]@.len() > 2 * self.padding.0,
            (x@[0]@[0]@.len() - 1) * self.stride.1 + kernels@[0]@[0]@[0]@.len() > 2 * self.padding.1,
            // currently needed by the code as written (see DESIGN §7): no underflow in (ih-1)*s - 2p
            (x@[0]@.len() - 1) * self.stride.0 >= 2 * self.padding.0,
            (x@[0]@[0]@.len() - 1) * self.stride.1 >= 2 * self.padding.1,
        ensures
            rect3(y@, kernels@.len() as int,
                (x@[0]@.len() - 1) * self.stride.0 + kernels@[0]@[0]@.len() - 2 * self.padding.0,
                (x@[0]@[0]@.len() - 1) * self.stride.1 + kernels@[0]@[0]@[0]@.len() - 2 * self.padding.1),
            forall|f: int, a: int, b: int| 0 <= f < y@.len() && 0 <= a < y@[f]@.len() && 0 <= b < y@[f]@[a]@.len()
                ==> #[trigger] y@[f]@[a]@[b] == f1(Ctx { s: *self, x: x@, k: kernels@, ih: x@[0]@.len() as int, iw: x@[0]@[0]@.len() as int, kh: kernels@[0]@[0]@.len() as int, kw: kernels@[0]@[0]@[0]@.len() as int }, f, kernels@[0]@.len() as int, a, b, 0.0f32),
    {
        let (ih, iw) = (x[0].len(), x[0][0].len());
        let (kf, kc, kh, kw) = (
            kernels.len(),
            kernels[0].len(),
            kernels[0][0].len(),
            kernels[0][0][0].len(),
        );
        proof {
            assert((ih - 1) * self.stride.0 < 0x4000_0000_0000_0000) by (nonlinear_arith) requires 0 <= ih - 1 < 0x8000_0000, 0 <= self.stride.0 < 0x8000_0000;
            assert((iw - 1) * self.stride.1 < 0x4000_0000_0000_0000) by (nonlinear_arith) requires 0 <= iw - 1 < 0x8000_0000, 0 <= self.stride.1 < 0x8000_0000;
        }

        // Defining the output dimensions and vector.
        let oh = (ih - 1) * self.stride.0 - 2 * self.padding.0 + kh;
        let ow = (iw - 1) * self.stride.1 - 2 * self.padding.1 + kw;
        let mut y = vec![vec![vec![0.0; ow]; oh]; kf];
        let ghost g = Ctx { s: *self, x: x@, k: kernels@, ih: ih as int, iw: iw as int, kh: kh as int, kw: kw as int };
        assert(zeros_from(y@, 0, oh as int, ow as int));

        // Deconvolving the input with the kernels.
        for k in 0..kf
            invariant
                ih == x@[0]@.len(), iw == x@[0]@[0]@.len(), kf == kernels@.len(), kc == kernels@[0]@.len(), kh == kernels@[0]@[0]@.len(), kw == kernels@[0]@[0]@[0]@.len(),
                rect3(x@, x@.len() as int, ih as int, iw as int), rect4(kernels@, kf as int, kc as int, kh as int, kw as int), kc <= x@.len(),
                ih < 0x8000_0000, iw < 0x8000_0000, kh < 0x8000_0000, kw < 0x8000_0000,
                self.stride.0 < 0x8000_0000, self.stride.1 < 0x8000_0000, self.padding.0 < 0x8000_0000, self.padding.1 < 0x8000_0000,
                g == (Ctx { s: *self, x: x@, k: kernels@, ih: ih as int, iw: iw as int, kh: kh as int, kw: kw as int }),
                rect3(y@, kf as int, oh as int, ow as int),
                zeros_from(y@, k as int, oh as int, ow as int),
                forall|f: int, a: int, b: int| 0 <= f < k && 0 <= a < oh && 0 <= b < ow ==> #[trigger] y@[f]@[a]@[b] == f1(g, f, kc as int, a, b, 0.0f32),
        {
            for c in 0..kc
                invariant
                    ih == x@[0]@.len(), iw == x@[0]@[0]@.len(), kf == kernels@.len(), kc == kernels@[0]@.len(), kh == kernels@[0]@[0]@.len(), kw == kernels@[0]@[0]@[0]@.len(),
                    rect3(x@, x@.len() as int, ih as int, iw as int), rect4(kernels@, kf as int, kc as int, kh as int, kw as int), kc <= x@.len(),
                    ih < 0x8000_0000, iw < 0x8000_0000, kh < 0x8000_0000, kw < 0x8000_0000,
                    self.stride.0 < 0x8000_0000, self.stride.1 < 0x8000_0000, self.padding.0 < 0x8000_0000, self.padding.1 < 0x8000_0000,
                    g == (Ctx { s: *self, x: x@, k: kernels@, ih: ih as int, iw: iw as int, kh: kh as int, kw: kw as int }),
                    rect3(y@, kf as int, oh as int, ow as int), k < kf,
                    zeros_from(y@, k as int + 1, oh as int, ow as int),
                    forall|f: int, a: int, b: int| 0 <= f < k && 0 <= a < oh && 0 <= b < ow ==> #[trigger] y@[f]@[a]@[b] == f1(g, f, kc as int, a, b, 0.0f32),
                    forall|a: int, b: int| 0 <= a < oh && 0 <= b < ow ==> #[trigger] y@[k as int]@[a]@[b] == f1(g, k as int, c as int, a, b, 0.0f32),
            {
                for i in 0..ih
                    invariant
                        ih == x@[0]@.len(), iw == x@[0]@[0]@.len(), kf == kernels@.len(), kc == kernels@[0]@.len(), kh == kernels@[0]@[0]@.len(), kw == kernels@[0]@[0]@[0]@.len(),
                        rect3(x@, x@.len() as int, ih as int, iw as int), rect4(kernels@, kf as int, kc as int, kh as int, kw as int), kc <= x@.len(),
                        ih < 0x8000_0000, iw < 0x8000_0000, kh < 0x8000_0000, kw < 0x8000_0000,
                        self.stride.0 < 0x8000_0000, self.stride.1 < 0x8000_0000, self.padding.0 < 0x8000_0000, self.padding.1 < 0x8000_0000,
                        g == (Ctx { s: *self, x: x@, k: kernels@, ih: ih as int, iw: iw as int, kh: kh as int, kw: kw as int }),
                        rect3(y@, kf as int, oh as int, ow as int), k < kf, c < kc,
                        zeros_from(y@, k as int + 1, oh as int, ow as int),
                        forall|f: int, a: int, b: int| 0 <= f < k && 0 <= a < oh && 0 <= b < ow ==> #[trigger] y@[f]@[a]@[b] == f1(g, f, kc as int, a, b, 0.0f32),
                        forall|a: int, b: int| 0 <= a < oh && 0 <= b < ow ==> #[trigger] y@[k as int]@[a]@[b] == f2(g, k as int, c as int, i as int, a, b, f1(g, k as int, c as int, a, b, 0.0f32)),
                {
                    for j in 0..iw
                        invariant
                            ih == x@[0]@.len(), iw == x@[0]@[0]@.len(), kf == kernels@.len(), kc == kernels@[0]@.len(), kh == kernels@[0]@[0]@.len(), kw == kernels@[0]@[0]@[0]@.len(),
                            rect3(x@, x@.len() as int, ih as int, iw as int), rect4(kernels@, kf as int, kc as int, kh as int, kw as int), kc <= x@.len(),
                            ih < 0x8000_0000, iw < 0x8000_0000, kh < 0x8000_0000, kw < 0x8000_0000,
                            self.stride.0 < 0x8000_0000, self.stride.1 < 0x8000_0000, self.padding.0 < 0x8000_0000, self.padding.1 < 0x8000_0000,
                            g == (Ctx { s: *self, x: x@, k: kernels@, ih: ih as int, iw: iw as int, kh: kh as int, kw: kw as int }),
                            rect3(y@, kf as int, oh as int, ow as int), k < kf, c < kc, i < ih,
                            zeros_from(y@, k as int + 1, oh as int, ow as int),
                            forall|f: int, a: int, b: int| 0 <= f < k && 0 <= a < oh && 0 <= b < ow ==> #[trigger] y@[f]@[a]@[b] == f1(g, f, kc as int, a, b, 0.0f32),
                            forall|a: int, b: int| 0 <= a < oh && 0 <= b < ow ==> #[trigger] y@[k as int]@[a]@[b] == f3(g, k as int, c as int, i as int, j as int, a, b, f2(g, k as int, c as int, i as int, a, b, f1(g, k as int, c as int, a, b, 0.0f32))),
                    {
                        for ki in 0..kh
                            invariant
                                ih == x@[0]@.len(), iw == x@[0]@[0]@.len(), kf == kernels@.len(), kc == kernels@[0]@.len(), kh == kernels@[0]@[0]@.len(), kw == kernels@[0]@[0]@[0]@.len(),
                                rect3(x@, x@.len() as int, ih as int, iw as int), rect4(kernels@, kf as int, kc as int, kh as int, kw as int), kc <= x@.len(),
                                ih < 0x8000_0000, iw < 0x8000_0000, kh < 0x8000_0000, kw < 0x8000_0000,
                                self.stride.0 < 0x8000_0000, self.stride.1 < 0x8000_0000, self.padding.0 < 0x8000_0000, self.padding.1 < 0x8000_0000,
                                g == (Ctx { s: *self, x: x@, k: kernels@, ih: ih as int, iw: iw as int, kh: kh as int, kw: kw as int }),
                                rect3(y@, kf as int, oh as int, ow as int), k < kf, c < kc, i < ih, j < iw,
                                zeros_from(y@, k as int + 1, oh as int, ow as int),
                                forall|f: int, a: int, b: int| 0 <= f < k && 0 <= a < oh && 0 <= b < ow ==> #[trigger] y@[f]@[a]@[b] == f1(g, f, kc as int, a, b, 0.0f32),
                                forall|a: int, b: int| 0 <= a < oh && 0 <= b < ow ==> #[trigger] y@[k as int]@[a]@[b] == f4(g, k as int, c as int, i as int, j as int, ki as int, a, b, f3(g, k as int, c as int, i as int, j as int, a, b, f2(g, k as int, c as int, i as int, a, b, f1(g, k as int, c as int, a, b, 0.0f32)))),
                        {
                            let mut __it6: usize = 0;
                            while __it6 < kw
                                invariant
                                    __it6 <= kw,
                                    ih == x@[0]@.len(), iw == x@[0]@[0]@.len(), kf == kernels@.len(), kc == kernels@[0]@.len(), kh == kernels@[0]@[0]@.len(), kw == kernels@[0]@[0]@[0]@.len(),
                                    rect3(x@, x@.len() as int, ih as int, iw as int), rect4(kernels@, kf as int, kc as int, kh as int, kw as int), kc <= x@.len(),
                                    ih < 0x8000_0000, iw < 0x8000_0000, kh < 0x8000_0000, kw < 0x8000_0000,
                                    self.stride.0 < 0x8000_0000, self.stride.1 < 0x8000_0000, self.padding.0 < 0x8000_0000, self.padding.1 < 0x8000_0000,
                                    g == (Ctx { s: *self, x: x@, k: kernels@, ih: ih as int, iw: iw as int, kh: kh as int, kw: kw as int }),
                                    rect3(y@, kf as int, oh as int, ow as int), k < kf, c < kc, i < ih, j < iw, ki < kh,
                                    zeros_from(y@, k as int + 1, oh as int, ow as int),
                                    forall|f: int, a: int, b: int| 0 <= f < k && 0 <= a < oh && 0 <= b < ow ==> #[trigger] y@[f]@[a]@[b] == f1(g, f, kc as int, a, b, 0.0f32),
                                    forall|a: int, b: int| 0 <= a < oh && 0 <= b < ow ==> #[trigger] y@[k as int]@[a]@[b] == f5(g, k as int, c as int, i as int, j as int, ki as int, __it6 as int, a, b, f4(g, k as int, c as int, i as int, j as int, ki as int, a, b, f3(g, k as int, c as int, i as int, j as int, a, b, f2(g, k as int, c as int, i as int, a, b, f1(g, k as int, c as int, a, b, 0.0f32))))),
                            decreases kw - __it6,
                            {
                                let kj = __it6; __it6 = __it6 + 1;
                                broadcast use {f32_add_total, f32_mul_total};
                                proof {
                                    f32_obeys();
                                    assert(i * self.stride.0 < 0x4000_0000_0000_0000) by (nonlinear_arith) requires 0 <= i < 0x8000_0000, 0 <= self.stride.0 < 0x8000_0000;
                                    assert(j * self.stride.1 < 0x4000_0000_0000_0000) by (nonlinear_arith) requires 0 <= j < 0x8000_0000, 0 <= self.stride.1 < 0x8000_0000;
                                }
                                let oi = i * self.stride.0 + ki;
                                let oi = match oi.checked_sub(self.padding.0) {
                                    Some(value) => value,
                                    None => {
                                        continue;
                                    }
                                };

                                let oj = j * self.stride.1 + kj;
                                let oj = match oj.checked_sub(self.padding.1) {
                                    Some(value) => value,
                                    None => {
                                        continue;
                                    }
                                };

                                if oi < oh && oj < ow {
                                    y[k][oi][oj] = y[k][oi][oj] + x[c][i][j] * kernels[k][c][ki][kj];
                                }
                            }
                        }
                    }
                }
            }
        }

        y
    }
}

} // verus!
fn main() {}
