use vstd::prelude::*;
verus! {
global layout usize is size == 8;

#[verifier::external_body]
pub struct Tensor { _p: u8 }

pub uninterp spec fn tval(t: Tensor) -> int;

#[verifier::external_body]
pub fn tclone(t: &Tensor) -> (r: Tensor) ensures tval(r) == tval(*t) { Tensor { _p: t._p } }

pub struct Dense { pub weights: Tensor, pub bias: Option<Tensor>, pub training: bool }
pub struct Convolution { pub kernels: Vec<Tensor>, pub training: bool }
pub struct Maxpool { pub flatten: bool }
pub enum Layer { Dense(Dense), Convolution(Convolution), Maxpool(Maxpool) }

pub open spec fn tied(l: Layer, w: Tensor) -> bool {
    match l { Layer::Dense(d) => tval(d.weights) == tval(w), _ => true }
}

fn write_back(layers: &mut Vec<Layer>, couple: &Vec<usize>, weight: &Tensor)
    requires forall|k: int| 0 <= k < couple@.len() ==> (#[trigger] couple@[k]) < old(layers)@.len(),
    ensures final(layers)@.len() == old(layers)@.len(),
        forall|k: int| 0 <= k < couple@.len() ==> tied(#[trigger] final(layers)@[couple@[k] as int], *weight),
{
    for i in couple.iter() {
        match &mut layers[*i] {
            Layer::Dense(layer) => {
                layer.weights = tclone(weight);
            }
            _ => {}
        }
    }
}

} // verus!
fn main() {}
