// Kani harnesses for src/activation.rs (property C07; derivative pairs also serve C01).
// Value clauses are decided through the REAL `Function::forward/backward` on singleton tensors of both ranks, for every
// finite f32 bit pattern (loop-free in the data => complete over the element domain), with the F2 libm contract stubs.

#[cfg(kani)]
mod harnesses {
    use super::*;
    use crate::tensor::verif_libm::models::*;
    use crate::tensor::{Data, Shape, Tensor};

    fn any_finite() -> f32 {
        let v: f32 = kani::any();
        kani::assume(v.is_finite());
        v
    }
    fn wrap(v: f32, triple: bool) -> Tensor {
        if triple { Tensor::triple(vec![vec![vec![v]]]) } else { Tensor::single(vec![v]) }
    }
    /// the single element of a result that must have exactly the input's shape
    fn only(t: &Tensor, triple: bool) -> f32 {
        if triple {
            assert!(t.shape == Shape::Triple(1, 1, 1));
            match &t.data {
                Data::Triple(d) => { assert!(d.len() == 1 && d[0].len() == 1 && d[0][0].len() == 1); d[0][0][0] }
                _ => panic!("rank changed"),
            }
        } else {
            assert!(t.shape == Shape::Single(1));
            match &t.data {
                Data::Single(d) => { assert!(d.len() == 1); d[0] }
                _ => panic!("rank changed"),
            }
        }
    }

    macro_rules! act_harness {
        ($name:ident, $act:expr, $triple:expr, |$v:ident, $y:ident, $d:ident| $post:block) => {
            #[kani::proof]
            #[kani::unwind(3)]
            #[kani::stub(f32::exp, exp_model)]
            #[kani::stub(f32::tanh, tanh_model)]
            #[kani::stub(f32::cosh, cosh_model)]
            #[kani::stub(f32::powi, powi_model)]
            fn $name() {
                let f = Function::create(&$act);
                let $v = any_finite();
                let t = wrap($v, $triple);
                let $y = only(&f.forward(&t), $triple);
                let $d = only(&f.backward(&t), $triple);
                assert!(!$y.is_nan() && !$y.is_infinite());
                assert!(!$d.is_nan() && !$d.is_infinite());
                $post;
                kani::cover!($v > 1.0);
                kani::cover!($v < -1.0);
            }
        };
    }

    // @harness c07_relu_single props=C07 tier=quick kind=complete flags="--no-overflow-checks" what="ReLU fwd = max(0,v), bwd = [v>0], finite, shape kept; all finite f32; flat" timeout=600
    act_harness!(c07_relu_single, Activation::ReLU, false, |v, y, d| {
        assert!(y == if v > 0.0 { v } else { 0.0 });
        assert!(d == if v > 0.0 { 1.0 } else { 0.0 });
    });
    // @harness c07_relu_triple props=C07 tier=quick kind=complete flags="--no-overflow-checks" what="ReLU, 3-D copy" timeout=600
    act_harness!(c07_relu_triple, Activation::ReLU, true, |v, y, d| {
        assert!(y == if v > 0.0 { v } else { 0.0 });
        assert!(d == if v > 0.0 { 1.0 } else { 0.0 });
    });
    // @harness c07_leaky_single props=C07 tier=quick kind=complete flags="--no-overflow-checks" what="leaky ReLU slope 0.01: fwd = v or 0.01*v, bwd = 1 or 0.01; all finite f32; flat" timeout=600
    act_harness!(c07_leaky_single, Activation::LeakyReLU, false, |v, y, d| {
        assert!(y == if v > 0.0 { v } else { 0.01 * v });
        assert!(d == if v > 0.0 { 1.0 } else { 0.01 });
    });
    // @harness c07_leaky_triple props=C07 tier=quick kind=complete flags="--no-overflow-checks" what="leaky ReLU, 3-D copy" timeout=600
    act_harness!(c07_leaky_triple, Activation::LeakyReLU, true, |v, y, d| {
        assert!(y == if v > 0.0 { v } else { 0.01 * v });
        assert!(d == if v > 0.0 { 1.0 } else { 0.01 });
    });
    // @harness c07_sigmoid_single props=C07 tier=quick kind=complete flags="--no-overflow-checks" what="sigmoid in [0,1], derivative in [0,1], never NaN/inf; all finite f32 (exp by contract); flat" timeout=600
    act_harness!(c07_sigmoid_single, Activation::Sigmoid, false, |v, y, d| {
        assert!(y >= 0.0 && y <= 1.0);
        assert!(d >= 0.0 && d <= 1.0);
    });
    // @harness c07_sigmoid_triple props=C07 tier=quick kind=complete flags="--no-overflow-checks" what="sigmoid, 3-D copy" timeout=600
    act_harness!(c07_sigmoid_triple, Activation::Sigmoid, true, |v, y, d| {
        assert!(y >= 0.0 && y <= 1.0);
        assert!(d >= 0.0 && d <= 1.0);
    });
    // @harness c07_tanh_single props=C07 tier=quick kind=complete flags="--no-overflow-checks" what="tanh in [-1,1], derivative in [0,1], never NaN/inf; all finite f32 (tanh/cosh by contract); flat" timeout=600
    act_harness!(c07_tanh_single, Activation::Tanh, false, |v, y, d| {
        assert!(y >= -1.0 && y <= 1.0);
        assert!(d >= 0.0 && d <= 1.0);
    });
    // @harness c07_tanh_triple props=C07 tier=quick kind=complete flags="--no-overflow-checks" what="tanh, 3-D copy" timeout=600
    act_harness!(c07_tanh_triple, Activation::Tanh, true, |v, y, d| {
        assert!(y >= -1.0 && y <= 1.0);
        assert!(d >= 0.0 && d <= 1.0);
    });
    // @harness c07_linear_single props=C07 tier=quick kind=complete flags="--no-overflow-checks" what="identity: fwd = v bit-for-bit, bwd = 1; flat" timeout=600
    act_harness!(c07_linear_single, Activation::Linear, false, |v, y, d| {
        assert!(y.to_bits() == v.to_bits());
        assert!(d == 1.0);
    });
    // @harness c07_linear_triple props=C07 tier=quick kind=complete flags="--no-overflow-checks" what="identity, 3-D copy" timeout=600
    act_harness!(c07_linear_triple, Activation::Linear, true, |v, y, d| {
        assert!(y.to_bits() == v.to_bits());
        assert!(d == 1.0);
    });

    // ---- soft-max (n <= 3): non-negative, finite, never NaN, at most 1, summing to one up to rounding, for ALL finite inputs.
    // exp is the F2 contract stub (nondeterministic within its contract): the clauses below hold for every function exp with
    // exp(0) = 1, 0 <= exp(x) <= 1 for x <= 0.
    macro_rules! softmax_h {
        ($name:ident, $n:expr) => {
            #[kani::proof]
            #[kani::unwind(6)]
            #[kani::stub(f32::exp, exp_model)]
            fn $name() {
                let mut v: Vec<f32> = Vec::with_capacity($n);
                let mut i = 0;
                while i < $n { v.push(any_finite()); i += 1; }
                let f = Function::create(&Activation::Softmax);
                let y = f.forward(&Tensor::single(v));
                assert!(y.shape == Shape::Single($n));
                let y = match &y.data { Data::Single(d) => d.clone(), _ => panic!("rank changed") };
                assert!(y.len() == $n);
                let mut sum = 0.0f32;
                let mut i = 0;
                while i < $n {
                    assert!(!y[i].is_nan() && y[i] >= 0.0 && y[i] <= 1.0);
                    sum += y[i];
                    i += 1;
                }
                assert!(sum > 0.999 && sum < 1.001);
                kani::cover!(y[0] < y[1]);
            }
        };
    }
    // @harness c07_softmax_n2 props=C07 tier=quick kind=bounded flags="--no-overflow-checks" bound="vector length 2, all finite f32 inputs" what="soft-max: outputs in [0,1], never NaN, sum within 1e-3 of 1, also for arbitrarily large finite inputs" timeout=900
    softmax_h!(c07_softmax_n2, 2usize);
    // (measured in the thorough tier: no result within 3000 s - kept for reference, not part of any tier)
    // @probe c07_softmax_n3 props=C07 tier=thorough kind=bounded flags="--no-overflow-checks" bound="vector length 3, all finite f32 inputs" what="soft-max, 3 elements" timeout=2400 mem=20
    softmax_h!(c07_softmax_n3, 3usize);
}
