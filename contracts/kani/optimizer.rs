// Kani harnesses for src/optimizer.rs (C03): slot isolation and default substitution.
// (The update formulas themselves are the 15 Verus units; here: state kept for one (layer, filter, bias) slot never influences
// another slot, and zero hyper-parameters are replaced by the documented defaults.)

#[cfg(kani)]
mod harnesses {
    use super::*;
    use crate::tensor::{Data, Tensor};
    use crate::tensor::verif_libm::models::powi_model;

    fn small() -> f32 { let k: i8 = kani::any(); kani::assume(k >= -3 && k <= 4); k as f32 }
    fn powf_sq(x: f32, e: f32) -> f32 { if e == 2.0 { x * x } else { let r: f32 = kani::any(); r } }
    fn cell(t: &Tensor) -> f32 { match &t.data { Data::Single(d) => d[0], _ => panic!("rank") } }
    fn state(a: f32, b: f32, c: f32, d: f32) -> Vec<Vec<Vec<Tensor>>> {
        // 2 layers x 1 filter x {weight, bias}: four singleton slots
        vec![vec![vec![Tensor::single(vec![a]), Tensor::single(vec![b])]], vec![vec![Tensor::single(vec![c]), Tensor::single(vec![d])]]]
    }

    // @harness c03_slots_sgdm props=C03 tier=quick kind=bounded flags="--no-overflow-checks" bound="2 layers x 1 filter x {weight,bias} singleton slots, symbolic slot, data in -3..4" what="SGDM: an update of one (layer, filter, bias) slot leaves the state of every other slot bit-identical" timeout=900
    #[kani::proof]
    #[kani::unwind(6)]
    fn c03_slots_sgdm() {
        let s0 = [small(), small(), small(), small()];
        let mut o = SGDM { learning_rate: 0.5, momentum: 0.5, dampening: 0.0, decay: None, velocity: state(s0[0], s0[1], s0[2], s0[3]) };
        let layer: usize = kani::any(); kani::assume(layer < 2);
        let bias: bool = kani::any();
        let mut w = Tensor::single(vec![small()]);
        let mut g = Tensor::single(vec![small()]);
        o.update(layer, 0, bias, 2, &mut w, &mut g);
        let hit = layer * 2 + bias as usize;
        let now = [cell(&o.velocity[0][0][0]), cell(&o.velocity[0][0][1]), cell(&o.velocity[1][0][0]), cell(&o.velocity[1][0][1])];
        let mut k = 0;
        while k < 4 { if k != hit { assert!(now[k].to_bits() == s0[k].to_bits()); } k += 1; }
        kani::cover!(now[hit] != s0[hit]);
        std::mem::forget(o);
    }

    // @harness c03_slots_adam props=C03 tier=quick kind=bounded flags="--no-overflow-checks" bound="2 layers x 1 filter x {weight,bias} singleton slots, symbolic slot" what="Adam: momentum and velocity of every other slot are untouched" timeout=1200
    #[kani::proof]
    #[kani::unwind(6)]
    #[kani::stub(f32::powf, powf_sq)]
    #[kani::stub(f32::powi, powi_model)]
    fn c03_slots_adam() {
        let m0 = [small(), small(), small(), small()];
        let v0 = [small(), small(), small(), small()];
        let mut o = Adam { learning_rate: 0.5, beta1: 0.5, beta2: 0.5, epsilon: 0.5, decay: None,
                           momentum: state(m0[0], m0[1], m0[2], m0[3]), velocity: state(v0[0], v0[1], v0[2], v0[3]) };
        let layer: usize = kani::any(); kani::assume(layer < 2);
        let bias: bool = kani::any();
        let mut w = Tensor::single(vec![small()]);
        let mut g = Tensor::single(vec![small()]);
        o.update(layer, 0, bias, 2, &mut w, &mut g);
        let hit = layer * 2 + bias as usize;
        let m = [cell(&o.momentum[0][0][0]), cell(&o.momentum[0][0][1]), cell(&o.momentum[1][0][0]), cell(&o.momentum[1][0][1])];
        let v = [cell(&o.velocity[0][0][0]), cell(&o.velocity[0][0][1]), cell(&o.velocity[1][0][0]), cell(&o.velocity[1][0][1])];
        let mut k = 0;
        while k < 4 { if k != hit { assert!(m[k].to_bits() == m0[k].to_bits() && v[k].to_bits() == v0[k].to_bits()); } k += 1; }
        kani::cover!(m[hit] != m0[hit]);
        std::mem::forget(o);
    }

    // ---- the FILTER coordinate of the slot (1 layer x 2 filters x {weight, bias}) ----
    fn state_f(a: f32, b: f32, c: f32, d: f32) -> Vec<Vec<Vec<Tensor>>> {
        vec![vec![vec![Tensor::single(vec![a]), Tensor::single(vec![b])], vec![Tensor::single(vec![c]), Tensor::single(vec![d])]]]
    }
    fn cells_f(s: &Vec<Vec<Vec<Tensor>>>) -> [f32; 4] { [cell(&s[0][0][0]), cell(&s[0][0][1]), cell(&s[0][1][0]), cell(&s[0][1][1])] }

    // @harness c03_slots_rmsprop_filters props=C03 tier=quick kind=bounded flags="--no-overflow-checks" bound="1 layer x 2 filters x {weight,bias} singleton slots, each of the four slots in turn, centred RMSprop with momentum, concrete distinct state" what="RMSprop: velocity, centred gradient mean and buffer of every other (filter, bias) slot are untouched, and the slot's own three cells are the ones that change" timeout=1200
    #[kani::proof]
    #[kani::unwind(6)]
    #[kani::stub(f32::powf, powf_sq)]
    fn c03_slots_rmsprop_filters() {
        // concrete, pairwise distinct state and every one of the four (filter, bias) slots in turn: the question is WHICH cells are
        // touched, not float arithmetic (a symbolic slot makes CBMC mux sqrt / division over all cells: > 5 min)
        let v0 = [1.0f32, 2.0, 3.0, 4.0];
        let g0 = [0.5f32, 1.5, 2.5, 3.5];
        let b0 = [0.25f32, 0.75, 1.25, 1.75];
        let gr = 8.0f32;
        let mut hit = 0;
        while hit < 4 {
            let (filter, bias) = (hit / 2, hit % 2 == 1);
            let mut o = RMSprop { learning_rate: 0.5, alpha: 0.5, epsilon: 0.5, decay: None, momentum: Some(0.5), centered: true,
                                  velocity: state_f(v0[0], v0[1], v0[2], v0[3]), gradient: state_f(g0[0], g0[1], g0[2], g0[3]), buffer: state_f(b0[0], b0[1], b0[2], b0[3]) };
            let mut w = Tensor::single(vec![1.0]);
            let mut g = Tensor::single(vec![gr]);
            o.update(0, filter, bias, &mut w, &mut g);
            let (v, gm, b) = (cells_f(&o.velocity), cells_f(&o.gradient), cells_f(&o.buffer));
            let mut k = 0;
            while k < 4 { if k != hit { assert!(v[k].to_bits() == v0[k].to_bits() && gm[k].to_bits() == g0[k].to_bits() && b[k].to_bits() == b0[k].to_bits()); } k += 1; }
            // the slot's own centred mean follows the documented recurrence from ITS old value
            assert!(gm[hit].to_bits() == (0.5f32 * g0[hit] + (1.0 - 0.5f32) * gr).to_bits());
            assert!(v[hit] != v0[hit] && b[hit] != b0[hit]);
            std::mem::forget(o);
            hit += 1;
        }
        kani::cover!(hit == 4);
    }

    // @harness c03_slots_sgdm_filters props=C03 tier=quick kind=bounded flags="--no-overflow-checks" bound="1 layer x 2 filters x {weight,bias} singleton slots, symbolic slot" what="SGDM: the filter coordinate of the slot is respected" timeout=900
    #[kani::proof]
    #[kani::unwind(6)]
    fn c03_slots_sgdm_filters() {
        let s0 = [small(), small(), small(), small()];
        let mut o = SGDM { learning_rate: 0.5, momentum: 0.5, dampening: 0.0, decay: None, velocity: state_f(s0[0], s0[1], s0[2], s0[3]) };
        let filter: usize = kani::any(); kani::assume(filter < 2);
        let bias: bool = kani::any();
        let mut w = Tensor::single(vec![small()]);
        let mut g = Tensor::single(vec![small()]);
        o.update(0, filter, bias, 2, &mut w, &mut g);
        let hit = filter * 2 + bias as usize;
        let now = cells_f(&o.velocity);
        let mut k = 0;
        while k < 4 { if k != hit { assert!(now[k].to_bits() == s0[k].to_bits()); } k += 1; }
        kani::cover!(now[hit] != s0[hit]);
        std::mem::forget(o);
    }

    // @harness c03_slots_adam_filters props=C03 tier=thorough kind=bounded flags="--no-overflow-checks" bound="1 layer x 2 filters x {weight,bias} singleton slots, symbolic slot" what="Adam: the filter coordinate of the slot is respected" timeout=1200
    #[kani::proof]
    #[kani::unwind(6)]
    #[kani::stub(f32::powf, powf_sq)]
    #[kani::stub(f32::powi, powi_model)]
    fn c03_slots_adam_filters() {
        let m0 = [small(), small(), small(), small()];
        let v0 = [small(), small(), small(), small()];
        let mut o = Adam { learning_rate: 0.5, beta1: 0.5, beta2: 0.5, epsilon: 0.5, decay: None,
                           momentum: state_f(m0[0], m0[1], m0[2], m0[3]), velocity: state_f(v0[0], v0[1], v0[2], v0[3]) };
        let filter: usize = kani::any(); kani::assume(filter < 2);
        let bias: bool = kani::any();
        let mut w = Tensor::single(vec![small()]);
        let mut g = Tensor::single(vec![small()]);
        o.update(0, filter, bias, 2, &mut w, &mut g);
        let hit = filter * 2 + bias as usize;
        let (m, v) = (cells_f(&o.momentum), cells_f(&o.velocity));
        let mut k = 0;
        while k < 4 { if k != hit { assert!(m[k].to_bits() == m0[k].to_bits() && v[k].to_bits() == v0[k].to_bits()); } k += 1; }
        kani::cover!(m[hit] != m0[hit]);
        std::mem::forget(o);
    }

    // ---- all three coordinates, concrete: 2 layers x 2 filters x {weight, bias} = 8 slots, each in turn ----
    fn state8(v: [f32; 8]) -> Vec<Vec<Vec<Tensor>>> {
        vec![vec![vec![Tensor::single(vec![v[0]]), Tensor::single(vec![v[1]])], vec![Tensor::single(vec![v[2]]), Tensor::single(vec![v[3]])]],
             vec![vec![Tensor::single(vec![v[4]]), Tensor::single(vec![v[5]])], vec![Tensor::single(vec![v[6]]), Tensor::single(vec![v[7]])]]]
    }
    fn cells8(s: &Vec<Vec<Vec<Tensor>>>) -> [f32; 8] {
        [cell(&s[0][0][0]), cell(&s[0][0][1]), cell(&s[0][1][0]), cell(&s[0][1][1]), cell(&s[1][0][0]), cell(&s[1][0][1]), cell(&s[1][1][0]), cell(&s[1][1][1])]
    }

    // @harness c03_slots_adamw_all props=C03 tier=quick kind=bounded flags="--no-overflow-checks" bound="2 layers x 2 filters x {weight,bias} singleton slots, each of the eight slots in turn, concrete distinct state" what="AdamW: a step in slot (layer, filter, bias) changes that slot's momentum and velocity and no other cell" timeout=1200
    #[kani::proof]
    #[kani::unwind(10)]
    #[kani::stub(f32::powf, powf_sq)]
    #[kani::stub(f32::powi, powi_model)]
    fn c03_slots_adamw_all() {
        let m0 = [1.0f32, 2.0, 3.0, 4.0, 5.0, 6.0, 7.0, 8.0];
        let v0 = [0.5f32, 1.5, 2.5, 3.5, 4.5, 5.5, 6.5, 7.5];
        let mut hit = 0;
        while hit < 8 {
            let (layer, filter, bias) = (hit / 4, (hit / 2) % 2, hit % 2 == 1);
            let mut o = AdamW { learning_rate: 0.5, beta1: 0.5, beta2: 0.5, epsilon: 0.5, decay: 0.5, momentum: state8(m0), velocity: state8(v0) };
            let mut w = Tensor::single(vec![1.0]);
            let mut g = Tensor::single(vec![16.0]);
            o.update(layer, filter, bias, 2, &mut w, &mut g);
            let (m, v) = (cells8(&o.momentum), cells8(&o.velocity));
            let mut k = 0;
            while k < 8 { if k != hit { assert!(m[k].to_bits() == m0[k].to_bits() && v[k].to_bits() == v0[k].to_bits()); } k += 1; }
            assert!(m[hit] != m0[hit] && v[hit] != v0[hit]);
            std::mem::forget(o);
            hit += 1;
        }
        kani::cover!(hit == 8);
    }

    // @harness c03_slots_rmsprop_all props=C03 tier=thorough kind=bounded flags="--no-overflow-checks" bound="2 layers x 2 filters x {weight,bias}, each of the eight slots in turn, centred with momentum, concrete distinct state" what="RMSprop: all three coordinates of the slot are respected by velocity, centred mean and buffer" timeout=1800
    #[kani::proof]
    #[kani::unwind(10)]
    #[kani::stub(f32::powf, powf_sq)]
    fn c03_slots_rmsprop_all() {
        let v0 = [1.0f32, 2.0, 3.0, 4.0, 5.0, 6.0, 7.0, 8.0];
        let g0 = [0.5f32, 1.5, 2.5, 3.5, 4.5, 5.5, 6.5, 7.5];
        let b0 = [0.25f32, 0.75, 1.25, 1.75, 2.25, 2.75, 3.25, 3.75];
        let mut hit = 0;
        while hit < 8 {
            let (layer, filter, bias) = (hit / 4, (hit / 2) % 2, hit % 2 == 1);
            let mut o = RMSprop { learning_rate: 0.5, alpha: 0.5, epsilon: 0.5, decay: None, momentum: Some(0.5), centered: true,
                                  velocity: state8(v0), gradient: state8(g0), buffer: state8(b0) };
            let mut w = Tensor::single(vec![1.0]);
            let mut g = Tensor::single(vec![16.0]);
            o.update(layer, filter, bias, &mut w, &mut g);
            let (v, gm, b) = (cells8(&o.velocity), cells8(&o.gradient), cells8(&o.buffer));
            let mut k = 0;
            while k < 8 { if k != hit { assert!(v[k].to_bits() == v0[k].to_bits() && gm[k].to_bits() == g0[k].to_bits() && b[k].to_bits() == b0[k].to_bits()); } k += 1; }
            assert!(v[hit] != v0[hit] && gm[hit] != g0[hit] && b[hit] != b0[hit]);
            std::mem::forget(o);
            hit += 1;
        }
        kani::cover!(hit == 8);
    }

    macro_rules! defaults_h {
        ($name:ident, $which:expr) => {
            #[kani::proof]
            #[kani::unwind(3)]
            fn $name() {
                let lr: f32 = kani::any();
                let p1: f32 = kani::any();
                let p2: f32 = kani::any();
                let eps: f32 = kani::any();
                kani::assume(!lr.is_nan() && !p1.is_nan() && !p2.is_nan() && !eps.is_nan());
                let pick = |given: f32, default: f32| if given == 0.0 { default } else { given };
                let mut o = match $which {
                    0u8 => SGD::create(lr, None),
                    1u8 => SGDM::create(lr, p1, p2, None),
                    2u8 => Adam::create(lr, p1, p2, eps, None),
                    3u8 => AdamW::create(lr, p1, p2, eps, 0.01),
                    _ => RMSprop::create(lr, p1, eps, None, None, false),
                };
                o.validate(Vec::new());
                match &o {
                    Optimizer::SGD(s) => assert!(s.learning_rate == pick(lr, 0.1)),
                    Optimizer::SGDM(s) => assert!(s.learning_rate == pick(lr, 0.1) && s.momentum == pick(p1, 0.9) && s.dampening == p2 && s.velocity.len() == 0),
                    Optimizer::Adam(s) => assert!(s.learning_rate == pick(lr, 0.001) && s.beta1 == pick(p1, 0.9) && s.beta2 == pick(p2, 0.999) && s.epsilon == pick(eps, 1e-8)),
                    Optimizer::AdamW(s) => assert!(s.learning_rate == pick(lr, 0.001) && s.beta1 == pick(p1, 0.9) && s.beta2 == pick(p2, 0.999) && s.epsilon == pick(eps, 1e-8)),
                    Optimizer::RMSprop(s) => assert!(s.learning_rate == pick(lr, 0.01) && s.alpha == pick(p1, 0.99) && s.epsilon == pick(eps, 1e-8)),
                }
                kani::cover!(lr == 0.0);
                kani::cover!(lr != 0.0);
                std::mem::forget(o);
            }
        };
    }
    // @harness c03_defaults_sgd props=C03 tier=thorough kind=complete flags="--no-overflow-checks" what="Optimizer::validate (SGD): zero learning rate -> 0.1, else kept; all f32" timeout=900
    defaults_h!(c03_defaults_sgd, 0u8);
    // @harness c03_defaults_sgdm props=C03 tier=thorough kind=complete flags="--no-overflow-checks" what="validate (SGDM): lr -> 0.1, momentum -> 0.9, dampening kept" timeout=900
    defaults_h!(c03_defaults_sgdm, 1u8);
    // @harness c03_defaults_adam props=C03 tier=quick kind=complete flags="--no-overflow-checks" what="validate (Adam): lr -> 0.001, beta1 -> 0.9, beta2 -> 0.999, epsilon -> 1e-8; non-zero values kept; all f32" timeout=900
    defaults_h!(c03_defaults_adam, 2u8);
    // @harness c03_defaults_adamw props=C03 tier=thorough kind=complete flags="--no-overflow-checks" what="validate (AdamW)" timeout=900
    defaults_h!(c03_defaults_adamw, 3u8);
    // (measured in the thorough tier: CBMC runs out of memory in the drop glue of RMSprop's nested state vectors - kept for reference, not part of any tier)
    // @probe c03_defaults_rmsprop props=C03 tier=thorough kind=complete flags="--no-overflow-checks" what="validate (RMSprop): lr -> 0.01, alpha -> 0.99, epsilon -> 1e-8" timeout=900
    defaults_h!(c03_defaults_rmsprop, 4u8);
}
