// Kani harnesses for src/tensor.rs (C14 reshape/flatten, C15 element-wise arithmetic, C18 Tensor::random).
// Small concrete shapes, symbolic data from the exact small-integer grid (-3..4); results compared bit-for-bit with the
// IEEE operator applied cell by cell.

#[cfg(kani)]
mod harnesses {
    use super::*;

    fn small() -> f32 { let k: i8 = kani::any(); kani::assume(k >= -3 && k <= 4); k as f32 }
    fn v1(n: usize) -> Vec<f32> { let mut v = Vec::with_capacity(n); let mut i = 0; while i < n { v.push(small()); i += 1; } v }
    fn v2(r: usize, c: usize) -> Vec<Vec<f32>> { let mut v = Vec::with_capacity(r); let mut i = 0; while i < r { v.push(v1(c)); i += 1; } v }
    fn v3(a: usize, r: usize, c: usize) -> Vec<Vec<Vec<f32>>> { let mut v = Vec::with_capacity(a); let mut i = 0; while i < a { v.push(v2(r, c)); i += 1; } v }
    fn v4(b: usize, a: usize, r: usize, c: usize) -> Vec<Vec<Vec<Vec<f32>>>> { let mut v = Vec::with_capacity(b); let mut i = 0; while i < b { v.push(v3(a, r, c)); i += 1; } v }
    /// row-major flat view of any rank (reference)
    fn flat_of(t: &Tensor) -> Vec<f32> {
        let mut out = Vec::new();
        match &t.data {
            Data::Single(d) => { let mut i = 0; while i < d.len() { out.push(d[i]); i += 1; } }
            Data::Double(d) => { let mut i = 0; while i < d.len() { let mut j = 0; while j < d[i].len() { out.push(d[i][j]); j += 1; } i += 1; } }
            Data::Triple(d) => { let mut i = 0; while i < d.len() { let mut j = 0; while j < d[i].len() { let mut k = 0; while k < d[i][j].len() { out.push(d[i][j][k]); k += 1; } j += 1; } i += 1; } }
            Data::Quadruple(d) => { let mut h = 0; while h < d.len() { let mut i = 0; while i < d[h].len() { let mut j = 0; while j < d[h][i].len() { let mut k = 0; while k < d[h][i][j].len() { out.push(d[h][i][j][k]); k += 1; } j += 1; } i += 1; } h += 1; } }
            _ => panic!("flat_of: unsupported"),
        }
        out
    }
    fn shape_matches(t: &Tensor) -> bool {
        match (&t.shape, &t.data) {
            (Shape::Single(n), Data::Single(d)) => d.len() == *n,
            (Shape::Double(r, c), Data::Double(d)) => { if d.len() != *r { return false; } let mut i = 0; while i < d.len() { if d[i].len() != *c { return false; } i += 1; } true }
            (Shape::Triple(a, r, c), Data::Triple(d)) => {
                if d.len() != *a { return false; }
                let mut i = 0;
                while i < d.len() { if d[i].len() != *r { return false; } let mut j = 0; while j < d[i].len() { if d[i][j].len() != *c { return false; } j += 1; } i += 1; }
                true
            }
            (Shape::Quadruple(b, a, r, c), Data::Quadruple(d)) => {
                if d.len() != *b { return false; }
                let mut h = 0;
                while h < d.len() {
                    if d[h].len() != *a { return false; }
                    let mut i = 0;
                    while i < d[h].len() { if d[h][i].len() != *r { return false; } let mut j = 0; while j < d[h][i].len() { if d[h][i][j].len() != *c { return false; } j += 1; } i += 1; }
                    h += 1;
                }
                true
            }
            _ => false,
        }
    }
    fn mk(rank: u8) -> Tensor {
        match rank {
            1 => Tensor::single(v1(3)),
            2 => Tensor::double(v2(2, 2)),
            3 => Tensor::triple(v3(1, 2, 2)),
            _ => Tensor::quadruple(v4(1, 1, 2, 2)),
        }
    }
    fn apply(op: u8, a: f32, b: f32, s: f32) -> f32 {
        match op { 0 => a + b, 1 => a - b, 2 => a * b, 3 => a * b * s, 4 => a / s, _ => (a + b) / 2.0 }
    }

    // ---------------------------------------------------------------- F1: the float laws the Verus units assume, over ALL bit patterns
    fn same_bits_or_nan(a: f32, b: f32) -> bool { a.to_bits() == b.to_bits() || (a.is_nan() && b.is_nan()) }
    // (a*b == b*a is NOT put to CBMC: commutativity of a 24x24-bit multiplier is a classic hard SAT instance - it stays an assumed IEEE law)
    // @harness f1_add_comm props=C01,C02,C03,C15 tier=quick kind=complete flags="--no-overflow-checks" what="a+b == b+a bit-for-bit (NaN == NaN), all f32 pairs" timeout=600
    #[kani::proof]
    fn f1_add_comm() {
        let a: f32 = kani::any();
        let b: f32 = kani::any();
        assert!(same_bits_or_nan(a + b, b + a));
        kani::cover!(a.is_nan());
        kani::cover!(a > b);
    }
    // @harness f1_order_and_unit props=C01,C02 tier=quick kind=complete flags="--no-overflow-checks" what="x*(1.0/1.0) == x bit-for-bit; `>` transitive and irreflexive; all f32 (NaN included)" timeout=600
    #[kani::proof]
    fn f1_order_and_unit() {
        let a: f32 = kani::any();
        let b: f32 = kani::any();
        let c: f32 = kani::any();
        assert!(same_bits_or_nan(a * (1.0f32 / 1.0f32), a));
        assert!(!(a > b && b > c) || a > c);
        assert!(!(a > a));
        kani::cover!(a > b && b > c);
        kani::cover!(a.is_nan());
    }
    // @harness f1_total_order props=C13,C04 tier=quick kind=complete flags="--no-overflow-checks" what="for non-NaN f32 (all bit patterns): (a <= b) == !(a > b) - the order law assumed by the early-stopping unit" timeout=600
    #[kani::proof]
    fn f1_total_order() {
        let a: f32 = kani::any();
        let b: f32 = kani::any();
        kani::assume(!a.is_nan() && !b.is_nan());
        assert!((a <= b) == !(a > b));
        kani::cover!(a > b);
        kani::cover!(a == b);
    }

    // ---------------------------------------------------------------- C15: element-wise ops, every rank
    macro_rules! elementwise {
        ($name:ident, $op:expr, $rank:expr, $uw:expr) => {
            #[kani::proof]
            #[kani::unwind($uw)]
            fn $name() {
                let mut a = mk($rank);
                let b = mk($rank);
                let s = small();
                kani::assume(s != 0.0);
                let a0 = flat_of(&a);
                let b0 = flat_of(&b);
                let shape0 = a.shape.clone();
                match $op {
                    0u8 => a.add_inplace(&b),
                    1u8 => a.sub_inplace(&b),
                    2u8 => a.mul_inplace(&b),
                    3u8 => a.hadamard(&b, s),
                    4u8 => a.div_scalar_inplace(s),
                    _ => a.mean_inplace(&vec![&b]),
                }
                // shape unchanged, recorded shape matches the data, every cell is the IEEE result on the operand cells
                assert!(a.shape == shape0 && shape_matches(&a));
                let r = flat_of(&a);
                assert!(r.len() == a0.len());
                let mut i = 0;
                while i < r.len() { assert!(r[i].to_bits() == apply($op, a0[i], b0[i], s).to_bits()); i += 1; }
                kani::cover!(a0[0] != b0[0] && a0[1] != 0.0);
                std::mem::forget(a); std::mem::forget(b);
            }
        };
    }
    // @harness c15_add_single props=C15 tier=quick kind=bounded flags="--no-overflow-checks" bound="1-D length 3, data in -3..4" what="add_inplace: cell-wise IEEE sum, shape kept" timeout=600
    elementwise!(c15_add_single, 0u8, 1u8, 6);
    // @harness c15_add_double props=C15 tier=thorough kind=bounded flags="--no-overflow-checks" bound="2-D 2x2" what="add_inplace 2-D" timeout=900
    elementwise!(c15_add_double, 0u8, 2u8, 6);
    // @harness c15_add_triple props=C15 tier=thorough kind=bounded flags="--no-overflow-checks" bound="3-D 1x2x2" what="add_inplace 3-D" timeout=1200
    elementwise!(c15_add_triple, 0u8, 3u8, 6);
    // @harness c15_add_quadruple props=C15 tier=thorough kind=bounded flags="--no-overflow-checks" bound="4-D 1x1x2x2" what="add_inplace 4-D" timeout=1500
    elementwise!(c15_add_quadruple, 0u8, 4u8, 6);
    // @harness c15_sub_double props=C15 tier=quick kind=bounded flags="--no-overflow-checks" bound="2-D 2x2" what="sub_inplace 2-D" timeout=900
    elementwise!(c15_sub_double, 1u8, 2u8, 6);
    // @harness c15_sub_quadruple props=C15 tier=thorough kind=bounded flags="--no-overflow-checks" bound="4-D 1x1x2x2" what="sub_inplace 4-D" timeout=1500
    elementwise!(c15_sub_quadruple, 1u8, 4u8, 6);
    // @harness c15_sub_single props=C15 tier=thorough kind=bounded flags="--no-overflow-checks" bound="1-D length 3" what="sub_inplace 1-D" timeout=900
    elementwise!(c15_sub_single, 1u8, 1u8, 6);
    // @harness c15_sub_triple props=C15 tier=thorough kind=bounded flags="--no-overflow-checks" bound="3-D 1x2x2" what="sub_inplace 3-D" timeout=1200
    elementwise!(c15_sub_triple, 1u8, 3u8, 6);
    // @harness c15_mul_triple props=C15 tier=quick kind=bounded flags="--no-overflow-checks" bound="3-D 1x2x2" what="mul_inplace 3-D" timeout=1200
    elementwise!(c15_mul_triple, 2u8, 3u8, 6);
    // @harness c15_mul_single props=C15 tier=thorough kind=bounded flags="--no-overflow-checks" bound="1-D length 3" what="mul_inplace 1-D" timeout=900
    elementwise!(c15_mul_single, 2u8, 1u8, 6);
    // @harness c15_mul_double props=C15 tier=thorough kind=bounded flags="--no-overflow-checks" bound="2-D 2x2" what="mul_inplace 2-D" timeout=900
    elementwise!(c15_mul_double, 2u8, 2u8, 6);
    // @harness c15_mul_quadruple props=C15 tier=thorough kind=bounded flags="--no-overflow-checks" bound="4-D 1x1x2x2" what="mul_inplace 4-D" timeout=1500
    elementwise!(c15_mul_quadruple, 2u8, 4u8, 6);
    // @harness c15_hadamard_single props=C15 tier=thorough kind=bounded flags="--no-overflow-checks" bound="1-D length 3" what="hadamard: a*b*scalar" timeout=900
    elementwise!(c15_hadamard_single, 3u8, 1u8, 6);
    // @harness c15_hadamard_quadruple props=C15 tier=thorough kind=bounded flags="--no-overflow-checks" bound="4-D 1x1x2x2" what="hadamard 4-D" timeout=1500
    elementwise!(c15_hadamard_quadruple, 3u8, 4u8, 6);
    // @harness c15_hadamard_double props=C15 tier=quick kind=bounded flags="--no-overflow-checks" bound="2-D 2x2" what="hadamard 2-D" timeout=900
    elementwise!(c15_hadamard_double, 3u8, 2u8, 6);
    // @harness c15_div_scalar_triple props=C15 tier=thorough kind=bounded flags="--no-overflow-checks" bound="3-D 1x2x2, scalar in -3..4 \ {0}" what="div_scalar_inplace 3-D" timeout=1200
    elementwise!(c15_div_scalar_triple, 4u8, 3u8, 6);
    // @harness c15_div_scalar_single props=C15 tier=quick kind=bounded flags="--no-overflow-checks" bound="1-D length 3" what="div_scalar_inplace 1-D" timeout=900
    elementwise!(c15_div_scalar_single, 4u8, 1u8, 6);
    // @harness c15_mean_single props=C15 tier=quick kind=bounded flags="--no-overflow-checks" bound="1-D length 3, k = 1 other tensor" what="mean_inplace: (a+b)/2" timeout=900
    elementwise!(c15_mean_single, 5u8, 1u8, 6);
    // @harness c15_mean_double props=C15 tier=thorough kind=bounded flags="--no-overflow-checks" bound="2-D 2x2, k = 1" what="mean_inplace 2-D" timeout=1200
    elementwise!(c15_mean_double, 5u8, 2u8, 6);

    // @harness c15_mean_quadruple props=C15 tier=quick kind=bounded flags="--no-overflow-checks" bound="4-D 1x1x2x2, k = 1" what="mean_inplace 4-D" timeout=1500
    elementwise!(c15_mean_quadruple, 5u8, 4u8, 6);
    // @harness c15_mean_triple props=C15 tier=thorough kind=bounded flags="--no-overflow-checks" bound="3-D 1x2x2, k = 1" what="mean_inplace 3-D" timeout=1500
    elementwise!(c15_mean_triple, 5u8, 3u8, 6);

    // shape-mismatched operands are refused
    macro_rules! mismatch {
        ($name:ident, $op:expr) => {
            #[kani::proof]
            #[kani::unwind(6)]
            #[kani::should_panic]
            fn $name() {
                let mut a = Tensor::single(v1(2));
                let b = Tensor::single(v1(3));
                match $op { 0u8 => a.add_inplace(&b), 1u8 => a.sub_inplace(&b), 2u8 => a.mul_inplace(&b), 3u8 => a.hadamard(&b, 1.0), _ => a.mean_inplace(&vec![&b]) }
            }
        };
    }
    // @harness c15_mismatch_add props=C15 tier=quick kind=bounded flags="--no-overflow-checks" bound="lengths 2 vs 3" what="add_inplace refuses operands of different shape" timeout=600
    mismatch!(c15_mismatch_add, 0u8);
    // @harness c15_mismatch_sub props=C15 tier=thorough kind=bounded flags="--no-overflow-checks" bound="lengths 2 vs 3" what="sub_inplace refuses" timeout=600
    mismatch!(c15_mismatch_sub, 1u8);
    // @harness c15_mismatch_mul props=C15 tier=thorough kind=bounded flags="--no-overflow-checks" bound="lengths 2 vs 3" what="mul_inplace refuses" timeout=600
    mismatch!(c15_mismatch_mul, 2u8);
    // @harness c15_mismatch_hadamard props=C15 tier=thorough kind=bounded flags="--no-overflow-checks" bound="lengths 2 vs 3" what="hadamard refuses" timeout=600
    mismatch!(c15_mismatch_hadamard, 3u8);
    // @harness c15_mismatch_mean props=C15 tier=thorough kind=bounded flags="--no-overflow-checks" bound="lengths 2 vs 3" what="mean_inplace refuses" timeout=600
    mismatch!(c15_mismatch_mean, 4u8);

    // @harness c15_dot props=C15,C02 tier=quick kind=bounded flags="--no-overflow-checks" bound="2x2 matrix, vector of length 2" what="dot: y[i] = sum_j m[i][j]*x[j], in column order" timeout=900
    #[kani::proof]
    #[kani::unwind(5)]
    fn c15_dot() {
        let m = v2(2, 2);
        let x = v1(2);
        let mt = Tensor::double(m.clone());
        let d = mt.dot(&Tensor::single(x.clone()));
        assert!(d.shape == Shape::Single(2) && shape_matches(&d));
        let df = flat_of(&d);
        assert!(df[0] == m[0][0] * x[0] + m[0][1] * x[1]);
        assert!(df[1] == m[1][0] * x[0] + m[1][1] * x[1]);
        kani::cover!(x[0] != x[1] && m[0][1] != m[1][0]);
        std::mem::forget(mt); std::mem::forget(d);
    }
    // @harness c15_product props=C15 tier=quick kind=bounded flags="--no-overflow-checks" bound="vectors of length 2 and 3" what="outer product: p[i][j] = y[i]*x[j]" timeout=900
    #[kani::proof]
    #[kani::unwind(6)]
    fn c15_product() {
        let x = v1(3);
        let y = v1(2);
        let p = Tensor::single(y.clone()).product(&Tensor::single(x.clone()));
        assert!(p.shape == Shape::Double(2, 3) && shape_matches(&p));
        match &p.data {
            Data::Double(pd) => { let mut i = 0; while i < 2 { let mut j = 0; while j < 3 { assert!(pd[i][j] == y[i] * x[j]); j += 1; } i += 1; } }
            _ => panic!("rank changed"),
        }
        kani::cover!(x[0] != x[1]);
        std::mem::forget(p);
    }
    // (transpose: CBMC's solver errors out even on a 1x2 matrix; it is proved by the Verus unit C15/transpose.nest for all shapes)

    // @harness c15_clamp_interval props=C15,C06 tier=quick kind=complete flags="--no-overflow-checks" what="Tensor::clamp: every non-NaN f32 cell ends in [min,max] and is unchanged if it was inside; all lo<=hi; 1-D and 3-D singleton" timeout=900
    #[kani::proof]
    #[kani::unwind(3)]
    fn c15_clamp_interval() {
        let v: f32 = kani::any();
        let lo: f32 = kani::any();
        let hi: f32 = kani::any();
        kani::assume(!v.is_nan() && lo <= hi);
        let a = Tensor::single(vec![v]).clamp(lo, hi);
        let b = Tensor::triple(vec![vec![vec![v]]]).clamp(lo, hi);
        let (ra, rb) = (flat_of(&a)[0], flat_of(&b)[0]);
        assert!(ra >= lo && ra <= hi && ra.to_bits() == rb.to_bits());
        assert!(!(v >= lo && v <= hi) || ra.to_bits() == v.to_bits());
        assert!(a.shape == Shape::Single(1) && b.shape == Shape::Triple(1, 1, 1));
        kani::cover!(v < lo);
        kani::cover!(v > hi);
        std::mem::forget(a); std::mem::forget(b);
    }

    // ---------------------------------------------------------------- C14: flatten / get_flat / get_triple / reshape
    fn seq_of(data: &Vec<Vec<Vec<f32>>>) -> Vec<f32> {
        let mut seq: Vec<f32> = Vec::new();
        let mut a = 0;
        while a < data.len() { let mut b = 0; while b < data[a].len() { let mut d = 0; while d < data[a][b].len() { seq.push(data[a][b][d]); d += 1; } b += 1; } a += 1; }
        seq
    }
    fn same_seq(a: &Vec<f32>, b: &Vec<f32>) -> bool {
        if a.len() != b.len() { return false; }
        let mut i = 0;
        while i < a.len() { if a[i].to_bits() != b[i].to_bits() { return false; } i += 1; }
        true
    }
    macro_rules! flatten_h {
        ($name:ident, $c:expr, $h:expr, $w:expr) => {
            #[kani::proof]
            #[kani::unwind(10)]
            fn $name() {
                let data = v3($c, $h, $w);
                let seq = seq_of(&data);
                let t = Tensor::triple(data);
                let f = t.flatten();
                assert!(f.shape == Shape::Single($c * $h * $w) && shape_matches(&f));
                assert!(same_seq(&flat_of(&f), &seq));
                kani::cover!(seq[0] != seq[1]);
                std::mem::forget(t); std::mem::forget(f);
            }
        };
    }
    // (get_flat on a 3-D tensor is a nested `flat_map`; CBMC needs many minutes of symbolic execution for it - thorough tier only)
    macro_rules! getflat_h {
        ($name:ident, $c:expr, $h:expr, $w:expr) => {
            #[kani::proof]
            #[kani::unwind(8)]
            fn $name() {
                let data = v3($c, $h, $w);
                let seq = seq_of(&data);
                let t = Tensor::triple(data);
                assert!(same_seq(&t.get_flat(), &seq));
                let v = Tensor::single(seq.clone());
                assert!(same_seq(&v.get_flat(), &seq));
                kani::cover!(seq[0] != seq[1]);
                std::mem::forget(t);
            }
        };
    }
    // (measured in the thorough tier: no result within 2400-3000 s (symbolic execution of the nested flat_map / stateful iterator); get_flat and reshape are proved for every shape in Verus (C14_reshape.rs) - kept for reference, not part of any tier)
    // @probe c14_getflat_1x1x2 props=C14 tier=thorough kind=bounded flags="--no-overflow-checks" bound="shape 1x1x2" what="get_flat reads a 3-D tensor / a vector out in row-major order" timeout=3000 mem=20
    getflat_h!(c14_getflat_1x1x2, 1usize, 1usize, 2usize);
    // (measured in the thorough tier: no result within 2400-3000 s (symbolic execution of the nested flat_map / stateful iterator); get_flat and reshape are proved for every shape in Verus (C14_reshape.rs) - kept for reference, not part of any tier)
    // @probe c14_getflat_1x2x2 props=C14 tier=thorough kind=bounded flags="--no-overflow-checks" bound="shape 1x2x2" what="get_flat" timeout=3000 mem=20
    getflat_h!(c14_getflat_1x2x2, 1usize, 2usize, 2usize);
    // @harness c14_getflat_vec props=C14 tier=quick kind=bounded flags="--no-overflow-checks" bound="vector of length 3" what="get_flat of a vector is the vector" timeout=600
    #[kani::proof]
    #[kani::unwind(6)]
    fn c14_getflat_vec() {
        let seq = v1(3);
        let v = Tensor::single(seq.clone());
        assert!(same_seq(&v.get_flat(), &seq));
        let f = v.flatten();
        assert!(f.shape == Shape::Single(3) && same_seq(&flat_of(&f), &seq));
        kani::cover!(seq[0] != seq[1]);
        std::mem::forget(v); std::mem::forget(f);
    }
    macro_rules! unflatten_h {
        ($name:ident, $c:expr, $h:expr, $w:expr) => {
            #[kani::proof]
            #[kani::unwind(10)]
            fn $name() {
                let seq = v1($c * $h * $w);
                let g = Tensor::single(seq.clone()).get_triple(&Shape::Triple($c, $h, $w));
                assert!(g.len() == $c && g[0].len() == $h && g[0][0].len() == $w);
                assert!(same_seq(&seq_of(&g), &seq));
                let back = Tensor::single(seq.clone()).reshape(Shape::Triple($c, $h, $w));
                assert!(back.shape == Shape::Triple($c, $h, $w) && shape_matches(&back));
                assert!(same_seq(&flat_of(&back), &seq));
                kani::cover!(seq[0] != seq[1]);
                std::mem::forget(back);
            }
        };
    }
    macro_rules! reshape_to_vec_h {
        ($name:ident, $c:expr, $h:expr, $w:expr) => {
            #[kani::proof]
            #[kani::unwind(10)]
            fn $name() {
                let data = v3($c, $h, $w);
                let seq = seq_of(&data);
                let to_vec = Tensor::triple(data).reshape(Shape::Single($c * $h * $w));
                assert!(to_vec.shape == Shape::Single($c * $h * $w) && shape_matches(&to_vec));
                assert!(same_seq(&flat_of(&to_vec), &seq));
                kani::cover!(seq[0] != seq[1]);
                std::mem::forget(to_vec);
            }
        };
    }
    macro_rules! reshape_h {
        ($name:ident, $c:expr, $h:expr, $w:expr, $c2:expr, $h2:expr, $w2:expr) => {
            #[kani::proof]
            #[kani::unwind(10)]
            fn $name() {
                let data = v3($c, $h, $w);
                let seq = seq_of(&data);
                let other = Tensor::triple(data).reshape(Shape::Triple($c2, $h2, $w2));
                assert!(other.shape == Shape::Triple($c2, $h2, $w2) && shape_matches(&other));
                assert!(same_seq(&flat_of(&other), &seq));
                let again = other.reshape(Shape::Triple($c, $h, $w));
                assert!(again.shape == Shape::Triple($c, $h, $w) && shape_matches(&again));
                assert!(same_seq(&flat_of(&again), &seq));
                kani::cover!(seq[0] != seq[1]);
                std::mem::forget(again);
            }
        };
    }
    // @harness c14_flatten_1x2x3 props=C14,C08 tier=quick kind=bounded flags="--no-overflow-checks" bound="shape 1x2x3" what="flatten / get_flat keep the row-major sequence; recorded shape = data" timeout=900
    flatten_h!(c14_flatten_1x2x3, 1usize, 2usize, 3usize);
    // @harness c14_flatten_1x2x2 props=C14,C08 tier=thorough kind=bounded flags="--no-overflow-checks" bound="shape 1x2x2" what="flatten / get_flat" timeout=900
    flatten_h!(c14_flatten_1x2x2, 1usize, 2usize, 2usize);
    // @harness c14_flatten_1x1x2 props=C14,C08 tier=thorough kind=bounded flags="--no-overflow-checks" bound="shape 1x1x2" what="flatten / get_flat" timeout=900
    flatten_h!(c14_flatten_1x1x2, 1usize, 1usize, 2usize);
    // @harness c14_flatten_2x2x2 props=C14,C08 tier=thorough kind=bounded flags="--no-overflow-checks" bound="shape 2x2x2" what="flatten / get_flat" timeout=1500
    flatten_h!(c14_flatten_2x2x2, 2usize, 2usize, 2usize);
    // @harness c14_unflatten_1x2x3 props=C14,C08 tier=quick kind=bounded flags="--no-overflow-checks" bound="6 -> 1x2x3" what="get_triple / reshape(vector -> 3-D) fill row-major" timeout=900
    unflatten_h!(c14_unflatten_1x2x3, 1usize, 2usize, 3usize);
    // @harness c14_unflatten_2x1x2 props=C14,C08 tier=thorough kind=bounded flags="--no-overflow-checks" bound="4 -> 2x1x2" what="get_triple / reshape(vector -> 3-D)" timeout=1500
    unflatten_h!(c14_unflatten_2x1x2, 2usize, 1usize, 2usize);
    // @harness c14_reshape_to_vec_1x2x3 props=C14 tier=quick kind=bounded flags="--no-overflow-checks" bound="1x2x3 -> 6" what="reshape 3-D -> vector keeps the row-major sequence" timeout=900
    reshape_to_vec_h!(c14_reshape_to_vec_1x2x3, 1usize, 2usize, 3usize);
    // (measured in the thorough tier: no result within 2400-3000 s (symbolic execution of the nested flat_map / stateful iterator); get_flat and reshape are proved for every shape in Verus (C14_reshape.rs) - kept for reference, not part of any tier)
    // @probe c14_reshape_1x2x3 props=C14 tier=thorough kind=bounded flags="--no-overflow-checks" bound="1x2x3 -> 3x2x1 -> 1x2x3" what="3-D -> 3-D -> back is the identity on the row-major sequence" timeout=3000 mem=20
    reshape_h!(c14_reshape_1x2x3, 1usize, 2usize, 3usize, 3usize, 2usize, 1usize);
    // (measured in the thorough tier: no result within 2400-3000 s (symbolic execution of the nested flat_map / stateful iterator); get_flat and reshape are proved for every shape in Verus (C14_reshape.rs) - kept for reference, not part of any tier)
    // @probe c14_reshape_1x1x2 props=C14 tier=thorough kind=bounded flags="--no-overflow-checks" bound="1x1x2 -> 2x1x1 -> back" what="reshape round trip" timeout=3000 mem=20
    reshape_h!(c14_reshape_1x1x2, 1usize, 1usize, 2usize, 2usize, 1usize, 1usize);
    // (measured in the thorough tier: no result within 2400-3000 s (symbolic execution of the nested flat_map / stateful iterator); get_flat and reshape are proved for every shape in Verus (C14_reshape.rs) - kept for reference, not part of any tier)
    // @probe c14_reshape_2x2x2 props=C14 tier=thorough kind=bounded flags="--no-overflow-checks" bound="2x2x2 -> 1x4x2 -> 2x2x2; -> 8" what="reshape round trip" timeout=3000 mem=20
    reshape_h!(c14_reshape_2x2x2, 2usize, 2usize, 2usize, 1usize, 4usize, 2usize);

    macro_rules! refuse {
        ($name:ident, $from:expr, $to:expr) => {
            #[kani::proof]
            #[kani::unwind(8)]
            #[kani::should_panic]
            fn $name() {
                let t = match $from { 0u8 => Tensor::single(v1(4)), _ => Tensor::triple(v3(1, 2, 2)) };
                let _ = t.reshape(match $to { 0u8 => Shape::Single(5), 1u8 => Shape::Triple(1, 2, 3), _ => Shape::Triple(2, 2, 2) });
            }
        };
    }
    // @harness c14_refuse_vec_to_3d props=C14 tier=quick kind=bounded flags="--no-overflow-checks" bound="4 elements -> 1x2x3" what="reshape to a different element count is refused (vector -> 3-D)" timeout=600
    refuse!(c14_refuse_vec_to_3d, 0u8, 1u8);
    // @harness c14_refuse_3d_to_3d props=C14 tier=quick kind=bounded flags="--no-overflow-checks" bound="1x2x2 -> 2x2x2" what="refused (3-D -> 3-D)" timeout=600
    refuse!(c14_refuse_3d_to_3d, 1u8, 2u8);
    // @harness c14_refuse_3d_to_vec props=C14 tier=quick kind=bounded flags="--no-overflow-checks" bound="1x2x2 -> 5" what="refused (3-D -> vector)" timeout=600
    refuse!(c14_refuse_3d_to_vec, 1u8, 0u8);

    // ---------------------------------------------------------------- C18: Tensor::random (modular on generate's verified contract)
    fn now_stub() -> std::time::SystemTime {
        let us: u32 = kani::any();
        kani::assume(us < 1_000_000);
        std::time::UNIX_EPOCH + std::time::Duration::from_micros(us as u64)
    }
    macro_rules! random_h {
        ($name:ident, $shape:expr, $count:expr) => {
            #[kani::proof]
            #[kani::unwind(5)]
            #[kani::stub(std::time::SystemTime::now, now_stub)]
            #[kani::stub_verified(crate::random::Generator::generate)]
            fn $name() {
                let min: f32 = kani::any();
                let max: f32 = kani::any();
                kani::assume(min.is_finite() && max.is_finite() && min <= max);
                let t = Tensor::random($shape, min, max);
                // requested shape, recorded shape matches the data, every entry inside the interval
                assert!(t.shape == $shape && shape_matches(&t));
                let f = flat_of(&t);
                assert!(f.len() == $count);
                let mut i = 0;
                while i < f.len() { assert!(f[i] >= min && f[i] <= max); i += 1; }
                kani::cover!(f[0] != f[1]);
                std::mem::forget(t);
            }
        };
    }
    // @harness c18_random_single props=C18 tier=quick kind=bounded modular=1 flags="--no-overflow-checks" bound="shape 2; every clock seed; every value generate's contract allows" what="Tensor::random: requested shape, all entries in [min,max]" timeout=900
    random_h!(c18_random_single, Shape::Single(2), 2usize);
    // @harness c18_random_double props=C18 tier=quick kind=bounded modular=1 flags="--no-overflow-checks" bound="shape 1x2" what="Tensor::random 2-D" timeout=900
    random_h!(c18_random_double, Shape::Double(1, 2), 2usize);
    // @harness c18_random_triple props=C18 tier=quick kind=bounded modular=1 flags="--no-overflow-checks" bound="shape 1x1x2" what="Tensor::random 3-D" timeout=1200
    random_h!(c18_random_triple, Shape::Triple(1, 1, 2), 2usize);
    // @harness c18_random_quadruple props=C18 tier=quick kind=bounded modular=1 flags="--no-overflow-checks" bound="shape 1x1x1x2" what="Tensor::random 4-D" timeout=1200
    random_h!(c18_random_quadruple, Shape::Quadruple(1, 1, 1, 2), 2usize);
}
