// Kani harnesses on the real layer functions with tiny concrete shapes and symbolic small-integer data
// (C02 flat == spatial, dense forward/backward, pad3d; C08 flat-size acceptance; C09 dropout guard).

#[cfg(kani)]
mod harnesses {
    use super::*;
    use crate::activation::Activation;
    use crate::tensor::{Data, Shape, Tensor};
    use crate::{convolution, deconvolution, dense, maxpool};

    fn small() -> f32 { let k: i8 = kani::any(); kani::assume(k >= -3 && k <= 4); k as f32 }
    fn vec_small(n: usize) -> Vec<f32> { let mut v = Vec::with_capacity(n); let mut i = 0; while i < n { v.push(small()); i += 1; } v }
    fn as3(flat: &Vec<f32>, c: usize, h: usize, w: usize) -> Vec<Vec<Vec<f32>>> {
        let mut out = Vec::new();
        let mut k = 0;
        let mut a = 0;
        while a < c { let mut ch = Vec::new(); let mut b = 0; while b < h { let mut row = Vec::new(); let mut d = 0; while d < w { row.push(flat[k]); k += 1; d += 1; } ch.push(row); b += 1; } out.push(ch); a += 1; }
        out
    }
    fn same(a: &Tensor, b: &Tensor) -> bool {
        match (&a.data, &b.data) {
            (Data::Triple(x), Data::Triple(y)) => {
                if x.len() != y.len() { return false; }
                let mut i = 0;
                while i < x.len() {
                    if x[i].len() != y[i].len() { return false; }
                    let mut j = 0;
                    while j < x[i].len() {
                        if x[i][j].len() != y[i][j].len() { return false; }
                        let mut k = 0;
                        while k < x[i][j].len() { if x[i][j][k].to_bits() != y[i][j][k].to_bits() { return false; } k += 1; }
                        j += 1;
                    }
                    i += 1;
                }
                true
            }
            _ => false,
        }
    }


}
