// F2 (DESIGN §4): contract stubs for libm functions, used with `#[kani::stub(f32::exp, libm::exp_model)]`.
// Each returns a nondeterministic value constrained only by facts the C standard (Annex F) / IEEE-754 guarantee.
// These are ASSUMPTIONS about the platform libm and are listed as such in the evidence.

#[cfg(kani)]
pub mod models {
    /// exp: NaN iff NaN in; >= 0; exp(0)=1; >=1 for x>0; <=1 for x<0; exp(-inf)=0; exp(+inf)=+inf;
    /// finite for x <= 88 (f32::MAX = e^88.72..); strictly positive for finite x >= -87 (MIN_POSITIVE = e^-87.33..)
    pub fn exp_model(x: f32) -> f32 {
        let r: f32 = kani::any();
        if x.is_nan() {
            kani::assume(r.is_nan());
            return r;
        }
        kani::assume(!r.is_nan() && r >= 0.0);
        if x == 0.0 { kani::assume(r == 1.0); }
        if x > 0.0 { kani::assume(r >= 1.0); }
        if x < 0.0 { kani::assume(r <= 1.0); }
        if x == f32::NEG_INFINITY { kani::assume(r == 0.0); }
        if x == f32::INFINITY { kani::assume(r == f32::INFINITY); }
        if x <= 88.0 { kani::assume(r.is_finite()); }
        if x >= -87.0 { kani::assume(r > 0.0); }
        r
    }
    /// ln: NaN for x<0 or NaN; -inf at +-0; +inf at +inf; ln(1)=0; sign; |ln x| <= 104 for finite x>0
    pub fn ln_model(x: f32) -> f32 {
        let r: f32 = kani::any();
        if x.is_nan() || x < 0.0 {
            kani::assume(r.is_nan());
            return r;
        }
        if x == 0.0 { kani::assume(r == f32::NEG_INFINITY); return r; }
        if x == f32::INFINITY { kani::assume(r == f32::INFINITY); return r; }
        kani::assume(!r.is_nan() && r >= -104.0 && r <= 89.0);
        if x == 1.0 { kani::assume(r == 0.0); }
        if x < 1.0 { kani::assume(r <= 0.0); }
        if x > 1.0 { kani::assume(r >= 0.0); }
        r
    }
    /// tanh: NaN iff NaN in; in [-1,1]; sign of x; tanh(+-0)=+-0
    pub fn tanh_model(x: f32) -> f32 {
        let r: f32 = kani::any();
        if x.is_nan() { kani::assume(r.is_nan()); return r; }
        kani::assume(!r.is_nan() && r >= -1.0 && r <= 1.0);
        if x == 0.0 { kani::assume(r == 0.0); }
        if x > 0.0 { kani::assume(r >= 0.0); }
        if x < 0.0 { kani::assume(r <= 0.0); }
        r
    }
    /// cosh: NaN iff NaN in; >= 1 (possibly +inf)
    pub fn cosh_model(x: f32) -> f32 {
        let r: f32 = kani::any();
        if x.is_nan() { kani::assume(r.is_nan()); return r; }
        kani::assume(!r.is_nan() && r >= 1.0);
        r
    }
    /// powi: x^2 is the single correctly rounded product x*x (LLVM lowers powi(x,2) to fmul); other exponents: only
    /// NaN-freedom for non-NaN x is assumed.
    pub fn powi_model(x: f32, n: i32) -> f32 {
        if n == 2 { return x * x; }
        if n == 1 { return x; }
        if n == 0 { return 1.0; }
        let r: f32 = kani::any();
        if !x.is_nan() { kani::assume(!r.is_nan()); }
        r
    }
}
