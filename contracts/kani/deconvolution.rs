// Kani harnesses for src/deconvolution.rs (C02: flat input == spatial input).  The re-chunking of a flat input is a REGION of
// Deconvolution::forward; it is emitted verbatim as a method of its own:
//@region fn=verif_input_view impl=Deconvolution src=forward part="region:/let x = match &x\.data \{/../let x = match &x\.data \{/" sig="(&self, x: &tensor::Tensor) -> Vec<Vec<Vec<f32>>>" tail="x"

// C09: the dropout guard of Deconvolution::forward, emitted verbatim as a method of its own:
//@region fn=verif_dropout_guard impl=Deconvolution src=forward part="region:/if self\.training \{/../if self\.training \{/" sig="(&self, post: &mut tensor::Tensor)" tail=""

#[cfg(kani)]
mod harnesses {
    use super::*;
    use crate::tensor::{Shape, Tensor};

    fn small() -> f32 { let k: i8 = kani::any(); kani::assume(k >= -3 && k <= 4); k as f32 }
    fn random_stub(shape: Shape, _min: f32, _max: f32) -> Tensor {
        match shape { Shape::Triple(c, h, w) => Tensor::triple(vec![vec![vec![1.0; w]; h]; c]), Shape::Single(n) => Tensor::single(vec![1.0; n]), _ => panic!("unsupported in stub") }
    }

    fn dropout_must_not_run(_t: &mut Tensor, _p: f32) { panic!("Tensor::dropout reached although the layer is not training"); }
    fn dropout_mark(t: &mut Tensor, _p: f32) { *t = Tensor::single(vec![-7.0]); }

    // @harness c09_guard_deconvolution props=C09 tier=quick kind=bounded flags="--no-overflow-checks" bound="dropout guard region of Deconvolution::forward, layer with dropout 0.5" what="not training => Tensor::dropout unreachable; training => it is applied" timeout=600
    #[kani::proof]
    #[kani::unwind(4)]
    #[kani::stub(crate::tensor::Tensor::random, random_stub)]
    #[kani::stub(crate::tensor::Tensor::dropout, dropout_must_not_run)]
    fn c09_guard_deconvolution() {
        let layer = Deconvolution::create(Shape::Triple(1, 1, 1), 1, &crate::activation::Activation::Linear, (1, 1), (1, 1), (0, 0), Some(0.5));
        assert!(!layer.training);
        let mut post = Tensor::single(vec![small()]);
        layer.verif_dropout_guard(&mut post);
        kani::cover!(post.get_flat()[0] == 2.0);
        std::mem::forget(layer);
    }
    // @harness c09_guard_deconvolution_on props=C09 tier=thorough kind=bounded flags="--no-overflow-checks" bound="dropout guard region, training = true" what="training => dropout is applied (guard is not dead code)" timeout=600
    #[kani::proof]
    #[kani::unwind(4)]
    #[kani::stub(crate::tensor::Tensor::random, random_stub)]
    #[kani::stub(crate::tensor::Tensor::dropout, dropout_mark)]
    fn c09_guard_deconvolution_on() {
        let mut layer = Deconvolution::create(Shape::Triple(1, 1, 1), 1, &crate::activation::Activation::Linear, (1, 1), (1, 1), (0, 0), Some(0.5));
        layer.training = true;
        let mut post = Tensor::single(vec![small()]);
        layer.verif_dropout_guard(&mut post);
        assert!(post.get_flat()[0] == -7.0);
        kani::cover!(true);
        std::mem::forget(layer);
    }

    macro_rules! view_harness {
        ($name:ident, $c:expr, $h:expr, $w:expr) => {
            #[kani::proof]
            #[kani::unwind(14)]
            #[kani::stub(crate::tensor::Tensor::random, random_stub)]
            fn $name() {
                let layer = Deconvolution::create(Shape::Triple($c, $h, $w), 1, &crate::activation::Activation::Linear, (1, 1), (1, 1), (0, 0), None);
                let n: usize = $c * $h * $w;
                let mut flat: Vec<f32> = Vec::with_capacity(n);
                let mut i = 0;
                while i < n { flat.push(small()); i += 1; }
                let x = layer.verif_input_view(&Tensor::single(flat.clone()));
                
                assert!(x.len() == $c);
                let mut k = 0;
                let mut a = 0;
                while a < $c {
                    assert!(x[a].len() == $h);
                    let mut b = 0;
                    while b < $h {
                        assert!(x[a][b].len() == $w);
                        let mut d = 0;
                        while d < $w { assert!(x[a][b][d].to_bits() == flat[k].to_bits()); k += 1; d += 1; }
                        b += 1;
                    }
                    a += 1;
                }
                kani::cover!(n > 1 && flat[0] != flat[1]);
                std::mem::forget(layer); // dropping a Vec<Tensor> makes CBMC unwind the drop glue of every Data variant
            }
        };
    }
    // @harness c02_deconvolution_view_1x2x3 props=C02,C08 tier=quick kind=bounded flags="--no-overflow-checks" bound="1x2x3 input given flat; data in -3..4" what="deconvolution reads a flat input as c x h x w row-major with the input extents" timeout=600
    view_harness!(c02_deconvolution_view_1x2x3, 1usize, 2usize, 3usize);
    // @harness c02_deconvolution_view_2x2x2 props=C02,C08 tier=thorough kind=bounded flags="--no-overflow-checks" bound="2x2x2 input given flat" what="deconvolution flat input view, two channels" timeout=900
    view_harness!(c02_deconvolution_view_2x2x2, 2usize, 2usize, 2usize);
}
