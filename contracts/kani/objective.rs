// Kani harnesses for src/objective.rs (property C06).
// * finiteness / clamp / shape: singleton tensors of both ranks, every in-domain f32 (complete over the element domain),
//   `ln` replaced by its F2 contract stub;
// * fold structure: small shapes, data from a small exact grid, `ln` replaced by the fixed stand-in x -> x - 1
//   (any fixed function will do: the clause checked is WHICH terms are combined HOW, the per-element formulas are the
//   Verus units' business).

#[cfg(kani)]
mod harnesses {
    use super::*;
    use crate::tensor::verif_libm::models::*;
    use crate::tensor::{Data, Shape, Tensor};

    fn wrap(v: f32, triple: bool) -> Tensor {
        if triple { Tensor::triple(vec![vec![vec![v]]]) } else { Tensor::single(vec![v]) }
    }
    fn only(t: &Tensor, triple: bool) -> f32 {
        if triple {
            assert!(t.shape == Shape::Triple(1, 1, 1));
            match &t.data { Data::Triple(d) => { assert!(d.len() == 1 && d[0].len() == 1 && d[0][0].len() == 1); d[0][0][0] } _ => panic!("rank changed") }
        } else {
            assert!(t.shape == Shape::Single(1));
            match &t.data { Data::Single(d) => { assert!(d.len() == 1); d[0] } _ => panic!("rank changed") }
        }
    }
    fn unit_interval() -> f32 { let v: f32 = kani::any(); kani::assume(v >= 0.0 && v <= 1.0); v }
    fn moderate() -> f32 { let v: f32 = kani::any(); kani::assume(v >= -1.0e18 && v <= 1.0e18); v }
    fn limit(g: f32, lo: f32, hi: f32) -> f32 { if g < lo { lo } else if g > hi { hi } else { g } }

    macro_rules! finite_harness {
        ($name:ident, $obj:expr, $triple:expr, $dom:ident) => {
            #[kani::proof]
            #[kani::unwind(3)]
            #[kani::stub(f32::ln, ln_model)]
            #[kani::stub(f32::powi, powi_model)]
            fn $name() {
                let a = $dom();
                let p = $dom();
                let f = Function::create($obj, None);
                let (loss, g) = f.loss(&wrap(p, $triple), &wrap(a, $triple));
                // loss finite for every in-domain pair, including exactly 0 and 1
                assert!(!loss.is_nan() && !loss.is_infinite());
                // gradient has the prediction's shape (checked inside `only`)
                let _g = only(&g, $triple);
                kani::cover!(a == 0.0 && p == 1.0);
                kani::cover!(a == 1.0 && p == 0.0);
            }
        };
    }
    // @harness c06_ae_finite_single props=C06 tier=quick kind=complete flags="--no-overflow-checks" what="AE: loss finite, gradient shape; all |a|,|p| <= 1e18; flat" timeout=600
    finite_harness!(c06_ae_finite_single, Objective::AE, false, moderate);
    // @harness c06_mse_finite_triple props=C06 tier=thorough kind=complete flags="--no-overflow-checks" what="MSE: loss finite, gradient shape; all |a|,|p| <= 1e18; 3-D" timeout=2400 mem=16
    finite_harness!(c06_mse_finite_triple, Objective::MSE, true, moderate);
    // @harness c06_bce_finite_single props=C06 tier=quick kind=complete flags="--no-overflow-checks" what="binary cross-entropy: loss finite on [0,1]^2 incl. 0 and 1 (ln by contract), shape; flat" timeout=600
    finite_harness!(c06_bce_finite_single, Objective::BinaryCrossEntropy, false, unit_interval);
    // @harness c06_kl_finite_single props=C06 tier=quick kind=complete flags="--no-overflow-checks" what="KL divergence: loss finite on [0,1]^2 incl. target 0 (ln by contract), shape; flat" timeout=600
    finite_harness!(c06_kl_finite_single, Objective::KLDivergence, false, unit_interval);
    // @harness c06_kl_finite_triple props=C06 tier=thorough kind=complete flags="--no-overflow-checks" what="KL divergence, 3-D" timeout=2400 mem=16
    finite_harness!(c06_kl_finite_triple, Objective::KLDivergence, true, unit_interval);
    // @harness c06_bce_finite_triple props=C06 tier=thorough kind=complete flags="--no-overflow-checks" what="binary cross-entropy, 3-D" timeout=2400 mem=16
    finite_harness!(c06_bce_finite_triple, Objective::BinaryCrossEntropy, true, unit_interval);
    // @harness c06_ae_finite_triple props=C06 tier=thorough kind=complete flags="--no-overflow-checks" what="AE, 3-D" timeout=2400 mem=16
    finite_harness!(c06_ae_finite_triple, Objective::AE, true, moderate);
    // @harness c06_mse_finite_single props=C06 tier=quick kind=complete flags="--no-overflow-checks" what="MSE, flat" timeout=900
    finite_harness!(c06_mse_finite_single, Objective::MSE, false, moderate);
    // @harness c06_ce_finite_single props=C06 tier=thorough kind=complete flags="--no-overflow-checks" what="cross-entropy on [0,1]^2: loss finite, shape; flat" timeout=900
    finite_harness!(c06_ce_finite_single, Objective::CrossEntropy, false, unit_interval);

    // clamp: the clamped gradient is the unclamped one limited to the interval (MSE gradient -2(a-p)/n, exact on the grid)
    macro_rules! clamp_harness {
        ($name:ident, $obj:expr, $triple:expr) => {
            #[kani::proof]
            #[kani::unwind(3)]
            #[kani::stub(f32::ln, ln_standin)]
            #[kani::stub(f32::powi, powi_model)]
            fn $name() {
                let a = grid();
                let p = grid();
                let lo: f32 = kani::any();
                let hi: f32 = kani::any();
                kani::assume(lo <= hi);
                let (_, g0) = Function::create($obj, None).loss(&wrap(p, $triple), &wrap(a, $triple));
                let (_, g1) = Function::create($obj, Some((lo, hi))).loss(&wrap(p, $triple), &wrap(a, $triple));
                let g0 = only(&g0, $triple);
                let g1 = only(&g1, $triple);
                assert!(g0.is_nan() || g1 == limit(g0, lo, hi));
                kani::cover!(g1 != g0);
                kani::cover!(g1 == g0 && g0 != 0.0);
            }
        };
    }
    // @harness c06_clamp_mse_single props=C06 tier=quick kind=complete flags="--no-overflow-checks" what="MSE gradient with clamp (lo,hi) = unclamped gradient limited to [lo,hi]; every lo<=hi; a,p on the exact grid; flat" timeout=600
    clamp_harness!(c06_clamp_mse_single, Objective::MSE, false);
    // @harness c06_clamp_bce_triple props=C06 tier=thorough kind=complete flags="--no-overflow-checks" what="BCE gradient with clamp, 3-D" timeout=2400 mem=16
    clamp_harness!(c06_clamp_bce_triple, Objective::BinaryCrossEntropy, true);
    // @harness c06_clamp_ae_triple props=C06 tier=thorough kind=complete flags="--no-overflow-checks" what="AE gradient with clamp, 3-D" timeout=2400 mem=16
    clamp_harness!(c06_clamp_ae_triple, Objective::AE, true);
    // @harness c06_clamp_kl_single props=C06 tier=quick kind=complete flags="--no-overflow-checks" what="KL gradient with clamp, flat" timeout=600
    clamp_harness!(c06_clamp_kl_single, Objective::KLDivergence, false);
    // @harness c06_clamp_ce_single props=C06 tier=thorough kind=complete flags="--no-overflow-checks" what="CE gradient with clamp, flat" timeout=600
    clamp_harness!(c06_clamp_ce_single, Objective::CrossEntropy, false);
    // @harness c06_clamp_mae_single props=C06 tier=thorough kind=complete flags="--no-overflow-checks" what="MAE gradient with clamp, flat" timeout=600
    clamp_harness!(c06_clamp_mae_single, Objective::MAE, false);
    // @harness c06_clamp_rmse_single props=C06 tier=thorough kind=complete flags="--no-overflow-checks" what="RMSE gradient with clamp, flat" timeout=900
    clamp_harness!(c06_clamp_rmse_single, Objective::RMSE, false);

    // ---- fold structure -----------------------------------------------------------------------------------
    fn ln_standin(x: f32) -> f32 { x - 1.0 }
    fn grid() -> f32 { let k: u8 = kani::any(); kani::assume(k <= 4); k as f32 * 0.25 }
    fn cl(p: f32) -> f32 { let e: f32 = 1e-6; if p < e { e } else if p > 1.0 - e { 1.0 - e } else { p } }

    /// documented aggregate of the per-element terms, in element order
    fn reference(obj: u8, a: &[f32], p: &[f32]) -> f32 {
        let n = a.len() as f32;
        let mut s = 0.0f32;
        let mut i = 0;
        while i < a.len() {
            let (x, y) = (a[i], p[i]);
            s += match obj {
                0 | 1 => (x - y).abs(),
                2 => (x - y) * (x - y) / n,
                3 => (x - y) * (x - y),
                4 => x * ln_standin(cl(y)),
                5 => x * ln_standin(cl(y)) + (1.0 - x) * ln_standin(1.0 - cl(y)),
                _ => if x == 0.0 { 0.0 } else { x * ln_standin(x / cl(y)) },
            };
            i += 1;
        }
        match obj { 1 => s / n, 3 => (s / n).sqrt(), 4 | 5 => -s, _ => s }
    }
    fn objective(obj: u8) -> Function {
        Function::create(match obj {
            0 => Objective::AE, 1 => Objective::MAE, 2 => Objective::MSE, 3 => Objective::RMSE,
            4 => Objective::CrossEntropy, 5 => Objective::BinaryCrossEntropy, _ => Objective::KLDivergence }, None)
    }
    macro_rules! fold_harness {
        ($name:ident, $obj:expr, $triple:expr) => {
            #[kani::proof]
            #[kani::unwind(4)]
            #[kani::stub(f32::ln, ln_standin)]
            #[kani::stub(f32::powi, powi_model)]
            fn $name() {
                let a = [grid(), grid()];
                let p = [grid(), grid()];
                let f = objective($obj);
                let (l, g) = if $triple {
                    f.loss(&Tensor::triple(vec![vec![p.to_vec()]]), &Tensor::triple(vec![vec![a.to_vec()]]))
                } else {
                    f.loss(&Tensor::single(p.to_vec()), &Tensor::single(a.to_vec()))
                };
                let r = reference($obj, &a, &p);
                assert!(l == r || (l.is_nan() && r.is_nan()));
                assert!(g.shape == if $triple { Shape::Triple(1, 1, 2) } else { Shape::Single(2) });
                kani::cover!(a[0] != a[1] && p[0] != p[1]);
            }
        };
    }
    // @harness c06_fold_ae props=C06 tier=thorough kind=bounded flags="--no-overflow-checks" bound="2 elements, data in {0,.25,.5,.75,1}" what="AE loss = sum of element terms in order; flat path == 3-D path" timeout=1800
    fold_harness!(c06_fold_ae, 0u8, true);
    // @harness c06_fold_mae props=C06 tier=quick kind=bounded flags="--no-overflow-checks" bound="2 elements, data in {0,.25,.5,.75,1}" what="MAE loss = sum/n" timeout=1800
    fold_harness!(c06_fold_mae, 1u8, false);
    // @harness c06_fold_mse props=C06 tier=thorough kind=bounded flags="--no-overflow-checks" bound="2 elements, data in {0,.25,.5,.75,1}" what="MSE loss" timeout=1800
    fold_harness!(c06_fold_mse, 2u8, false);
    // @harness c06_fold_rmse props=C06 tier=thorough kind=bounded flags="--no-overflow-checks" bound="2 elements, data in {0,.25,.5,.75,1}" what="RMSE loss = sqrt(sum/n)" timeout=1800
    fold_harness!(c06_fold_rmse, 3u8, false);
    // @harness c06_fold_ce props=C06 tier=quick kind=bounded flags="--no-overflow-checks" bound="2 elements, data in {0,.25,.5,.75,1}; ln := x-1 stand-in" what="cross-entropy loss = -sum a ln p" timeout=1800
    fold_harness!(c06_fold_ce, 4u8, false);
    // @harness c06_fold_bce props=C06 tier=thorough kind=bounded flags="--no-overflow-checks" bound="2 elements, data in {0,.25,.5,.75,1}; ln := x-1 stand-in" what="binary cross-entropy loss" timeout=1800
    fold_harness!(c06_fold_bce, 5u8, false);
    // @harness c06_fold_kl props=C06 tier=thorough kind=bounded flags="--no-overflow-checks" bound="2 elements, data in {0,.25,.5,.75,1}; ln := x-1 stand-in" what="KL loss = sum a ln(a/p), 0 ln 0 := 0" timeout=1800
    fold_harness!(c06_fold_kl, 6u8, false);
}
