// Kani harnesses for src/dense.rs (C02 dense forward = act(Wx+b); C01 dense backward = derivatives).
// Concrete tiny shapes, symbolic data on the exact small-integer grid (every sum / product exact in f32).

#[cfg(kani)]
mod harnesses {
    use super::*;
    use crate::activation::Activation;
    use crate::tensor::{Data, Shape, Tensor};

    fn small() -> f32 { let k: i8 = kani::any(); kani::assume(k >= -3 && k <= 4); k as f32 }
    fn random_stub(shape: Shape, _min: f32, _max: f32) -> Tensor {
        match shape {
            Shape::Single(n) => Tensor::single(vec![1.0; n]),
            Shape::Double(r, c) => Tensor::double(vec![vec![1.0; c]; r]),
            _ => panic!("unsupported in stub"),
        }
    }
    fn act(kind: u8, v: f32) -> f32 { match kind { 0 => v, 1 => if v > 0.0 { v } else { 0.0 }, _ => if v > 0.0 { v } else { 0.01 * v } } }
    fn dact(kind: u8, v: f32) -> f32 { match kind { 0 => 1.0, 1 => if v > 0.0 { 1.0 } else { 0.0 }, _ => if v > 0.0 { 1.0 } else { 0.01 } } }
    fn activation(kind: u8) -> Activation { match kind { 0 => Activation::Linear, 1 => Activation::ReLU, _ => Activation::LeakyReLU } }
    fn flat(t: &Tensor) -> Vec<f32> { match &t.data { Data::Single(d) => d.clone(), _ => panic!("expected a vector") } }

    macro_rules! forward_h {
        ($name:ident, $kind:expr, $bias:expr) => {
            #[kani::proof]
            #[kani::unwind(5)]
            #[kani::stub(crate::tensor::Tensor::random, random_stub)]
            fn $name() {
                let mut l = Dense::create(Shape::Single(2), Shape::Single(2), &activation($kind), $bias, None);
                let w = [[small(), small()], [small(), small()]];
                let b = [small(), small()];
                let x = [small(), small()];
                l.weights = Tensor::double(vec![w[0].to_vec(), w[1].to_vec()]);
                if $bias { l.bias = Some(Tensor::single(b.to_vec())); }
                let (pre, post) = l.forward(&Tensor::single(x.to_vec()));
                let (pre, post) = (flat(&pre), flat(&post));
                assert!(pre.len() == 2 && post.len() == 2);
                let mut o = 0;
                while o < 2 {
                    let z = w[o][0] * x[0] + w[o][1] * x[1] + if $bias { b[o] } else { 0.0 };
                    assert!(pre[o] == z);
                    assert!(post[o] == act($kind, z));
                    o += 1;
                }
                kani::cover!(pre[0] < 0.0 && pre[1] > 0.0);
                std::mem::forget(l);
            }
        };
    }
    // @harness c02_dense_forward_relu_bias props=C02 tier=quick kind=bounded flags="--no-overflow-checks" bound="dense 2->2, ReLU, bias; data in -3..4" what="dense forward: pre = W x + b, post = activation(pre)" timeout=900
    forward_h!(c02_dense_forward_relu_bias, 1u8, true);
    // @harness c02_dense_forward_linear_nobias props=C02 tier=thorough kind=bounded flags="--no-overflow-checks" bound="dense 2->2, identity, no bias" what="dense forward without bias" timeout=900
    forward_h!(c02_dense_forward_linear_nobias, 0u8, false);
    // @harness c02_dense_forward_leaky_bias props=C02 tier=thorough kind=bounded flags="--no-overflow-checks" bound="dense 2->2, leaky ReLU, bias" what="dense forward, leaky ReLU" timeout=900
    forward_h!(c02_dense_forward_leaky_bias, 2u8, true);

    macro_rules! backward_h {
        ($name:ident, $kind:expr, $bias:expr) => {
            #[kani::proof]
            #[kani::unwind(5)]
            #[kani::stub(crate::tensor::Tensor::random, random_stub)]
            fn $name() {
                let mut l = Dense::create(Shape::Single(2), Shape::Single(2), &activation($kind), $bias, None);
                let w = [[small(), small()], [small(), small()]];
                let x = [small(), small()];
                let pre = [small(), small()];     // the pre-activation recorded by the forward pass
                let g = [small(), small()];       // dL/d(post) handed down by the next layer
                kani::assume(pre[0] != 0.0 && pre[1] != 0.0);   // away from the activation kinks
                l.weights = Tensor::double(vec![w[0].to_vec(), w[1].to_vec()]);
                let (ig, wg, bg) = l.backward(&Tensor::single(g.to_vec()), &Tensor::single(x.to_vec()), &Tensor::single(pre.to_vec()));
                // chain rule through post = act(pre), pre = W x + b
                let d = [g[0] * dact($kind, pre[0]), g[1] * dact($kind, pre[1])];
                match &wg.data {
                    Data::Double(m) => {
                        assert!(wg.shape == Shape::Double(2, 2) && m.len() == 2 && m[0].len() == 2 && m[1].len() == 2);
                        let mut o = 0;
                        while o < 2 { let mut i = 0; while i < 2 { assert!(m[o][i] == d[o] * x[i]); i += 1; } o += 1; }
                    }
                    _ => panic!("weight gradient must have the weights' rank"),
                }
                match (&bg, $bias) {
                    (Some(b), true) => { let b = flat(b); assert!(b.len() == 2 && b[0] == d[0] && b[1] == d[1]); }
                    (None, false) => {}
                    _ => panic!("bias gradient present iff the layer has a bias"),
                }
                let ig = flat(&ig);
                assert!(ig.len() == 2);
                assert!(ig[0] == w[0][0] * d[0] + w[1][0] * d[1]);
                assert!(ig[1] == w[0][1] * d[0] + w[1][1] * d[1]);
                kani::cover!(pre[0] < 0.0 && pre[1] > 0.0 && g[0] != 0.0);
                std::mem::forget(l);
            }
        };
    }
    // @harness c01_dense_backward_relu_bias props=C01 tier=quick kind=bounded flags="--no-overflow-checks" bound="dense 2->2, ReLU, bias; data in -3..4, pre != 0" what="dense backward: dW = delta x^T, db = delta, dx = W^T delta with delta = g * act'(pre)" timeout=1200
    backward_h!(c01_dense_backward_relu_bias, 1u8, true);
    // @harness c01_dense_backward_linear_nobias props=C01 tier=thorough kind=bounded flags="--no-overflow-checks" bound="dense 2->2, identity, no bias" what="dense backward without bias" timeout=1200
    backward_h!(c01_dense_backward_linear_nobias, 0u8, false);
    // @harness c01_dense_backward_leaky_bias props=C01 tier=thorough kind=bounded flags="--no-overflow-checks" bound="dense 2->2, leaky ReLU, bias" what="dense backward, leaky ReLU" timeout=1200
    backward_h!(c01_dense_backward_leaky_bias, 2u8, true);

    // ---- soft-max output layer under cross-entropy: the gradients must be those of CE(softmax(z)), i.e. delta = p - t
    fn exp_standin(x: f32) -> f32 { if x >= 0.0 { 1.0 } else { 0.5 } }     // any fixed positive function serves: the clause is structural
    fn ln_standin(x: f32) -> f32 { x - 1.0 }
    // @harness c01_softmax_ce_n2 props=C01 tier=quick kind=bounded flags="--no-overflow-checks" bound="dense 1->2 with soft-max, cross-entropy, one-hot target; exp/ln replaced by fixed stand-ins" what="soft-max + cross-entropy: bias gradient (= delta) equals softmax(z) - target" timeout=1200
    #[kani::proof]
    #[kani::unwind(5)]
    #[kani::stub(crate::tensor::Tensor::random, random_stub)]
    #[kani::stub(f32::exp, exp_standin)]
    #[kani::stub(f32::ln, ln_standin)]
    fn c01_softmax_ce_n2() {
        let mut l = Dense::create(Shape::Single(1), Shape::Single(2), &Activation::Softmax, true, None);
        let z = [small(), small()];
        let hot: bool = kani::any();
        let t = if hot { [1.0f32, 0.0] } else { [0.0f32, 1.0] };
        let pre = Tensor::single(z.to_vec());
        let p = l.activation.forward(&pre);
        let ce = crate::objective::Function::create(crate::objective::Objective::CrossEntropy, None);
        let (_loss, g) = ce.loss(&p, &Tensor::single(t.to_vec()));
        let (_ig, _wg, bg) = l.backward(&g, &Tensor::single(vec![1.0]), &pre);
        let (p, d) = (flat(&p), flat(&bg.unwrap()));
        assert!(d[0] == p[0] - t[0] && d[1] == p[1] - t[1]);
        kani::cover!(z[0] != z[1]);
        std::mem::forget(l);
    }
}
