// Kani harnesses on slices / regions of src/network.rs (C13 early stopping and histories; C09 training flags).
//
// The slice of `learn` keeps every statement that reads or writes the histories, the epoch counter and the stopping threshold;
// the two training-flag loops (C09 has its own regions), the batch loop and the print blocks are dropped (mechanical non-interference scan, see
// tools/mirror.py), `self.validate(..)` becomes an oracle.  The early-stopping block is verbatim.
//@slice fn=verif_learn_slice impl=Network src=learn sig="<F: Fn(i32) -> (f32, f32)>(validation: Option<(&Vec<&tensor::Tensor>, &Vec<&tensor::Tensor>, i32)>, epochs: i32, nbatches: usize, oracle: F) -> (Vec<f32>, Vec<f32>, Vec<f32>)" protect=threshold,epoch,train_loss,val_loss,val_acc
//@drop /\/\/ Print the header of the table\./../if let Some\(print\) = print \{/
//@drop /self\.layers\.iter_mut\(\)\.for_each\(\|layer\| match layer \{/../self\.layers\.iter_mut\(\)\.for_each\(\|layer\| match layer \{/
//@drop /for layer in &mut self\.layers \{/../for layer in &mut self\.layers \{/
//@drop /let batches: Vec</../^            \.collect\(\);/
//@drop /for batch in batches\.iter\(\) \{/../for batch in batches\.iter\(\) \{/
//@drop /if let Some\(print\) = print \{/../if let Some\(print\) = print \{/ #2
//@subst /self\.validate\(val_inputs, val_targets, 1e-6\)/ -> "oracle(epoch)"
//@subst /batches\.len\(\)/ -> "nbatches"
//@subst /println!\([^;]*\);/ -> "{}"
//@endslice

#[cfg(kani)]
mod harnesses {
    use super::*;
    use crate::tensor::{Shape, Tensor};

    fn rs_stub() -> std::collections::hash_map::RandomState {
        // fixed hash seeds (std reads them from the OS)
        unsafe { std::mem::transmute::<(u64, u64), std::collections::hash_map::RandomState>((1u64, 2u64)) }
    }

    /// the property's stopping predicate: more than `tol` epochs have run and the last `tol` recorded validation
    /// losses are strictly increasing
    fn should_stop(val: &[f32], e: usize, tol: usize) -> bool {
        if e <= tol { return false; }
        let mut k = e - tol;
        while k + 1 < e { if !(val[k] < val[k + 1]) { return false; } k += 1; }
        true
    }

    macro_rules! stop_harness {
        ($name:ident, $epochs:expr, $tol:expr, $uw:expr, $val:expr) => {
            #[kani::proof]
            #[kani::unwind($uw)]
            fn $name() {
                let oracle: [f32; 6] = kani::any();
                kani::assume(!oracle[0].is_nan() && !oracle[1].is_nan() && !oracle[2].is_nan());
                kani::assume(!oracle[3].is_nan() && !oracle[4].is_nan() && !oracle[5].is_nan());
                let epochs: i32 = $epochs;
                let tol: i32 = $tol;
                let with_val: bool = $val;
                let (vi, vt): (Vec<&Tensor>, Vec<&Tensor>) = (Vec::new(), Vec::new());
                let (tl, vl, va) = Network::verif_learn_slice(
                    if with_val { Some((&vi, &vt, tol)) } else { None }, epochs, 1, |e| (oracle[(e - 1) as usize], 0.5f32));
                let n = tl.len();
                // (i) one training-loss entry per epoch run; as many validation entries, or none
                assert!(n >= 1 && n <= epochs as usize);
                if with_val {
                    assert!(vl.len() == n && va.len() == n);
                    let mut k = 0;
                    while k < n { assert!(vl[k].to_bits() == oracle[k].to_bits()); k += 1; }
                    // (ii) never continues past the first epoch at which the predicate holds; stops early only if it holds
                    let mut e = 1;
                    while e < n { assert!(!should_stop(&oracle, e, tol as usize)); e += 1; }
                    if n < epochs as usize { assert!(should_stop(&oracle, n, tol as usize)); }
                } else {
                    // (iii) without validation data all epochs run and nothing is recorded
                    assert!(vl.len() == 0 && va.len() == 0 && n == epochs as usize);
                }
                kani::cover!(!with_val || epochs <= tol + 1 || n < epochs as usize);
                kani::cover!(n == epochs as usize || tol == 1);
            }
        };
    }
    // @harness c13_stop_e5_t2 props=C13 tier=quick kind=bounded flags="--no-overflow-checks" bound="5 epochs, tolerance 2, all non-NaN loss trajectories, with/without validation" what="histories have one entry per epoch run; stops iff (and as soon as) the last `tol` losses strictly increase after more than `tol` epochs" timeout=600
    stop_harness!(c13_stop_e5_t2, 5, 2, 7, true);
    // @harness c13_stop_e4_t1 props=C13 tier=quick kind=bounded flags="--no-overflow-checks" bound="4 epochs, tolerance 1" what="early stopping contract" timeout=600
    stop_harness!(c13_stop_e4_t1, 4, 1, 6, true);
    // @harness c13_stop_e6_t3 props=C13 tier=quick kind=bounded flags="--no-overflow-checks" bound="6 epochs, tolerance 3" what="early stopping contract" timeout=600
    stop_harness!(c13_stop_e6_t3, 6, 3, 8, true);
    // @harness c13_stop_e3_t5 props=C13 tier=quick kind=bounded flags="--no-overflow-checks" bound="3 epochs, tolerance 5 (never more than tol epochs)" what="early stopping contract: budget below tolerance never stops" timeout=600
    stop_harness!(c13_stop_e3_t5, 3, 5, 7, true);
    // @harness c13_noval_e5 props=C13 tier=quick kind=bounded flags="--no-overflow-checks" bound="5 epochs, no validation data" what="without validation data all epochs run, no validation entries" timeout=600
    stop_harness!(c13_noval_e5, 5, 2, 7, false);
    // @harness c13_stop_e6_t2 props=C13 tier=thorough kind=bounded flags="--no-overflow-checks" bound="6 epochs, tolerance 2" what="early stopping contract" timeout=900
    stop_harness!(c13_stop_e6_t2, 6, 2, 8, true);
    // @harness c13_stop_e6_t4 props=C13 tier=thorough kind=bounded flags="--no-overflow-checks" bound="6 epochs, tolerance 4" what="early stopping contract" timeout=900
    stop_harness!(c13_stop_e6_t4, 6, 4, 8, true);
    // @harness c13_stop_e6_t5 props=C13 tier=thorough kind=bounded flags="--no-overflow-checks" bound="6 epochs, tolerance 5" what="early stopping contract" timeout=900
    stop_harness!(c13_stop_e6_t5, 6, 5, 8, true);
    // @harness c13_stop_e1_t1 props=C13 tier=thorough kind=bounded flags="--no-overflow-checks" bound="1 epoch, tolerance 1" what="early stopping contract" timeout=900
    stop_harness!(c13_stop_e1_t1, 1, 1, 3, true);
    // @harness c13_stop_e2_t1 props=C13 tier=thorough kind=bounded flags="--no-overflow-checks" bound="2 epochs, tolerance 1" what="early stopping contract" timeout=900
    stop_harness!(c13_stop_e2_t1, 2, 1, 4, true);
    // @harness c13_stop_e5_t4 props=C13 tier=thorough kind=bounded flags="--no-overflow-checks" bound="5 epochs, tolerance 4" what="early stopping contract" timeout=900
    stop_harness!(c13_stop_e5_t4, 5, 4, 7, true);
}
