// Kani harnesses on slices / regions of src/network.rs (C13 early stopping and histories; C09 training flags).
//
// The slice of `learn` keeps every statement that reads or writes the histories, the epoch counter and the stopping threshold;
// the two training-flag loops (C09 has its own regions), the batch loop and the print blocks are dropped (mechanical non-interference scan, see
// tools/mirror.py), `self.validate(..)` becomes an oracle.  The early-stopping block is verbatim.
//@slice fn=verif_learn_slice impl=Network src=learn sig="<F: Fn(i32) -> (f32, f32)>(validation: Option<(&Vec<&tensor::Tensor>, &Vec<&tensor::Tensor>, i32)>, epochs: i32, nbatches: usize, oracle: F) -> (Vec<f32>, Vec<f32>, Vec<f32>)" protect=threshold,epoch,train_loss,val_loss,val_acc
//@drop /\/\/ Print the header of the table\./../if let Some\(print\) = print \{/
//@drop /self\.layers\.iter_mut\(\)\.for_each\(\|layer\| match layer \{/../self\.layers\.iter_mut\(\)\.for_each\(\|layer\| match layer \{/
//@drop /for layer in &mut self\.layers \{/../for layer in &mut self\.layers \{/
//@drop /let batches: Vec</../^            \.collect\(\);/
//@drop /for batch in batches\.iter\(\) \{/../for batch in batches\.iter\(\) \{/
//@drop /if let Some\(print\) = print \{/../if let Some\(print\) = print \{/ #2
//@subst /self\.validate\(val_inputs, val_targets, 1e-6\)/ -> "oracle(epoch)"
//@subst /batches\.len\(\)/ -> "nbatches"
//@subst /println!\([^;]*\);/ -> "{}"
//@endslice

// C12: validate() with the flag loops dropped and the two per-sample calls replaced by oracles: what remains is the chunked
// pairing pipeline, the accuracy rule and the aggregation, verbatim.
//@slice fn=verif_validate_slice impl=Network src=validate sig="<P: Fn(&tensor::Tensor) -> tensor::Tensor, L: Fn(&tensor::Tensor, &tensor::Tensor) -> (f32, tensor::Tensor)>(&self, inputs: &[&tensor::Tensor], targets: &[&tensor::Tensor], tol: f32, chunk: usize, oracle_predict: P, oracle_loss: L) -> (f32, f32)" protect=results,loss,acc
//@drop /let mut training: bool = false;/../let mut training: bool = false;/
//@drop /for layer in &mut self\.layers \{/../for layer in &mut self\.layers \{/
//@drop /if training \{/../if training \{/
//@subst /self\.predict\(input\)/ -> "oracle_predict(input)"
//@subst /self\.objective\.loss\(&prediction, target\)/ -> "oracle_loss(&prediction, target)"
//@subst /_CHUNKS/ -> "chunk"
//@endslice
// predict_batch() with predict() as an oracle
//@slice fn=verif_predict_batch_slice impl=Network src=predict_batch sig="<P: Fn(&tensor::Tensor) -> tensor::Tensor>(&self, inputs: &Vec<&tensor::Tensor>, chunk: usize, oracle_predict: P) -> Vec<tensor::Tensor>" protect=none
//@subst /self\.predict\(input\)/ -> "oracle_predict(input)"
//@subst /_CHUNKS/ -> "chunk"
//@endslice

// C09: the flag-handling regions of validate() and learn(), each emitted verbatim as a method of its own.
// C04: the statement of `learn` that splits the data into groups (rayon's par_chunks replaced by std's chunks in the mirror)
//@region fn=verif_learn_batches impl=Network src=learn part="region:/let batches: Vec</../^            \.collect\(\);/" sig="<'a>(inputs: &'a Vec<&'a tensor::Tensor>, targets: &'a Vec<&'a tensor::Tensor>, batch: usize) -> Vec<(&'a [&'a tensor::Tensor], &'a [&'a tensor::Tensor])>" tail="batches"
//@region fn=verif_validate_prologue impl=Network src=validate part="region:/let mut training: bool = false;/../for layer in &mut self\.layers \{/" sig="(&mut self) -> bool" tail="training"
//@region fn=verif_validate_epilogue impl=Network src=validate part="region:/if training \{/../if training \{/" sig="(&mut self, training: bool)" tail=""
//@region fn=verif_learn_entry impl=Network src=learn part="region:/self\.layers\.iter_mut\(\)\.for_each\(\|layer\| match layer \{/../self\.layers\.iter_mut\(\)\.for_each\(\|layer\| match layer \{/" sig="(&mut self)" tail=""
//@region fn=verif_learn_exit impl=Network src=learn part="region:/for layer in &mut self\.layers \{/../for layer in &mut self\.layers \{/" sig="(&mut self)" tail=""

#[cfg(kani)]
mod harnesses {
    use super::*;
    use crate::tensor::{Shape, Tensor};
    use crate::activation::Activation;

    fn random_stub(shape: Shape, _min: f32, _max: f32) -> Tensor {
        match shape {
            Shape::Single(n) => Tensor::single(vec![1.0; n]),
            Shape::Double(r, c) => Tensor::double(vec![vec![1.0; c]; r]),
            Shape::Triple(c, h, w) => Tensor::triple(vec![vec![vec![1.0; w]; h]; c]),
            _ => panic!("unsupported in stub"),
        }
    }
    /// layer kinds: 0 dense, 1 convolution, 2 deconvolution, 3 max-pool, 4 feedback block of one dense layer
    fn make_layer(kind: u8, training: bool) -> Layer {
        match kind {
            0 => { let mut l = dense::Dense::create(Shape::Single(1), Shape::Single(1), &Activation::Linear, false, Some(0.5)); l.training = training; Layer::Dense(l) }
            1 => { let mut l = convolution::Convolution::create(Shape::Triple(1, 1, 1), 1, &Activation::Linear, (1, 1), (1, 1), (0, 0), (1, 1), Some(0.5)); l.training = training; Layer::Convolution(l) }
            2 => { let mut l = deconvolution::Deconvolution::create(Shape::Triple(1, 1, 1), 1, &Activation::Linear, (1, 1), (1, 1), (0, 0), Some(0.5)); l.training = training; Layer::Deconvolution(l) }
            3 => Layer::Maxpool(maxpool::Maxpool::create(Shape::Triple(1, 1, 1), (1, 1), (1, 1))),
            _ => {
                let inner = make_layer(0, training);
                Layer::Feedback(feedback::verif_feedback::verif_make_block(vec![inner], HashMap::new(), vec![vec![0]],
                    feedback::Accumulation::Mean, Shape::Single(1)))
            }
        }
    }
    fn flag(layer: &Layer) -> Option<bool> {
        match layer {
            Layer::Dense(l) => Some(l.training),
            Layer::Convolution(l) => Some(l.training),
            Layer::Deconvolution(l) => Some(l.training),
            Layer::Maxpool(_) => None,
            Layer::Feedback(b) => flag(&b.layers[0]),
        }
    }
    fn all_flags(net: &Network, want: bool) -> bool {
        let mut i = 0;
        while i < net.layers.len() {
            if let Some(f) = flag(&net.layers[i]) { if f != want { return false; } }
            i += 1;
        }
        true
    }

    fn dropout_must_not_run(_t: &mut Tensor, _p: f32) { panic!("Tensor::dropout reached although the layer is not training"); }
    fn small() -> f32 { let k: i8 = kani::any(); kani::assume(k >= -3 && k <= 4); k as f32 }

    // @harness c09_guard_dense props=C09 tier=quick kind=bounded flags="--no-overflow-checks" bound="dense 1->1 with dropout 0.5, training = false; input in -3..4" what="a layer that is not training never applies dropout (Tensor::dropout unreachable), and with training = true it does reach it" timeout=900
    #[kani::proof]
    #[kani::unwind(4)]
    #[kani::stub(crate::tensor::Tensor::random, random_stub)]
    #[kani::stub(crate::tensor::Tensor::dropout, dropout_must_not_run)]
    fn c09_guard_dense() {
        let l = dense::Dense::create(Shape::Single(1), Shape::Single(1), &Activation::Linear, true, Some(0.5));
        assert!(!l.training);
        let x = small();
        let (_pre, post) = l.forward(&Tensor::single(vec![x]));
        assert!(post.get_flat()[0] == x + 1.0);
        kani::cover!(x == 2.0);
        std::mem::forget(l);
    }
    // ---------------------------------------------------------------- C12
    fn one_dense(act: Activation) -> Network {
        let mut net = Network::new(Shape::Single(1));
        net.layers.push(Layer::Dense(dense::Dense::create(Shape::Single(1), Shape::Single(2), &act, false, None)));
        net
    }
    fn grid01() -> f32 { let k: u8 = kani::any(); kani::assume(k <= 4); k as f32 * 0.25 }
    fn argmax2(v: &[f32; 2]) -> usize { if v[1] >= v[0] { 1 } else { 0 } }   // `max_by` returns the LAST maximal element

    macro_rules! validate_harness {
        ($name:ident, $act:expr, $softmax:expr, $n:expr, $chunk:expr) => {
            #[kani::proof]
            #[kani::unwind(6)]
            #[kani::stub(std::collections::hash_map::RandomState::new, rs_stub)]
            #[kani::stub(crate::tensor::Tensor::random, random_stub)]
            fn $name() {
                let net = one_dense($act);
                let tol = 0.3f32;
                // per-sample data: input i carries the tag i; prediction and loss are read from symbolic tables by that tag
                let mut preds: [[f32; 2]; 3] = [[0.0; 2]; 3];
                let mut targs: [[f32; 2]; 3] = [[0.0; 2]; 3];
                let mut losses: [f32; 3] = [0.0; 3];
                let mut i = 0;
                while i < 3 { preds[i] = [grid01(), grid01()]; targs[i] = [grid01(), grid01()]; losses[i] = grid01(); i += 1; }
                // the oracle recognises a sample by its prediction: keep the predictions distinguishable
                kani::assume(preds[0][0] != preds[1][0] && preds[0][0] != preds[2][0] && preds[1][0] != preds[2][0]);
                let xs = [Tensor::single(vec![0.0]), Tensor::single(vec![1.0]), Tensor::single(vec![2.0])];
                let ts = [Tensor::single(targs[0].to_vec()), Tensor::single(targs[1].to_vec()), Tensor::single(targs[2].to_vec())];
                let inputs: Vec<&Tensor> = xs.iter().take($n).collect();
                let targets: Vec<&Tensor> = ts.iter().take($n).collect();
                let (loss, acc) = net.verif_validate_slice(&inputs, &targets, tol, $chunk,
                    |x| { let tag = x.get_flat()[0] as usize; Tensor::single(preds[tag].to_vec()) },
                    |p, t| {
                        // the loss oracle checks that sample i's prediction is paired with sample i's target
                        let pf = p.get_flat(); let tf = t.get_flat();
                        let mut tag = 3; let mut k = 0;
                        while k < 3 { if pf[0].to_bits() == preds[k][0].to_bits() && pf[1].to_bits() == preds[k][1].to_bits() && tf[0].to_bits() == targs[k][0].to_bits() && tf[1].to_bits() == targs[k][1].to_bits() { tag = k; break; } k += 1; }
                        assert!(tag < 3);
                        (losses[tag], Tensor::single(vec![0.0, 0.0]))
                    });
                // reference: arithmetic means over the samples, in input order
                let mut sl = 0.0f32; let mut sa = 0.0f32; let mut i = 0;
                while i < $n {
                    sl += losses[i];
                    sa += if $softmax {
                        if argmax2(&targs[i]) == argmax2(&preds[i]) { 1.0 } else { 0.0 }
                    } else {
                        let mut c = 0.0f32; let mut j = 0;
                        while j < 2 { if (targs[i][j] - preds[i][j]).abs() < tol { c += 1.0; } j += 1; }
                        c / 2.0
                    };
                    i += 1;
                }
                assert!(loss == sl / $n as f32);
                assert!(acc == sa / $n as f32);
                kani::cover!(acc > 0.0 && acc < 1.0);
                std::mem::forget(net);
            }
        };
    }
    // @harness c12_validate_linear_n2 props=C12 tier=quick kind=bounded flags="--no-overflow-checks" bound="2 samples, 2 outputs, non-soft-max output layer, tolerance 0.3, values on the .25 grid" what="validate = (mean loss, mean fraction of components within tol), samples paired with their own targets, in order" timeout=900
    validate_harness!(c12_validate_linear_n2, Activation::Linear, false, 2usize, 64usize);
    // @harness c12_validate_softmax_n2 props=C12 tier=quick kind=bounded flags="--no-overflow-checks" bound="2 samples, 2 outputs, soft-max output layer" what="validate with a soft-max output layer scores arg-max agreement" timeout=900
    validate_harness!(c12_validate_softmax_n2, Activation::Softmax, true, 2usize, 64usize);
    // @harness c12_validate_linear_n3 props=C12 tier=quick kind=bounded flags="--no-overflow-checks" bound="3 samples, parallel chunk size 2 (the slice takes the chunk size as a parameter; the code uses 64): one full chunk + a short last chunk" what="validate aggregation across a chunk boundary" timeout=1800
    validate_harness!(c12_validate_linear_n3, Activation::Linear, false, 3usize, 2usize);
    // @harness c12_validate_softmax_n3 props=C12 tier=thorough kind=bounded flags="--no-overflow-checks" bound="3 samples, chunk size 2, soft-max" what="validate aggregation across a chunk boundary, arg-max rule" timeout=1800
    validate_harness!(c12_validate_softmax_n3, Activation::Softmax, true, 3usize, 2usize);

    macro_rules! predict_batch_harness {
        ($name:ident, $n:expr) => {
            #[kani::proof]
            #[kani::unwind(6)]
            #[kani::stub(std::collections::hash_map::RandomState::new, rs_stub)]
            #[kani::stub(crate::tensor::Tensor::random, random_stub)]
            fn $name() {
                let net = one_dense(Activation::Linear);
                let xs = [Tensor::single(vec![small()]), Tensor::single(vec![small()]), Tensor::single(vec![small()])];
                let inputs: Vec<&Tensor> = xs.iter().take($n).collect();
                let out = net.verif_predict_batch_slice(&inputs, 1, |x| Tensor::single(vec![x.get_flat()[0] * 2.0 + 1.0]));
                // exactly predict of each input, in input order
                assert!(out.len() == $n);
                let mut i = 0;
                while i < $n { assert!(out[i].get_flat()[0] == xs[i].get_flat()[0] * 2.0 + 1.0); i += 1; }
                kani::cover!($n > 1 && xs[0].get_flat()[0] != xs[1].get_flat()[0]);
                std::mem::forget(out); std::mem::forget(net);
            }
        };
    }
    // (measured in the thorough tier: no result within 900 / 3000 s (the slice owns tensors in a Vec); predict_batch is proved for every size in Verus (unit network.predict_batch) - kept for reference, not part of any tier)
    // @probe c12_predict_batch_n2 props=C12 tier=thorough kind=bounded flags="--no-overflow-checks" bound="2 inputs, chunk size 1 (two chunks)" what="predict_batch = predict of each input, in input order, across a chunk boundary" timeout=3000 mem=20
    predict_batch_harness!(c12_predict_batch_n2, 2usize);
    // (measured in the thorough tier: no result within 900 / 3000 s (the slice owns tensors in a Vec); predict_batch is proved for every size in Verus (unit network.predict_batch) - kept for reference, not part of any tier)
    // @probe c12_predict_batch_n1 props=C12 tier=thorough kind=bounded flags="--no-overflow-checks" bound="1 input" what="predict_batch, one input" timeout=900
    predict_batch_harness!(c12_predict_batch_n1, 1usize);

    macro_rules! flags_harness {
        ($name:ident, [$($k:expr),+]) => {
            #[kani::proof]
            #[kani::unwind(6)]
            #[kani::stub(std::collections::hash_map::RandomState::new, rs_stub)]
            #[kani::stub(crate::tensor::Tensor::random, random_stub)]
            fn $name() {
                let start: bool = kani::any();       // the state learn() calls validate() in (true) or a plain call (false)
                let mut net = Network::new(Shape::Single(1));
                $( net.layers.push(make_layer($k, start)); )+
                // validate(): every layer predicts without dropout ...
                let training = net.verif_validate_prologue();
                assert!(all_flags(&net, false));
                // ... and afterwards the training state is what it was before - when there is a top-level dense layer to read it from
                // (validate() can only return for networks that END in a dense layer; without any, `training` stays false and the flags
                // stay off, which C09 does not forbid: dropout then affects no pass at all)
                net.verif_validate_epilogue(training);
                let kinds = [$($k),+];
                if !start || kinds.iter().any(|k| *k == 0u8) { assert!(all_flags(&net, start)); } else { assert!(all_flags(&net, false)); }
                // learn(): training mode on entry, prediction mode after it returns
                net.verif_learn_entry();
                assert!(all_flags(&net, true));
                net.verif_learn_exit();
                assert!(all_flags(&net, false));
                kani::cover!(start);
                kani::cover!(!start);
                std::mem::forget(net);
            }
        };
    }
    // @harness c09_flags_dense_dense props=C09 tier=quick kind=bounded flags="--no-overflow-checks" bound="layers [dense, dense], flags all on / all off" what="validate() turns dropout off in every layer and restores it; learn() entry/exit set/clear every flag" timeout=900
    flags_harness!(c09_flags_dense_dense, [0u8, 0u8]);
    // @harness c09_flags_conv_dense_dense props=C09 tier=quick kind=bounded flags="--no-overflow-checks" bound="layers [conv, dense, dense]" what="flag regions" timeout=900
    flags_harness!(c09_flags_conv_dense_dense, [1u8, 0u8, 0u8]);
    // @harness c09_flags_dense_pool_deconv props=C09 tier=thorough kind=bounded flags="--no-overflow-checks" bound="layers [dense, maxpool, deconv]" what="flag regions" timeout=1200
    flags_harness!(c09_flags_dense_pool_deconv, [0u8, 3u8, 2u8]);
    // @harness c09_flags_dense_feedback_dense props=C09 tier=thorough kind=bounded flags="--no-overflow-checks" bound="layers [dense, feedback(dense), dense]" what="flag regions incl. a feedback block" timeout=1200
    flags_harness!(c09_flags_dense_feedback_dense, [0u8, 4u8, 0u8]);
    // @harness c09_flags_feedback_conv props=C09 tier=thorough kind=bounded flags="--no-overflow-checks" bound="layers [feedback(dense), conv]" what="flag regions" timeout=1200
    flags_harness!(c09_flags_feedback_conv, [4u8, 1u8]);
    // @harness c09_flags_dense_dense_dense_conv props=C09 tier=thorough kind=bounded flags="--no-overflow-checks" bound="layers [dense, dense, dense, conv]" what="flag regions" timeout=1800
    flags_harness!(c09_flags_dense_dense_dense_conv, [0u8, 0u8, 0u8, 1u8]);

    fn rs_stub() -> std::collections::hash_map::RandomState {
        // fixed hash seeds (std reads them from the OS)
        unsafe { std::mem::transmute::<(u64, u64), std::collections::hash_map::RandomState>((1u64, 2u64)) }
    }

    /// the property's stopping predicate: more than `tol` epochs have run and the last `tol` recorded validation
    /// losses are strictly increasing
    fn should_stop(val: &[f32], e: usize, tol: usize) -> bool {
        if e <= tol { return false; }
        let mut k = e - tol;
        while k + 1 < e { if !(val[k] < val[k + 1]) { return false; } k += 1; }
        true
    }

    macro_rules! stop_harness {
        ($name:ident, $epochs:expr, $tol:expr, $uw:expr, $val:expr) => {
            #[kani::proof]
            #[kani::unwind($uw)]
            fn $name() {
                let oracle: [f32; 6] = kani::any();
                kani::assume(!oracle[0].is_nan() && !oracle[1].is_nan() && !oracle[2].is_nan());
                kani::assume(!oracle[3].is_nan() && !oracle[4].is_nan() && !oracle[5].is_nan());
                let epochs: i32 = $epochs;
                let tol: i32 = $tol;
                let with_val: bool = $val;
                let (vi, vt): (Vec<&Tensor>, Vec<&Tensor>) = (Vec::new(), Vec::new());
                let (tl, vl, va) = Network::verif_learn_slice(
                    if with_val { Some((&vi, &vt, tol)) } else { None }, epochs, 1, |e| (oracle[(e - 1) as usize], 0.5f32));
                let n = tl.len();
                // (i) one training-loss entry per epoch run; as many validation entries, or none
                assert!(n >= 1 && n <= epochs as usize);
                if with_val {
                    assert!(vl.len() == n && va.len() == n);
                    let mut k = 0;
                    while k < n { assert!(vl[k].to_bits() == oracle[k].to_bits()); k += 1; }
                    // (ii) never continues past the first epoch at which the predicate holds; stops early only if it holds
                    let mut e = 1;
                    while e < n { assert!(!should_stop(&oracle, e, tol as usize)); e += 1; }
                    if n < epochs as usize { assert!(should_stop(&oracle, n, tol as usize)); }
                } else {
                    // (iii) without validation data all epochs run and nothing is recorded
                    assert!(vl.len() == 0 && va.len() == 0 && n == epochs as usize);
                }
                kani::cover!(!with_val || epochs <= tol + 1 || n < epochs as usize);
                kani::cover!(n == epochs as usize || tol == 1);
            }
        };
    }
    // @harness c13_stop_e5_t2 props=C13 tier=quick kind=bounded flags="--no-overflow-checks" bound="5 epochs, tolerance 2, all non-NaN loss trajectories, with/without validation" what="histories have one entry per epoch run; stops iff (and as soon as) the last `tol` losses strictly increase after more than `tol` epochs" timeout=600
    stop_harness!(c13_stop_e5_t2, 5, 2, 7, true);
    // @harness c13_stop_e4_t1 props=C13 tier=quick kind=bounded flags="--no-overflow-checks" bound="4 epochs, tolerance 1" what="early stopping contract" timeout=600
    stop_harness!(c13_stop_e4_t1, 4, 1, 6, true);
    // @harness c13_stop_e6_t3 props=C13 tier=quick kind=bounded flags="--no-overflow-checks" bound="6 epochs, tolerance 3" what="early stopping contract" timeout=600
    stop_harness!(c13_stop_e6_t3, 6, 3, 8, true);
    // @harness c13_stop_e3_t5 props=C13 tier=quick kind=bounded flags="--no-overflow-checks" bound="3 epochs, tolerance 5 (never more than tol epochs)" what="early stopping contract: budget below tolerance never stops" timeout=600
    stop_harness!(c13_stop_e3_t5, 3, 5, 7, true);
    // @harness c13_noval_e5 props=C13 tier=quick kind=bounded flags="--no-overflow-checks" bound="5 epochs, no validation data" what="without validation data all epochs run, no validation entries" timeout=600
    stop_harness!(c13_noval_e5, 5, 2, 7, false);
    // @harness c13_stop_e6_t2 props=C13 tier=thorough kind=bounded flags="--no-overflow-checks" bound="6 epochs, tolerance 2" what="early stopping contract" timeout=900
    stop_harness!(c13_stop_e6_t2, 6, 2, 8, true);
    // @harness c13_stop_e6_t4 props=C13 tier=thorough kind=bounded flags="--no-overflow-checks" bound="6 epochs, tolerance 4" what="early stopping contract" timeout=900
    stop_harness!(c13_stop_e6_t4, 6, 4, 8, true);
    // @harness c13_stop_e6_t5 props=C13 tier=thorough kind=bounded flags="--no-overflow-checks" bound="6 epochs, tolerance 5" what="early stopping contract" timeout=900
    stop_harness!(c13_stop_e6_t5, 6, 5, 8, true);
    // @harness c13_stop_e1_t1 props=C13 tier=thorough kind=bounded flags="--no-overflow-checks" bound="1 epoch, tolerance 1" what="early stopping contract" timeout=900
    stop_harness!(c13_stop_e1_t1, 1, 1, 3, true);
    // @harness c13_stop_e2_t1 props=C13 tier=thorough kind=bounded flags="--no-overflow-checks" bound="2 epochs, tolerance 1" what="early stopping contract" timeout=900
    stop_harness!(c13_stop_e2_t1, 2, 1, 4, true);
    // @harness c13_stop_e5_t4 props=C13 tier=thorough kind=bounded flags="--no-overflow-checks" bound="5 epochs, tolerance 4" what="early stopping contract" timeout=900
    stop_harness!(c13_stop_e5_t4, 5, 4, 7, true);

    // C04: groups are consecutive runs of `batch` samples in the given order, the last one possibly shorter; inputs and targets
    // are split alike.  Bounded: up to 4 samples, every batch size 1..=5 (B = 1, B not dividing N, B > N included).
    // @harness c04_batches_partition props=C04 tier=quick kind=bounded flags="--no-overflow-checks" bound="N <= 4 samples, batch size 1..=5 (all)" what="the batch list built by learn() is the ordered partition of the samples into consecutive groups of B (last group shorter), inputs and targets alike" timeout=900
    #[kani::proof]
    #[kani::unwind(7)]
    fn c04_batches_partition() {
        let t: [Tensor; 4] = [Tensor::single(vec![0.0]), Tensor::single(vec![1.0]), Tensor::single(vec![2.0]), Tensor::single(vec![3.0])];
        let u: [Tensor; 4] = [Tensor::single(vec![4.0]), Tensor::single(vec![5.0]), Tensor::single(vec![6.0]), Tensor::single(vec![7.0])];
        let n: usize = kani::any();
        let b: usize = kani::any();
        kani::assume(n >= 1 && n <= 4 && b >= 1 && b <= 5);
        let mut inputs: Vec<&Tensor> = Vec::new();
        let mut targets: Vec<&Tensor> = Vec::new();
        let mut k = 0;
        while k < n { inputs.push(&t[k]); targets.push(&u[k]); k += 1; }
        let batches = Network::verif_learn_batches(&inputs, &targets, b);
        let groups = (n + b - 1) / b;
        assert!(batches.len() == groups);
        let mut g = 0;
        while g < groups {
            let want = if (g + 1) * b <= n { b } else { n - g * b };
            assert!(batches[g].0.len() == want && batches[g].1.len() == want);
            let mut j = 0;
            while j < want {
                assert!(std::ptr::eq(batches[g].0[j], &t[g * b + j]));
                assert!(std::ptr::eq(batches[g].1[j], &u[g * b + j]));
                j += 1;
            }
            g += 1;
        }
        kani::cover!(groups == 2 && n % b != 0);
        kani::cover!(b > n);
        std::mem::forget(batches); std::mem::forget(inputs); std::mem::forget(targets); std::mem::forget(t); std::mem::forget(u);
    }
}
