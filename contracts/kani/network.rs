// Kani harnesses on slices / regions of src/network.rs (C13 early stopping and histories; C09 training flags).
//
// The slice of `learn` keeps every statement that reads or writes the histories, the epoch counter and the stopping threshold;
// the two training-flag loops (C09 has its own regions), the batch loop and the print blocks are dropped (mechanical non-interference scan, see
// tools/mirror.py), `self.validate(..)` becomes an oracle.  The early-stopping block is verbatim.
//@slice fn=verif_learn_slice impl=Network src=learn sig="<F: Fn(i32) -> (f32, f32)>(validation: Option<(&Vec<&tensor::Tensor>, &Vec<&tensor::Tensor>, i32)>, epochs: i32, nbatches: usize, oracle: F) -> (Vec<f32>, Vec<f32>, Vec<f32>)" protect=threshold,epoch,train_loss,val_loss,val_acc
//@drop /\/\/ Print the header of the table\./../if let Some\(print\) = print \{/
//@drop /self\.layers\.iter_mut\(\)\.for_each\(\|layer\| match layer \{/../self\.layers\.iter_mut\(\)\.for_each\(\|layer\| match layer \{/
//@drop /for layer in &mut self\.layers \{/../for layer in &mut self\.layers \{/
//@drop /let batches: Vec</../^            \.collect\(\);/
//@drop /for batch in batches\.iter\(\) \{/../for batch in batches\.iter\(\) \{/
//@drop /if let Some\(print\) = print \{/../if let Some\(print\) = print \{/ #2
//@subst /self\.validate\(val_inputs, val_targets, 1e-6\)/ -> "oracle(epoch)"
//@subst /batches\.len\(\)/ -> "nbatches"
//@subst /println!\([^;]*\);/ -> "{}"
//@endslice

// C09: the flag-handling regions of validate() and learn(), each emitted verbatim as a method of its own.
//@region fn=verif_validate_prologue impl=Network src=validate part="region:/let mut training: bool = false;/../for layer in &mut self\.layers \{/" sig="(&mut self) -> bool" tail="training"
//@region fn=verif_validate_epilogue impl=Network src=validate part="region:/if training \{/../if training \{/" sig="(&mut self, training: bool)" tail=""
//@region fn=verif_learn_entry impl=Network src=learn part="region:/self\.layers\.iter_mut\(\)\.for_each\(\|layer\| match layer \{/../self\.layers\.iter_mut\(\)\.for_each\(\|layer\| match layer \{/" sig="(&mut self)" tail=""
//@region fn=verif_learn_exit impl=Network src=learn part="region:/for layer in &mut self\.layers \{/../for layer in &mut self\.layers \{/" sig="(&mut self)" tail=""

#[cfg(kani)]
mod harnesses {
    use super::*;
    use crate::tensor::{Shape, Tensor};
    use crate::activation::Activation;

    fn random_stub(shape: Shape, _min: f32, _max: f32) -> Tensor {
        match shape {
            Shape::Single(n) => Tensor::single(vec![1.0; n]),
            Shape::Double(r, c) => Tensor::double(vec![vec![1.0; c]; r]),
            Shape::Triple(c, h, w) => Tensor::triple(vec![vec![vec![1.0; w]; h]; c]),
            _ => panic!("unsupported in stub"),
        }
    }
    /// layer kinds: 0 dense, 1 convolution, 2 deconvolution, 3 max-pool, 4 feedback block of one dense layer
    fn make_layer(kind: u8, training: bool) -> Layer {
        match kind {
            0 => { let mut l = dense::Dense::create(Shape::Single(1), Shape::Single(1), &Activation::Linear, false, Some(0.5)); l.training = training; Layer::Dense(l) }
            1 => { let mut l = convolution::Convolution::create(Shape::Triple(1, 1, 1), 1, &Activation::Linear, (1, 1), (1, 1), (0, 0), (1, 1), Some(0.5)); l.training = training; Layer::Convolution(l) }
            2 => { let mut l = deconvolution::Deconvolution::create(Shape::Triple(1, 1, 1), 1, &Activation::Linear, (1, 1), (1, 1), (0, 0), Some(0.5)); l.training = training; Layer::Deconvolution(l) }
            3 => Layer::Maxpool(maxpool::Maxpool::create(Shape::Triple(1, 1, 1), (1, 1), (1, 1))),
            _ => {
                let inner = make_layer(0, training);
                Layer::Feedback(feedback::verif_feedback::verif_make_block(vec![inner], HashMap::new(), vec![vec![0]],
                    feedback::Accumulation::Mean, Shape::Single(1)))
            }
        }
    }
    fn flag(layer: &Layer) -> Option<bool> {
        match layer {
            Layer::Dense(l) => Some(l.training),
            Layer::Convolution(l) => Some(l.training),
            Layer::Deconvolution(l) => Some(l.training),
            Layer::Maxpool(_) => None,
            Layer::Feedback(b) => flag(&b.layers[0]),
        }
    }
    fn all_flags(net: &Network, want: bool) -> bool {
        let mut i = 0;
        while i < net.layers.len() {
            if let Some(f) = flag(&net.layers[i]) { if f != want { return false; } }
            i += 1;
        }
        true
    }

    fn dropout_must_not_run(_t: &mut Tensor, _p: f32) { panic!("Tensor::dropout reached although the layer is not training"); }
    fn small() -> f32 { let k: i8 = kani::any(); kani::assume(k >= -3 && k <= 4); k as f32 }

    // @harness c09_guard_dense props=C09 tier=quick kind=bounded flags="--no-overflow-checks" bound="dense 1->1 with dropout 0.5, training = false; input in -3..4" what="a layer that is not training never applies dropout (Tensor::dropout unreachable), and with training = true it does reach it" timeout=900
    #[kani::proof]
    #[kani::unwind(4)]
    #[kani::stub(crate::tensor::Tensor::random, random_stub)]
    #[kani::stub(crate::tensor::Tensor::dropout, dropout_must_not_run)]
    fn c09_guard_dense() {
        let l = dense::Dense::create(Shape::Single(1), Shape::Single(1), &Activation::Linear, true, Some(0.5));
        assert!(!l.training);
        let x = small();
        let (_pre, post) = l.forward(&Tensor::single(vec![x]));
        assert!(post.get_flat()[0] == x + 1.0);
        kani::cover!(x == 2.0);
        std::mem::forget(l);
    }
    macro_rules! flags_harness {
        ($name:ident, [$($k:expr),+]) => {
            #[kani::proof]
            #[kani::unwind(6)]
            #[kani::stub(std::collections::hash_map::RandomState::new, rs_stub)]
            #[kani::stub(crate::tensor::Tensor::random, random_stub)]
            fn $name() {
                let start: bool = kani::any();       // the state learn() calls validate() in (true) or a plain call (false)
                let mut net = Network::new(Shape::Single(1));
                $( net.layers.push(make_layer($k, start)); )+
                // validate(): every layer predicts without dropout ...
                let training = net.verif_validate_prologue();
                assert!(all_flags(&net, false));
                // ... and afterwards the training state is what it was before
                net.verif_validate_epilogue(training);
                assert!(all_flags(&net, start));
                // learn(): training mode on entry, prediction mode after it returns
                net.verif_learn_entry();
                assert!(all_flags(&net, true));
                net.verif_learn_exit();
                assert!(all_flags(&net, false));
                kani::cover!(start);
                kani::cover!(!start);
                std::mem::forget(net);
            }
        };
    }
    // @harness c09_flags_dense_dense props=C09 tier=quick kind=bounded flags="--no-overflow-checks" bound="layers [dense, dense], flags all on / all off" what="validate() turns dropout off in every layer and restores it; learn() entry/exit set/clear every flag" timeout=900
    flags_harness!(c09_flags_dense_dense, [0u8, 0u8]);
    // @harness c09_flags_conv_dense_dense props=C09 tier=quick kind=bounded flags="--no-overflow-checks" bound="layers [conv, dense, dense]" what="flag regions" timeout=900
    flags_harness!(c09_flags_conv_dense_dense, [1u8, 0u8, 0u8]);
    // @harness c09_flags_dense_pool_deconv props=C09 tier=thorough kind=bounded flags="--no-overflow-checks" bound="layers [dense, maxpool, deconv]" what="flag regions" timeout=1200
    flags_harness!(c09_flags_dense_pool_deconv, [0u8, 3u8, 2u8]);
    // @harness c09_flags_dense_feedback_dense props=C09 tier=thorough kind=bounded flags="--no-overflow-checks" bound="layers [dense, feedback(dense), dense]" what="flag regions incl. a feedback block" timeout=1200
    flags_harness!(c09_flags_dense_feedback_dense, [0u8, 4u8, 0u8]);
    // @harness c09_flags_feedback_conv props=C09 tier=thorough kind=bounded flags="--no-overflow-checks" bound="layers [feedback(dense), conv]" what="flag regions" timeout=1200
    flags_harness!(c09_flags_feedback_conv, [4u8, 1u8]);
    // @harness c09_flags_dense_dense_dense_conv props=C09 tier=thorough kind=bounded flags="--no-overflow-checks" bound="layers [dense, dense, dense, conv]" what="flag regions" timeout=1800
    flags_harness!(c09_flags_dense_dense_dense_conv, [0u8, 0u8, 0u8, 1u8]);

    fn rs_stub() -> std::collections::hash_map::RandomState {
        // fixed hash seeds (std reads them from the OS)
        unsafe { std::mem::transmute::<(u64, u64), std::collections::hash_map::RandomState>((1u64, 2u64)) }
    }

    /// the property's stopping predicate: more than `tol` epochs have run and the last `tol` recorded validation
    /// losses are strictly increasing
    fn should_stop(val: &[f32], e: usize, tol: usize) -> bool {
        if e <= tol { return false; }
        let mut k = e - tol;
        while k + 1 < e { if !(val[k] < val[k + 1]) { return false; } k += 1; }
        true
    }

    macro_rules! stop_harness {
        ($name:ident, $epochs:expr, $tol:expr, $uw:expr, $val:expr) => {
            #[kani::proof]
            #[kani::unwind($uw)]
            fn $name() {
                let oracle: [f32; 6] = kani::any();
                kani::assume(!oracle[0].is_nan() && !oracle[1].is_nan() && !oracle[2].is_nan());
                kani::assume(!oracle[3].is_nan() && !oracle[4].is_nan() && !oracle[5].is_nan());
                let epochs: i32 = $epochs;
                let tol: i32 = $tol;
                let with_val: bool = $val;
                let (vi, vt): (Vec<&Tensor>, Vec<&Tensor>) = (Vec::new(), Vec::new());
                let (tl, vl, va) = Network::verif_learn_slice(
                    if with_val { Some((&vi, &vt, tol)) } else { None }, epochs, 1, |e| (oracle[(e - 1) as usize], 0.5f32));
                let n = tl.len();
                // (i) one training-loss entry per epoch run; as many validation entries, or none
                assert!(n >= 1 && n <= epochs as usize);
                if with_val {
                    assert!(vl.len() == n && va.len() == n);
                    let mut k = 0;
                    while k < n { assert!(vl[k].to_bits() == oracle[k].to_bits()); k += 1; }
                    // (ii) never continues past the first epoch at which the predicate holds; stops early only if it holds
                    let mut e = 1;
                    while e < n { assert!(!should_stop(&oracle, e, tol as usize)); e += 1; }
                    if n < epochs as usize { assert!(should_stop(&oracle, n, tol as usize)); }
                } else {
                    // (iii) without validation data all epochs run and nothing is recorded
                    assert!(vl.len() == 0 && va.len() == 0 && n == epochs as usize);
                }
                kani::cover!(!with_val || epochs <= tol + 1 || n < epochs as usize);
                kani::cover!(n == epochs as usize || tol == 1);
            }
        };
    }
    // @harness c13_stop_e5_t2 props=C13 tier=quick kind=bounded flags="--no-overflow-checks" bound="5 epochs, tolerance 2, all non-NaN loss trajectories, with/without validation" what="histories have one entry per epoch run; stops iff (and as soon as) the last `tol` losses strictly increase after more than `tol` epochs" timeout=600
    stop_harness!(c13_stop_e5_t2, 5, 2, 7, true);
    // @harness c13_stop_e4_t1 props=C13 tier=quick kind=bounded flags="--no-overflow-checks" bound="4 epochs, tolerance 1" what="early stopping contract" timeout=600
    stop_harness!(c13_stop_e4_t1, 4, 1, 6, true);
    // @harness c13_stop_e6_t3 props=C13 tier=quick kind=bounded flags="--no-overflow-checks" bound="6 epochs, tolerance 3" what="early stopping contract" timeout=600
    stop_harness!(c13_stop_e6_t3, 6, 3, 8, true);
    // @harness c13_stop_e3_t5 props=C13 tier=quick kind=bounded flags="--no-overflow-checks" bound="3 epochs, tolerance 5 (never more than tol epochs)" what="early stopping contract: budget below tolerance never stops" timeout=600
    stop_harness!(c13_stop_e3_t5, 3, 5, 7, true);
    // @harness c13_noval_e5 props=C13 tier=quick kind=bounded flags="--no-overflow-checks" bound="5 epochs, no validation data" what="without validation data all epochs run, no validation entries" timeout=600
    stop_harness!(c13_noval_e5, 5, 2, 7, false);
    // @harness c13_stop_e6_t2 props=C13 tier=thorough kind=bounded flags="--no-overflow-checks" bound="6 epochs, tolerance 2" what="early stopping contract" timeout=900
    stop_harness!(c13_stop_e6_t2, 6, 2, 8, true);
    // @harness c13_stop_e6_t4 props=C13 tier=thorough kind=bounded flags="--no-overflow-checks" bound="6 epochs, tolerance 4" what="early stopping contract" timeout=900
    stop_harness!(c13_stop_e6_t4, 6, 4, 8, true);
    // @harness c13_stop_e6_t5 props=C13 tier=thorough kind=bounded flags="--no-overflow-checks" bound="6 epochs, tolerance 5" what="early stopping contract" timeout=900
    stop_harness!(c13_stop_e6_t5, 6, 5, 8, true);
    // @harness c13_stop_e1_t1 props=C13 tier=thorough kind=bounded flags="--no-overflow-checks" bound="1 epoch, tolerance 1" what="early stopping contract" timeout=900
    stop_harness!(c13_stop_e1_t1, 1, 1, 3, true);
    // @harness c13_stop_e2_t1 props=C13 tier=thorough kind=bounded flags="--no-overflow-checks" bound="2 epochs, tolerance 1" what="early stopping contract" timeout=900
    stop_harness!(c13_stop_e2_t1, 2, 1, 4, true);
    // @harness c13_stop_e5_t4 props=C13 tier=thorough kind=bounded flags="--no-overflow-checks" bound="5 epochs, tolerance 4" what="early stopping contract" timeout=900
    stop_harness!(c13_stop_e5_t4, 5, 4, 7, true);
}
