// Kani support + harnesses for src/feedback.rs.
// `verif_make_block` builds a Feedback value field by field (the public constructor clones its layers, which CBMC cannot
// execute economically on `Tensor`, DESIGN §2); used by harnesses in other modules.

#[cfg(kani)]
pub fn verif_make_block(layers: Vec<network::Layer>, connect: HashMap<usize, Vec<usize>>, coupled: Vec<Vec<usize>>,
                        accumulation: Accumulation, shape: tensor::Shape) -> Feedback {
    Feedback {
        inputs: shape.clone(),
        outputs: shape,
        optimizer: optimizer::SGD::create(0.1, None),
        flatten: false,
        layers,
        connect,
        accumulation,
        coupled,
    }
}

#[cfg(kani)]
mod harnesses {
    use super::*;
}
