// Kani contracts and harnesses for src/random.rs (property C18).  Appended to the mirror of random.rs as a
// child module, so private fields are visible.

//@weave impl=Generator fn=generate
#[cfg_attr(kani, kani::requires(verif_random::pre(self) && min.is_finite() && max.is_finite() && min <= max))]
#[cfg_attr(kani, kani::modifies(self))]
#[cfg_attr(kani, kani::ensures(|r: &f32| *r >= min && *r <= max))]
#[cfg_attr(kani, kani::ensures(|r: &f32| self.current < self.modulus))]
#[cfg_attr(kani, kani::ensures(|r: &f32| self.modulus == old(self.modulus) && self.multiplier == old(self.multiplier) && self.increment == old(self.increment)))]
//@endweave

/// What `generate` needs from the state (no u64 wrap, non-degenerate modulus).  Phrased over the fields, not over
/// the minstd constants, so a different multiplier is not an alarm.  `coeffs_ok` is invariant (the coefficients never
/// change); together with the postcondition `current < modulus` it re-establishes `pre` for the next call.
pub fn coeffs_ok(g: &Generator) -> bool {
    g.modulus >= 2
        && match g.multiplier.checked_mul(g.modulus - 1) {
            Some(x) => x.checked_add(g.increment).is_some(),
            None => false,
        }
}
pub fn pre(g: &Generator) -> bool {
    coeffs_ok(g)
        && match g.multiplier.checked_mul(g.current) {
            Some(x) => x.checked_add(g.increment).is_some(),
            None => false,
        }
}

#[cfg(kani)]
impl kani::Arbitrary for Generator {
    fn any() -> Self {
        Generator { modulus: kani::any(), multiplier: kani::any(), increment: kani::any(), current: kani::any() }
    }
}

#[cfg(kani)]
mod harnesses {
    use super::*;

    /// every state the constructor + generate can reach: constants from the real constructor, any current < modulus
    fn any_state() -> Generator {
        let mut g = Generator::create(0);
        let c: u64 = kani::any();
        kani::assume(c < g.modulus);
        g.current = c;
        g
    }

    // @harness c18_generate_contract props=C18 tier=quick kind=complete what="generate(min,max) in [min,max], current<modulus afterwards, coefficients unchanged, no panic: all 2^31-1 states x all finite min<=max" timeout=900
    #[kani::proof_for_contract(Generator::generate)]
    fn c18_generate_contract() {
        let mut g = any_state();
        let min: f32 = kani::any();
        let max: f32 = kani::any();
        kani::assume(min.is_finite() && max.is_finite() && min <= max);
        let (m0, k0, i0) = (g.modulus, g.multiplier, g.increment);
        let r = g.generate(min, max);
        // the same postcondition, stated in the harness too, so that a native playback of a counterexample
        // evaluates it on the real code (contract closures are not executed in playback mode)
        assert!(r >= min && r <= max);
        assert!(g.current < g.modulus && g.modulus == m0 && g.multiplier == k0 && g.increment == i0);
        kani::cover!(r > min && r < max);
        kani::cover!(min == max);
    }

    // @harness c18_generate_deterministic props=C18 tier=thorough kind=complete what="two generators in equal states return bit-identical values and end in equal states (sequence is a function of the seed alone), (min,max)=(0,1), all states" timeout=1800
    #[kani::proof]
    fn c18_generate_deterministic() {
        let mut a = any_state();
        let mut b = Generator::create(0);
        b.current = a.current;
        let ra = a.generate(0.0, 1.0);
        let rb = b.generate(0.0, 1.0);
        assert!(ra.to_bits() == rb.to_bits());
        assert!(a.current == b.current);
        kani::cover!(a.current != 0);
    }

    // @harness c18_create_any_seed props=C18 tier=quick kind=complete what="create(seed) then generate: no panic (no u64 wrap) and a valid state afterwards, all 2^64 seeds" timeout=600
    #[kani::proof]
    fn c18_create_any_seed() {
        let seed: u64 = kani::any();
        let mut g = Generator::create(seed);
        kani::cover!(seed > 0xffff_ffff_ffff);
        assert!(coeffs_ok(&g));
        let r = g.generate(0.0, 1.0);
        assert!(g.current < g.modulus);
        assert!(r >= 0.0 && r <= 1.0);
    }

    fn is_perm(v: &Vec<usize>, n: usize) -> bool {
        if v.len() != n { return false; }
        let mut seen = [false; 8];
        let mut i = 0;
        while i < n {
            if v[i] >= n || seen[v[i]] { return false; }
            seen[v[i]] = true;
            i += 1;
        }
        true
    }

    macro_rules! shuffle_harness {
        ($name:ident, $n:expr, $uw:expr) => {
            #[kani::proof]
            #[kani::stub_verified(Generator::generate)]
            #[kani::unwind($uw)]
            fn $name() {
                let mut g = any_state();
                let mut v: Vec<usize> = (0..$n).collect();
                g.shuffle(&mut v);
                assert!(is_perm(&v, $n));
                kani::cover!($n < 2 || v[0] != 0);
            }
        };
    }
    macro_rules! shuffle_real_harness {
        ($name:ident, $n:expr, $uw:expr) => {
            #[kani::proof]
            #[kani::unwind($uw)]
            fn $name() {
                let mut g = any_state();
                let mut v: Vec<usize> = (0..$n).collect();
                g.shuffle(&mut v);
                assert!(is_perm(&v, $n));
                kani::cover!($n < 2 || v[0] != 0);
            }
        };
    }
    // @harness c18_shuffle_real_len2 props=C18 tier=quick kind=bounded bound="length 2; every state; real generate (non-modular, yields replayable seeds)" timeout=900
    shuffle_real_harness!(c18_shuffle_real_len2, 2usize, 8);
    // @harness c18_shuffle_real_len3 props=C18 tier=thorough kind=bounded bound="length 3; every state; real generate (non-modular)" timeout=1800
    shuffle_real_harness!(c18_shuffle_real_len3, 3usize, 8);

    // @harness c18_shuffle_len1 props=C18 tier=quick kind=bounded modular=1 bound="length 1; every state; every value generate's contract allows" timeout=600
    shuffle_harness!(c18_shuffle_len1, 1usize, 8);
    // @harness c18_shuffle_len3 props=C18 tier=quick kind=bounded modular=1 bound="length 3; every state; every value generate's contract allows" timeout=900
    shuffle_harness!(c18_shuffle_len3, 3usize, 8);
    // @harness c18_shuffle_len4 props=C18 tier=thorough kind=bounded modular=1 bound="length 4; every state; every value generate's contract allows" timeout=1800
    shuffle_harness!(c18_shuffle_len4, 4usize, 8);
}
