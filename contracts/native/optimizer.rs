// Native replay / search for the optimizer units (C03).  Appended to the mirror of optimizer.rs under cfg(verif_replay).
// `reference` is the executable transcription of the spec functions in contracts/verus/C03_optimizers.rs (documented rules);
// the real `update` of each optimizer is run on a 1-D, 2-D and 3-D tensor holding the same cells for several steps and every
// cell (parameter, gradient and state) is compared bit-for-bit with the reference (NaN == NaN).

use crate::tensor::{Data, Tensor};

#[derive(Clone, Copy, Debug)]
pub struct Cell { pub w: f32, pub g: f32, pub a: f32, pub b: f32, pub c: f32 }
#[derive(Clone, Copy, Debug)]
pub struct Hyper { pub lr: f32, pub p1: f32, pub p2: f32, pub eps: f32, pub decay: Option<f32>, pub momentum: Option<f32>, pub centered: bool }

fn decayed(decay: Option<f32>, w: f32, g: f32) -> f32 { match decay { Some(d) => g + d * w, None => g } }
fn sq(x: f32) -> f32 { x.powf(2.0) }

pub fn reference(opt: &str, h: &Hyper, x: Cell, stepnr: i32) -> Cell {
    match opt {
        "sgd" => { let g = decayed(h.decay, x.w, x.g); Cell { w: x.w - h.lr * g, g, ..x } }
        "sgdm" => {
            // p1 = momentum, p2 = dampening
            let g0 = decayed(h.decay, x.w, x.g);
            let v = if stepnr > 1 && h.p1 != 0.0 { h.p1 * x.a + (1.0 - h.p2) * g0 } else { g0 };
            Cell { w: x.w - h.lr * v, g: v, a: v, ..x }
        }
        "adam" => {
            let g = decayed(h.decay, x.w, x.g);
            let m = h.p1 * x.a + (1.0 - h.p1) * g;
            let v = h.p2 * x.b + (1.0 - h.p2) * sq(g);
            let mh = m / (1.0 - h.p1.powi(stepnr));
            let vh = v / (1.0 - h.p2.powi(stepnr));
            Cell { w: x.w - h.lr * mh / (vh.sqrt() + h.eps), g, a: m, b: v, ..x }
        }
        "adamw" => {
            let d = h.decay.unwrap_or(0.0);
            let w1 = x.w - h.lr * d * x.w;
            let m = h.p1 * x.a + (1.0 - h.p1) * x.g;
            let v = h.p2 * x.b + (1.0 - h.p2) * sq(x.g);
            let mh = m / (1.0 - h.p1.powi(stepnr));
            let vh = v / (1.0 - h.p2.powi(stepnr));
            Cell { w: w1 - h.lr * mh / (vh.sqrt() + h.eps), a: m, b: v, ..x }
        }
        _ => {
            // rmsprop: p1 = alpha; a = velocity (sq), b = gradient (avg), c = buffer
            let g = decayed(h.decay, x.w, x.g);
            let s = h.p1 * x.a + (1.0 - h.p1) * sq(g);
            let avg = if h.centered { h.p1 * x.b + (1.0 - h.p1) * g } else { x.b };
            let v = if h.centered { s - sq(avg) } else { s };
            let den = v.sqrt() + h.eps;
            match h.momentum {
                Some(mu) => { let buf = mu * x.c + g / den; Cell { w: x.w - h.lr * buf, g, a: s, b: avg, c: buf } }
                None => Cell { w: x.w - h.lr * g / den, g, a: s, b: avg, c: x.c },
            }
        }
    }
}

fn pack(rank: usize, v: &[f32]) -> Tensor {
    match rank {
        1 => Tensor::single(v.to_vec()),
        2 => Tensor::double(vec![v[..2].to_vec(), v[2..].to_vec()]),
        _ => Tensor::triple(vec![vec![v[..2].to_vec(), v[2..].to_vec()]]),
    }
}
fn unpack(t: &Tensor) -> Vec<f32> {
    match &t.data {
        Data::Single(d) => d.clone(),
        Data::Double(d) => d.iter().flatten().cloned().collect(),
        Data::Triple(d) => d.iter().flatten().flatten().cloned().collect(),
        _ => panic!("unexpected rank"),
    }
}
fn same(a: f32, b: f32) -> bool { a.to_bits() == b.to_bits() || (a.is_nan() && b.is_nan()) }

fn build(opt: &str, h: &Hyper, rank: usize, st: &[Cell]) -> Optimizer {
    let col = |f: fn(&Cell) -> f32| vec![vec![vec![pack(rank, &st.iter().map(f).collect::<Vec<f32>>())]]];
    match opt {
        "sgd" => Optimizer::SGD(SGD { learning_rate: h.lr, decay: h.decay }),
        "sgdm" => Optimizer::SGDM(SGDM { learning_rate: h.lr, momentum: h.p1, dampening: h.p2, decay: h.decay, velocity: col(|c| c.a) }),
        "adam" => Optimizer::Adam(Adam { learning_rate: h.lr, beta1: h.p1, beta2: h.p2, epsilon: h.eps, decay: h.decay, momentum: col(|c| c.a), velocity: col(|c| c.b) }),
        "adamw" => Optimizer::AdamW(AdamW { learning_rate: h.lr, beta1: h.p1, beta2: h.p2, epsilon: h.eps, decay: h.decay.unwrap_or(0.0), momentum: col(|c| c.a), velocity: col(|c| c.b) }),
        _ => Optimizer::RMSprop(RMSprop { learning_rate: h.lr, alpha: h.p1, epsilon: h.eps, decay: h.decay, momentum: h.momentum, centered: h.centered,
                                          velocity: col(|c| c.a), gradient: col(|c| c.b), buffer: col(|c| c.c) }),
    }
}
fn state_of(o: &Optimizer, which: u8) -> Option<Vec<f32>> {
    let t = |v: &Vec<Vec<Vec<Tensor>>>| Some(unpack(&v[0][0][0]));
    match (o, which) {
        (Optimizer::SGDM(s), 0) => t(&s.velocity),
        (Optimizer::Adam(s), 0) => t(&s.momentum), (Optimizer::Adam(s), 1) => t(&s.velocity),
        (Optimizer::AdamW(s), 0) => t(&s.momentum), (Optimizer::AdamW(s), 1) => t(&s.velocity),
        (Optimizer::RMSprop(s), 0) => t(&s.velocity), (Optimizer::RMSprop(s), 1) => t(&s.gradient), (Optimizer::RMSprop(s), 2) => t(&s.buffer),
        _ => None,
    }
}

/// run `steps` steps from the given cells on a tensor of the given rank; Err(detail) on the first disagreeing cell
pub fn run_case(opt: &str, rank: usize, h: &Hyper, cells0: &[Cell; 4], grads: &[[f32; 4]], first_step: i32) -> Result<(), String> {
    let mut cells = *cells0;
    let mut o = build(opt, h, rank, &cells);
    let mut w = pack(rank, &cells.iter().map(|c| c.w).collect::<Vec<_>>());
    for (k, gs) in grads.iter().enumerate() {
        let stepnr = first_step + k as i32;
        let mut g = pack(rank, gs);
        for i in 0..4 { cells[i].g = gs[i]; cells[i] = reference(opt, h, cells[i], stepnr); }
        o.update(0, 0, false, stepnr, &mut w, &mut g);
        let (wv, gv) = (unpack(&w), unpack(&g));
        for i in 0..4 {
            if !same(wv[i], cells[i].w) { return Err(format!("step {} (stepnr {}), cell {}: parameter {} but documented rule gives {}", k + 1, stepnr, i, wv[i], cells[i].w)); }
            if !same(gv[i], cells[i].g) { return Err(format!("step {} cell {}: gradient {} but documented rule gives {}", k + 1, i, gv[i], cells[i].g)); }
            for (which, want) in [(0u8, cells[i].a), (1u8, cells[i].b), (2u8, cells[i].c)] {
                if let Some(sv) = state_of(&o, which) { if !same(sv[i], want) { return Err(format!("step {} cell {}: state vector #{} holds {} but documented rule gives {}", k + 1, i, which, sv[i], want)); } }
            }
        }
    }
    Ok(())
}

pub fn cases(opt: &str) -> Vec<(Hyper, [Cell; 4], Vec<[f32; 4]>, i32)> {
    let mut out = Vec::new();
    let decays = [None, Some(0.5f32)];
    let moms = [None, Some(0.5f32)];
    let cells = [Cell { w: 1.0, g: 0.0, a: 0.0, b: 0.0, c: 0.0 }, Cell { w: -2.0, g: 0.0, a: 0.25, b: 0.5, c: -0.5 },
                 Cell { w: 0.5, g: 0.0, a: 1.0, b: 0.25, c: 2.0 }, Cell { w: 3.0, g: 0.0, a: 0.0, b: 0.0, c: 0.0 }];
    let grads = vec![[0.5f32, -1.0, 2.0, 0.25], [1.0, 1.0, -0.5, 0.0], [-2.0, 0.5, 0.5, 4.0]];
    for &decay in &decays { for &momentum in &moms { for &centered in &[false, true] { for &(p1, p2) in &[(0.5f32, 0.25f32), (0.0, 0.5), (0.75, 0.0)] {
        if opt != "rmsprop" && (momentum.is_some() || centered) { continue; }
        if opt == "adam" || opt == "adamw" { if p1 == 0.0 || p2 == 0.0 { continue; } }
        for &first in &[1i32, 2] {
            out.push((Hyper { lr: 0.25, p1, p2, eps: 0.5, decay, momentum, centered }, cells, grads.clone(), first));
        }
    }}}}
    out
}

pub fn dispatch(cmd: &str, name: &str, arg: &str) -> Option<String> {
    // names: opt.<optimizer>.<single|double|triple>
    let mut it = name.split('.');
    if it.next()? != "opt" { return None; }
    let opt = it.next()?.to_string();
    let rank = match it.next()? { "single" => 1, "double" => 2, _ => 3 };
    std::panic::set_hook(Box::new(|_| {}));
    let all = cases(&opt);
    let only: Option<usize> = if cmd == "run" { arg.split(|c: char| !c.is_ascii_digit()).find(|x| !x.is_empty()).and_then(|x| x.parse().ok()) } else { None };
    let mut tried = 0;
    for (k, (h, cells, grads, first)) in all.iter().enumerate() {
        if let Some(o) = only { if o != k { continue; } }
        tried += 1;
        let (o2, h2, c2, g2, f2) = (opt.clone(), *h, *cells, grads.clone(), *first);
        let r = std::panic::catch_unwind(move || run_case(&o2, rank, &h2, &c2, &g2, f2)).unwrap_or_else(|_| Err("panic inside update".to_string()));
        if let Err(e) = r {
            return Some(format!("{{\"failed\":true,\"tried\":{},\"input\":{{\"case\":{},\"hyper\":{:?},\"first_stepnr\":{},\"gradients\":{:?}}},\"detail\":{:?}}}",
                                tried, k, format!("{:?}", h), first, grads, e));
        }
    }
    Some(format!("{{\"failed\":false,\"tried\":{}}}", tried))
}
