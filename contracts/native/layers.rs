// Native replay / search support for the layer units (C01, C02, C08).  Appended to the mirror of network.rs under
// cfg(verif_replay), so every private item of the crate is reachable.  The references below are the executable form of the
// Verus spec functions (direct transcriptions of the definitions); all data are small integers, so every sum and product is
// exact in f32 and any mismatch is semantic, never rounding.  Finite differences of a multi-affine function with step 1 are
// exact (F3).

use crate::activation::Activation;
use crate::tensor::{Data, Shape, Tensor};
use crate::{convolution, deconvolution, dense, maxpool};

pub struct Lcg(pub u64);
impl Lcg {
    pub fn next(&mut self) -> u64 { self.0 = self.0.wrapping_mul(6364136223846793005).wrapping_add(1442695040888963407); self.0 >> 33 }
    pub fn int(&mut self, lo: i32, hi: i32) -> f32 { (lo + (self.next() % ((hi - lo + 1) as u64)) as i32) as f32 }
    pub fn t3(&mut self, c: usize, h: usize, w: usize) -> Vec<Vec<Vec<f32>>> {
        (0..c).map(|_| (0..h).map(|_| (0..w).map(|_| self.int(-3, 3)).collect()).collect()).collect()
    }
    /// pairwise distinct values (no max-pool ties)
    pub fn t3_distinct(&mut self, c: usize, h: usize, w: usize) -> Vec<Vec<Vec<f32>>> {
        let n = c * h * w;
        let mut vals: Vec<f32> = (0..n).map(|i| i as f32 - (n / 2) as f32).collect();
        for i in (1..n).rev() { let j = (self.next() % (i as u64 + 1)) as usize; vals.swap(i, j); }
        let mut it = vals.into_iter();
        (0..c).map(|_| (0..h).map(|_| (0..w).map(|_| it.next().unwrap()).collect()).collect()).collect()
    }
}

#[derive(Clone, Debug)]
pub struct Cfg { pub ic: usize, pub ih: usize, pub iw: usize, pub f: usize, pub k: (usize, usize), pub s: (usize, usize),
                 pub p: (usize, usize), pub d: (usize, usize), pub seed: u64 }
impl Cfg {
    pub fn json(&self) -> String {
        format!("{{\"ic\":{},\"ih\":{},\"iw\":{},\"f\":{},\"k\":[{},{}],\"s\":[{},{}],\"p\":[{},{}],\"d\":[{},{}],\"seed\":{}}}",
            self.ic, self.ih, self.iw, self.f, self.k.0, self.k.1, self.s.0, self.s.1, self.p.0, self.p.1, self.d.0, self.d.1, self.seed)
    }
    pub fn parse(s: &str) -> Option<Cfg> {
        let nums: Vec<u64> = s.split(|c: char| !c.is_ascii_digit()).filter(|x| !x.is_empty()).filter_map(|x| x.parse().ok()).collect();
        if nums.len() != 13 { return None; }
        let n = |i: usize| nums[i] as usize;
        Some(Cfg { ic: n(0), ih: n(1), iw: n(2), f: n(3), k: (n(4), n(5)), s: (n(6), n(7)), p: (n(8), n(9)), d: (n(10), n(11)), seed: nums[12] })
    }
}

fn t3(t: &Tensor) -> Vec<Vec<Vec<f32>>> { match &t.data { Data::Triple(d) => d.clone(), _ => panic!("expected 3-D tensor") } }
fn dot3(a: &Vec<Vec<Vec<f32>>>, b: &Vec<Vec<Vec<f32>>>) -> f32 {
    let mut s = 0.0;
    for (x, y) in a.iter().zip(b.iter()) { for (x, y) in x.iter().zip(y.iter()) { for (x, y) in x.iter().zip(y.iter()) { s += x * y; } } }
    s
}
fn same_shape(a: &Vec<Vec<Vec<f32>>>, c: usize, h: usize, w: usize) -> bool {
    a.len() == c && a.iter().all(|r| r.len() == h && r.iter().all(|q| q.len() == w))
}

// ------------------------------------------------------------------------------------------------ convolution
/// definition: zero-padded, strided, dilated cross-correlation
pub fn conv_reference(x: &Vec<Vec<Vec<f32>>>, k: &Vec<Vec<Vec<Vec<f32>>>>, c: &Cfg) -> Vec<Vec<Vec<f32>>> {
    let (kh, kw) = c.k;
    let oh = (c.ih + 2 * c.p.0 - c.d.0 * (kh - 1) - 1) / c.s.0 + 1;
    let ow = (c.iw + 2 * c.p.1 - c.d.1 * (kw - 1) - 1) / c.s.1 + 1;
    let mut y = vec![vec![vec![0.0f32; ow]; oh]; c.f];
    for f in 0..c.f { for a in 0..oh { for b in 0..ow {
        let mut s = 0.0f32;
        for ch in 0..c.ic { for h in 0..kh { for w in 0..kw {
            let (yy, xx) = ((a * c.s.0 + h * c.d.0) as i64 - c.p.0 as i64, (b * c.s.1 + w * c.d.1) as i64 - c.p.1 as i64);
            if yy >= 0 && xx >= 0 && (yy as usize) < c.ih && (xx as usize) < c.iw { s += k[f][ch][h][w] * x[ch][yy as usize][xx as usize]; }
        }}}
        y[f][a][b] = s;
    }}}
    y
}
fn conv_layer(c: &Cfg, k: &Vec<Vec<Vec<Vec<f32>>>>) -> convolution::Convolution {
    let mut l = convolution::Convolution::create(Shape::Triple(c.ic, c.ih, c.iw), c.f, &Activation::Linear, c.k, c.s, c.p, c.d, None);
    for (i, kk) in l.kernels.iter_mut().enumerate() { *kk = Tensor::triple(k[i].clone()); }
    l
}
pub fn conv_valid(c: &Cfg) -> bool {
    c.s.0 >= 1 && c.s.1 >= 1 && c.d.0 * (c.k.0 - 1) + 1 <= c.ih + 2 * c.p.0 && c.d.1 * (c.k.1 - 1) + 1 <= c.iw + 2 * c.p.1
}
/// Err(description) if the real layer disagrees with the definition / with the exact finite differences
pub fn conv_check(c: &Cfg, what: &str) -> Result<(), String> {
    let mut r = Lcg(c.seed);
    let x = r.t3(c.ic, c.ih, c.iw);
    let k: Vec<_> = (0..c.f).map(|_| r.t3(c.ic, c.k.0, c.k.1)).collect();
    let layer = conv_layer(c, &k);
    let (pre, _post) = layer.forward(&Tensor::triple(x.clone()));
    let y = t3(&pre);
    let yr = conv_reference(&x, &k, c);
    if what == "forward" || what == "shape" {
        let announced = match layer.outputs { Shape::Triple(a, b, d) => (a, b, d), _ => (0, 0, 0) };
        if !same_shape(&y, announced.0, announced.1, announced.2) { return Err(format!("produced shape != announced {:?}", announced)); }
        if !same_shape(&yr, announced.0, announced.1, announced.2) { return Err(format!("announced {:?} != standard formula", announced)); }
        if what == "forward" && y != yr { return Err(format!("forward != cross-correlation: got {:?} want {:?}", y, yr)); }
        return Ok(());
    }
    // backward: L = <y, g>
    let g = r.t3(yr.len(), yr[0].len(), yr[0][0].len());
    let (ig, kg, _) = layer.backward(&Tensor::triple(g.clone()), &Tensor::triple(x.clone()), &pre);
    let l0 = dot3(&yr, &g);
    let kg = match &kg.data { Data::Quadruple(d) => d.clone(), _ => return Err("kernel gradient is not 4-D".into()) };
    if kg.len() != c.f || kg.iter().any(|q| !same_shape(q, c.ic, c.k.0, c.k.1)) { return Err("kernel gradient shape != kernel shape".into()); }
    for f in 0..c.f { for ch in 0..c.ic { for h in 0..c.k.0 { for w in 0..c.k.1 {
        let mut k2 = k.clone(); k2[f][ch][h][w] += 1.0;
        let fd = dot3(&conv_reference(&x, &k2, c), &g) - l0;
        if kg[f][ch][h][w] != fd { return Err(format!("dL/dk[{}][{}][{}][{}]: backward {} but exact finite difference {}", f, ch, h, w, kg[f][ch][h][w], fd)); }
    }}}}
    let ig = match &ig.data { Data::Triple(d) => d.clone(), _ => return Err("input gradient is not 3-D".into()) };
    if !same_shape(&ig, c.ic, c.ih, c.iw) { return Err(format!("input gradient shape {}x{}x{} != input shape {}x{}x{}", ig.len(), ig[0].len(), ig[0][0].len(), c.ic, c.ih, c.iw)); }
    for ch in 0..c.ic { for h in 0..c.ih { for w in 0..c.iw {
        let mut x2 = x.clone(); x2[ch][h][w] += 1.0;
        let fd = dot3(&conv_reference(&x2, &k, c), &g) - l0;
        if ig[ch][h][w] != fd { return Err(format!("dL/dx[{}][{}][{}]: backward {} but exact finite difference {}", ch, h, w, ig[ch][h][w], fd)); }
    }}}
    Ok(())
}

// ------------------------------------------------------------------------------------------------ deconvolution
pub fn deconv_valid(c: &Cfg) -> bool {
    c.s.0 >= 1 && c.s.1 >= 1 && (c.ih - 1) * c.s.0 + c.k.0 > 2 * c.p.0 && (c.iw - 1) * c.s.1 + c.k.1 > 2 * c.p.1
}
pub fn deconv_reference(x: &Vec<Vec<Vec<f32>>>, k: &Vec<Vec<Vec<Vec<f32>>>>, c: &Cfg) -> Vec<Vec<Vec<f32>>> {
    let oh = (c.ih - 1) * c.s.0 + c.k.0 - 2 * c.p.0;
    let ow = (c.iw - 1) * c.s.1 + c.k.1 - 2 * c.p.1;
    let mut y = vec![vec![vec![0.0f32; ow]; oh]; c.f];
    for f in 0..c.f { for ch in 0..c.ic { for i in 0..c.ih { for j in 0..c.iw { for ki in 0..c.k.0 { for kj in 0..c.k.1 {
        let (a, b) = ((i * c.s.0 + ki) as i64 - c.p.0 as i64, (j * c.s.1 + kj) as i64 - c.p.1 as i64);
        if a >= 0 && b >= 0 && (a as usize) < oh && (b as usize) < ow { y[f][a as usize][b as usize] += x[ch][i][j] * k[f][ch][ki][kj]; }
    }}}}}}
    y
}
pub fn deconv_check(c: &Cfg, what: &str) -> Result<(), String> {
    let mut r = Lcg(c.seed);
    let x = r.t3(c.ic, c.ih, c.iw);
    let k: Vec<_> = (0..c.f).map(|_| r.t3(c.ic, c.k.0, c.k.1)).collect();
    let mut layer = deconvolution::Deconvolution::create(Shape::Triple(c.ic, c.ih, c.iw), c.f, &Activation::Linear, c.k, c.s, c.p, None);
    for (i, kk) in layer.kernels.iter_mut().enumerate() { *kk = Tensor::triple(k[i].clone()); }
    let (pre, _) = layer.forward(&Tensor::triple(x.clone()));
    let y = t3(&pre);
    let yr = deconv_reference(&x, &k, c);
    if what == "forward" || what == "shape" {
        let announced = match layer.outputs { Shape::Triple(a, b, d) => (a, b, d), _ => (0, 0, 0) };
        if !same_shape(&y, announced.0, announced.1, announced.2) { return Err(format!("produced shape != announced {:?}", announced)); }
        if !same_shape(&yr, announced.0, announced.1, announced.2) { return Err(format!("announced {:?} != standard formula", announced)); }
        if what == "forward" && y != yr { return Err(format!("forward != transposed convolution: got {:?} want {:?}", y, yr)); }
        return Ok(());
    }
    let g = r.t3(yr.len(), yr[0].len(), yr[0][0].len());
    let (ig, kg, _) = layer.backward(&Tensor::triple(g.clone()), &Tensor::triple(x.clone()), &pre);
    let l0 = dot3(&yr, &g);
    let kg = match &kg.data { Data::Quadruple(d) => d.clone(), _ => return Err("kernel gradient is not 4-D".into()) };
    for f in 0..c.f { for ch in 0..c.ic { for h in 0..c.k.0 { for w in 0..c.k.1 {
        let mut k2 = k.clone(); k2[f][ch][h][w] += 1.0;
        let fd = dot3(&deconv_reference(&x, &k2, c), &g) - l0;
        if kg[f][ch][h][w] != fd { return Err(format!("dL/dk[{}][{}][{}][{}]: backward {} but exact finite difference {}", f, ch, h, w, kg[f][ch][h][w], fd)); }
    }}}}
    let ig = t3(&ig);
    if !same_shape(&ig, c.ic, c.ih, c.iw) { return Err("input gradient shape != input shape".into()); }
    for ch in 0..c.ic { for h in 0..c.ih { for w in 0..c.iw {
        let mut x2 = x.clone(); x2[ch][h][w] += 1.0;
        let fd = dot3(&deconv_reference(&x2, &k, c), &g) - l0;
        if ig[ch][h][w] != fd { return Err(format!("dL/dx[{}][{}][{}]: backward {} but exact finite difference {}", ch, h, w, ig[ch][h][w], fd)); }
    }}}
    Ok(())
}

// ------------------------------------------------------------------------------------------------ max-pool
pub fn pool_valid(c: &Cfg) -> bool { c.s.0 >= 1 && c.s.1 >= 1 && c.k.0 >= 1 && c.k.1 >= 1 && c.k.0 <= c.ih && c.k.1 <= c.iw }
pub fn pool_reference(x: &Vec<Vec<Vec<f32>>>, c: &Cfg) -> Vec<Vec<Vec<f32>>> {
    let oh = (c.ih - c.k.0) / c.s.0 + 1;
    let ow = (c.iw - c.k.1) / c.s.1 + 1;
    let mut y = vec![vec![vec![0.0f32; ow]; oh]; c.ic];
    for ch in 0..c.ic { for a in 0..oh { for b in 0..ow {
        let mut m = f32::NEG_INFINITY;
        for k in 0..c.k.0 { for l in 0..c.k.1 { m = m.max(x[ch][a * c.s.0 + k][b * c.s.1 + l]); } }
        y[ch][a][b] = m;
    }}}
    y
}
pub fn pool_check(c: &Cfg, what: &str) -> Result<(), String> {
    let mut r = Lcg(c.seed);
    let x = r.t3_distinct(c.ic, c.ih, c.iw);
    let layer = maxpool::Maxpool::create(Shape::Triple(c.ic, c.ih, c.iw), c.k, c.s);
    let input = if what == "forward_flat" { Tensor::single(x.iter().flatten().flatten().cloned().collect()) } else { Tensor::triple(x.clone()) };
    let (pre, _, max) = layer.forward(&input);
    let y = t3(&pre);
    let yr = pool_reference(&x, c);
    if what != "backward" {
        let announced = match layer.outputs { Shape::Triple(a, b, d) => (a, b, d), _ => (0, 0, 0) };
        if !same_shape(&y, announced.0, announced.1, announced.2) { return Err(format!("produced shape != announced {:?}", announced)); }
        if !same_shape(&yr, announced.0, announced.1, announced.2) { return Err(format!("announced {:?} != standard formula", announced)); }
        if what != "shape" && y != yr { return Err(format!("forward != window maximum: got {:?} want {:?}", y, yr)); }
        return Ok(());
    }
    let g = r.t3(yr.len(), yr[0].len(), yr[0][0].len());
    let ig = t3(&layer.backward(&Tensor::triple(g.clone()), &max));
    if !same_shape(&ig, c.ic, c.ih, c.iw) { return Err("input gradient shape != input shape".into()); }
    // values are distinct integers: raising one cell by 1/2 keeps every arg-max, so d max / dx is the routing indicator
    let mut want = vec![vec![vec![0.0f32; c.iw]; c.ih]; c.ic];
    for ch in 0..c.ic { for a in 0..yr[0].len() { for b in 0..yr[0][0].len() {
        for k in 0..c.k.0 { for l in 0..c.k.1 { if x[ch][a * c.s.0 + k][b * c.s.1 + l] == yr[ch][a][b] { want[ch][a * c.s.0 + k][b * c.s.1 + l] += g[ch][a][b]; } } }
    }}}
    if ig != want { return Err(format!("input gradient {:?} != routed upstream gradient {:?}", ig, want)); }
    Ok(())
}

// ------------------------------------------------------------------------------------------------ search / run
pub fn grid() -> Vec<Cfg> {
    let mut out = Vec::new();
    let mut seed = 1u64;
    for &(ic, f) in &[(1usize, 1usize), (2, 2)] {
        for &(ih, iw) in &[(1usize, 1usize), (2, 3), (3, 3), (4, 3), (5, 6)] {
            for &k in &[(1usize, 1usize), (2, 2), (3, 3), (2, 3), (1, 2)] {
                for &s in &[(1usize, 1usize), (2, 2), (1, 2), (3, 1)] {
                    for &p in &[(0usize, 0usize), (1, 1), (2, 1), (0, 2)] {
                        for &d in &[(1usize, 1usize), (2, 2), (1, 2)] {
                            seed += 1;
                            out.push(Cfg { ic, ih, iw, f, k, s, p, d, seed });
                        }
                    }
                }
            }
        }
    }
    out
}

fn guarded<F: FnOnce() -> Result<(), String> + std::panic::UnwindSafe>(f: F) -> Result<(), String> {
    match std::panic::catch_unwind(f) {
        Ok(r) => r,
        Err(e) => Err(format!("panic: {}", e.downcast_ref::<String>().cloned().or_else(|| e.downcast_ref::<&str>().map(|s| s.to_string())).unwrap_or_default())),
    }
}

pub fn run_one(name: &str, c: &Cfg) -> Option<Result<(), String>> {
    let c2 = c.clone();
    let (layer, what) = name.split_once('.')?;
    match layer {
        "conv" => { if !conv_valid(c) { return None; } let w = what.to_string(); Some(guarded(move || conv_check(&c2, &w))) }
        "deconv" => { if !deconv_valid(c) || c.d != (1, 1) { return None; } let w = what.to_string(); Some(guarded(move || deconv_check(&c2, &w))) }
        "pool" => { if !pool_valid(c) || c.d != (1, 1) || c.p != (0, 0) || c.f != c.ic { return None; } let w = what.to_string(); Some(guarded(move || pool_check(&c2, &w))) }
        _ => None,
    }
}

/// `search <layer.what>` -> first failing configuration; `run <layer.what> <cfg json>` -> that configuration only
/// C08: `(size as f32).sqrt() as usize` is the integer floor square root - by exhaustion over every size < 2^24
/// (CBMC's sqrt model is not correctly rounded: it reports 3168^2 - 1, which does not reproduce natively)
pub fn isqrt_floor(only: Option<usize>) -> Result<usize, (usize, usize)> {
    let (lo, hi) = match only { Some(n) => (n, n + 1), None => (0usize, 1usize << 24) };
    for size in lo..hi {
        let r = (size as f32).sqrt() as usize;
        if !(r * r <= size && size < (r + 1) * (r + 1)) { return Err((size, r)); }
    }
    Ok(hi - lo)
}

pub fn dispatch(cmd: &str, name: &str, arg: &str) -> Option<String> {
    if name == "isqrt.floor" {
        let only = if cmd == "run" { arg.split(|c: char| !c.is_ascii_digit()).find(|x| !x.is_empty()).and_then(|x| x.parse().ok()) } else { None };
        return Some(match isqrt_floor(only) {
            Ok(n) => format!("{{\"failed\":false,\"tried\":{},\"exhaustive\":true}}", n),
            Err((size, r)) => format!("{{\"failed\":true,\"input\":{{\"size\":{}}},\"detail\":\"(size as f32).sqrt() as usize = {} is not the floor square root\"}}", size, r),
        });
    }
    if name.starts_with("connect.") { return dispatch_connect(cmd, name, arg); }
    if name.starts_with("loopback.") { return dispatch_loopback(cmd, name, arg); }
    if name.starts_with("skip.") { return dispatch_skipgrad(cmd, name, arg); }
    if name == "learn.stopping" { return dispatch_stopping(cmd, name, arg); }
    if name.starts_with("learn.") { return dispatch_schedule(cmd, name, arg); }
    if name.starts_with("validate.") { return dispatch_validate(cmd, name, arg); }
    if name == "feedback.tied" { return dispatch_tied(cmd, name, arg); }
    if name == "objective.elementwise" { return dispatch_objective_cells(cmd, name, arg); }
    if name.starts_with("objective.") { return dispatch_objective(cmd, name, arg); }
    if name == "network.gradient" { return dispatch_netgrad(cmd, name, arg); }
    if name == "dropout.leak" { return dispatch_dropout(cmd, name, arg); }
    if name == "shapes.chain" { return dispatch_chain(cmd, name, arg); }
    if name.starts_with("feedback.") { return dispatch_feedback(cmd, name, arg); }
    if name.starts_with("reshape.") { return dispatch_reshape(cmd, name, arg); }
    if name == "tensor.elementwise" || name == "activation.elementwise" { return dispatch_elementwise(cmd, name, arg); }
    if name == "random.shapes" { return dispatch_random(cmd, name, arg); }
    if name == "tensor.linear" || name == "dense.linear.forward" || name == "dense.linear.backward" { return dispatch_linear(cmd, name, arg); }
    if !["conv", "deconv", "pool"].iter().any(|p| name.starts_with(p)) { return None; }
    std::panic::set_hook(Box::new(|_| {}));
    if cmd == "run" {
        let c = Cfg::parse(arg)?;
        return Some(match run_one(name, &c) {
            Some(Err(e)) => format!("{{\"failed\":true,\"input\":{},\"detail\":{:?}}}", c.json(), e),
            Some(Ok(())) => format!("{{\"failed\":false,\"input\":{}}}", c.json()),
            None => "{\"failed\":false,\"note\":\"configuration not valid for this layer\"}".to_string(),
        });
    }
    let mut tried = 0usize;
    for c in grid() {
        if let Some(r) = run_one(name, &c) {
            tried += 1;
            if let Err(e) = r { return Some(format!("{{\"failed\":true,\"tried\":{},\"input\":{},\"detail\":{:?}}}", tried, c.json(), e)); }
        }
    }
    Some(format!("{{\"failed\":false,\"tried\":{}}}", tried))
}

// ------------------------------------------------------------------------------------------------ Network::connect (C16)
fn net_dense(n: usize) -> crate::network::Network {
    let mut net = crate::network::Network::new(Shape::Single(1));
    for _ in 0..n { net.dense(1, Activation::Linear, false, None); }
    net
}
/// all sequences of two valid calls on an n-layer dense network; Err on the first sequence that breaks the clause
pub fn connect_check(what: &str, only: Option<(usize, usize, usize, usize, usize)>) -> Result<usize, (String, String)> {
    let mut tried = 0;
    for n in 2..5usize {
        for b1 in 0..n { for a1 in 0..=b1 { for b2 in 0..n { for a2 in 0..=b2 {
            if let Some(o) = only { if o != (n, a1, b1, a2, b2) { continue; } }
            tried += 1;
            let input = format!("{{\"layers\":{},\"first\":[{},{}],\"second\":[{},{}]}}", n, a1, b1, a2, b2);
            let r = std::panic::catch_unwind(|| {
                let mut net = net_dense(n);
                net.connect(a1, b1);
                let second = std::panic::catch_unwind(std::panic::AssertUnwindSafe(|| net.connect(a2, b2)));
                (second.is_ok(), net.connect.get(&b1).cloned(), net.connect.get(&b2).cloned())
            });
            let (accepted, first_now, second_now) = match r { Ok(x) => x, Err(_) => return Err((input, "the first (valid) call was rejected".into())) };
            if what == "no_discard" {
                if accepted && first_now != Some(a1) {
                    return Err((input, format!("second call accepted but the first mapping {}->{} became {:?}", a1, b1, first_now)));
                }
                if accepted && second_now != Some(a2) { return Err((input, "second call accepted but not recorded".into())); }
            } else {
                // distinct sources and targets must be accepted
                if a1 != a2 && b1 != b2 && !accepted {
                    return Err((input, "connections with distinct sources and targets: second call rejected".into()));
                }
            }
        }}}}
    }
    Ok(tried)
}
pub fn dispatch_connect(cmd: &str, name: &str, arg: &str) -> Option<String> {
    let what = name.strip_prefix("connect.")?;
    std::panic::set_hook(Box::new(|_| {}));
    let only = if cmd == "run" {
        let nums: Vec<usize> = arg.split(|c: char| !c.is_ascii_digit()).filter(|x| !x.is_empty()).filter_map(|x| x.parse().ok()).collect();
        if nums.len() != 5 { return None; }
        Some((nums[0], nums[1], nums[2], nums[3], nums[4]))
    } else { None };
    Some(match connect_check(what, only) {
        Ok(t) => format!("{{\"failed\":false,\"tried\":{}}}", t),
        Err((input, detail)) => format!("{{\"failed\":true,\"input\":{},\"detail\":{:?}}}", input, detail),
    })
}

// ------------------------------------------------------------------------------------------------ loop connections (C17)
fn acc_of(a: usize) -> crate::feedback::Accumulation {
    use crate::feedback::Accumulation::*;
    match a { 0 => Add, 1 => Subtract, 2 => Multiply, 3 => Overwrite, _ => Mean }
}
fn post_of(net: &crate::network::Network, j: usize, x: &Tensor) -> Tensor {
    match &net.layers[j] { crate::network::Layer::Dense(l) => l.forward(x).1, _ => panic!("dense layers only") }
}
/// the thorough tier enlarges every grid (`VERIF_GRID=thorough`, set by ./check --tier thorough)
fn big() -> bool { std::env::var("VERIF_GRID").map(|v| v == "thorough").unwrap_or(false) }
/// equal up to rounding (relative 1e-4, absolute 1e-6): a re-association of a float sum must not count as a violation of a property about real-valued sums
fn close(a: f32, b: f32) -> bool { (a.is_nan() && b.is_nan()) || a == b || (a - b).abs() <= 1e-6 + 1e-4 * a.abs().max(b.abs()) }
fn close_all(a: &[f32], b: &[f32]) -> bool { a.len() == b.len() && a.iter().zip(b.iter()).all(|(x, y)| close(*x, *y)) }
fn bits(t: &Tensor) -> Vec<u32> { t.get_flat().iter().map(|v| if v.is_nan() { 0x7fc0_0000 } else { v.to_bits() }).collect() }
/// the statement of C17 executed literally on an n-layer dense network (width 2, small integer weights): the value passed on
/// after layer `outof` is the configured accumulation of the k+1 successive outputs; observed at Network::predict
pub fn loopback_one(n: usize, into: usize, outof: usize, k: usize, inskips: bool, acc: usize, seed: u64) -> Result<(), String> {
    let mut rng = Lcg(seed.wrapping_mul(2654435761).wrapping_add(12345));
    let mut net = crate::network::Network::new(Shape::Single(2));
    for j in 0..n { net.dense(2, if j % 2 == 0 { Activation::Linear } else { Activation::ReLU }, true, None); }
    for layer in net.layers.iter_mut() {
        if let crate::network::Layer::Dense(l) = layer {
            l.weights = Tensor::double(vec![vec![rng.int(-1, 1), rng.int(-1, 2)], vec![rng.int(-1, 1), rng.int(-1, 1)]]);
            l.bias = Some(Tensor::single(vec![rng.int(-1, 1), rng.int(-1, 1)]));
        }
    }
    net.set_accumulation(crate::feedback::Accumulation::Add, acc_of(acc));
    net.loopback(outof, into, k, std::sync::Arc::new(|x| 1.0 / x), inskips);
    let x = Tensor::single(vec![rng.int(-2, 2), rng.int(1, 2)]);
    let got = net.predict(&x);
    // reference
    let mut a = vec![x.clone()];
    for j in 0..=outof { let y = post_of(&net, j, a.last().unwrap()); a.push(y); }
    let y0 = a[outof + 1].clone();
    let mut outs: Vec<Tensor> = Vec::new();
    let mut prev = y0.clone();
    for _ in 0..k {
        let mut cur = prev.clone();
        if inskips { cur.add_inplace(&a[into]); }
        for j in into..=outof { cur = post_of(&net, j, &cur); }
        outs.push(cur.clone());
        prev = cur;
    }
    let mut passed = y0.clone();
    match acc {
        0 => for o in &outs { passed.add_inplace(o); },
        1 => for o in &outs { passed.sub_inplace(o); },
        2 => for o in &outs { passed.mul_inplace(o); },
        3 => passed = outs.last().unwrap().clone(),
        _ => { let refs: Vec<&Tensor> = outs.iter().collect(); passed.mean_inplace(&refs); }
    }
    for j in outof + 1..n { passed = post_of(&net, j, &passed); }
    if !close_all(&got.get_flat(), &passed.get_flat()) {
        return Err(format!("predict = {:?} but the accumulated repeated sub-network gives {:?}", got.get_flat(), passed.get_flat()));
    }
    Ok(())
}
pub fn dispatch_loopback(cmd: &str, name: &str, arg: &str) -> Option<String> {
    if name != "loopback.forward" { return None; }
    std::panic::set_hook(Box::new(|_| {}));
    let fmt = |n: usize, into: usize, outof: usize, k: usize, s: bool, acc: usize, seed: u64|
        format!("{{\"layers\":{},\"into\":{},\"outof\":{},\"iterations\":{},\"inskips\":{},\"accumulation\":{},\"seed\":{}}}", n, into, outof, k, s as usize, acc, seed);
    let one = |n: usize, into: usize, outof: usize, k: usize, s: bool, acc: usize, seed: u64| -> Result<(), String> {
        match std::panic::catch_unwind(|| loopback_one(n, into, outof, k, s, acc, seed)) { Ok(r) => r, Err(_) => Err("panicked on a valid loop connection".into()) }
    };
    if cmd == "run" {
        let v: Vec<u64> = arg.split(|c: char| !c.is_ascii_digit()).filter(|x| !x.is_empty()).filter_map(|x| x.parse().ok()).collect();
        if v.len() != 7 { return None; }
        let input = fmt(v[0] as usize, v[1] as usize, v[2] as usize, v[3] as usize, v[4] != 0, v[5] as usize, v[6]);
        return Some(match one(v[0] as usize, v[1] as usize, v[2] as usize, v[3] as usize, v[4] != 0, v[5] as usize, v[6]) {
            Ok(()) => format!("{{\"failed\":false,\"input\":{}}}", input),
            Err(e) => format!("{{\"failed\":true,\"input\":{},\"detail\":{:?}}}", input, e),
        });
    }
    let mut tried = 0usize;
    for n in 1..=(if big() { 5 } else { 4 }) as usize { for outof in 0..n { for into in 0..=outof { for k in 1..=(if big() { 4 } else { 3 }) as usize { for s in [false, true] { for acc in 0..5usize { for seed in 0..(if big() { 6 } else { 3 }) as u64 {
        tried += 1;
        if let Err(e) = one(n, into, outof, k, s, acc, seed) {
            return Some(format!("{{\"failed\":true,\"tried\":{},\"input\":{},\"detail\":{:?}}}", tried, fmt(n, into, outof, k, s, acc, seed), e));
        }
    }}}}}}}
    Some(format!("{{\"failed\":false,\"tried\":{}}}", tried))
}

// ------------------------------------------------------------------------------------------------ skip-connection gradients (C16)
/// n dense 1->1 linear layers without bias, integer weights, additive skip connections `conns` (source, target);
/// L = y.  Every weight occurs once, so y is affine in each single weight and the step-1 finite difference is exact.
fn skip_net(n: usize, conns: &[(usize, usize)], w: &[f32]) -> crate::network::Network {
    let mut net = crate::network::Network::new(Shape::Single(1));
    for _ in 0..n { net.dense(1, Activation::Linear, false, None); }
    for (j, layer) in net.layers.iter_mut().enumerate() {
        if let crate::network::Layer::Dense(l) = layer { l.weights = Tensor::double(vec![vec![w[j]]]); }
    }
    for (a, b) in conns { net.connect(*a, *b); }
    net
}
pub fn skipgrad_one(n: usize, conns: &[(usize, usize)], seed: u64) -> Result<(), String> {
    let mut rng = Lcg(seed.wrapping_mul(2654435761).wrapping_add(99));
    let w: Vec<f32> = (0..n).map(|_| rng.int(1, 3)).collect();
    let x = Tensor::single(vec![rng.int(1, 3)]);
    let net = skip_net(n, conns, &w);
    let (pre, act, maxp, fbs) = net.forward(&x);
    let y = act.last().unwrap().get_flat()[0];
    let (wg, _bg) = net.backward(Tensor::single(vec![1.0]), &pre, &act, &maxp, fbs);
    for l in 0..n {
        let mut w2 = w.clone();
        w2[l] += 1.0;
        let y2 = skip_net(n, conns, &w2).predict(&x).get_flat()[0];
        let fd = y2 - y;
        let got = match &wg[n - 1 - l].data { Data::Double(v) => v[0][0], Data::Single(v) => v[0], _ => panic!("unexpected weight-gradient rank") };
        if got != fd {
            return Err(format!("dy/dw[{}]: backward gives {} but the exact difference quotient is {} (weights {:?}, x {:?})", l, got, fd, w, x.get_flat()));
        }
    }
    Ok(())
}
pub fn dispatch_skipgrad(cmd: &str, name: &str, arg: &str) -> Option<String> {
    if name != "skip.gradient" { return None; }
    if std::env::var("VERIF_SHOW_PANIC").is_err() { std::panic::set_hook(Box::new(|_| {})); }
    let fmt = |n: usize, c: &Vec<(usize, usize)>, seed: u64| format!("{{\"layers\":{},\"connections\":{:?},\"seed\":{}}}", n, c.iter().map(|(a, b)| vec![*a, *b]).collect::<Vec<_>>(), seed);
    let one = |n: usize, c: &Vec<(usize, usize)>, seed: u64| -> Result<(), String> {
        let c2 = c.clone();
        match std::panic::catch_unwind(move || skipgrad_one(n, &c2, seed)) { Ok(r) => r, Err(_) => Err("forward/backward panicked on accepted skip connections".into()) }
    };
    if cmd == "run" {
        let v: Vec<u64> = arg.split(|c: char| !c.is_ascii_digit()).filter(|x| !x.is_empty()).filter_map(|x| x.parse().ok()).collect();
        if v.len() < 2 || v.len() % 2 != 0 { return None; }
        let n = v[0] as usize; let seed = v[v.len() - 1];
        let c: Vec<(usize, usize)> = v[1..v.len() - 1].chunks(2).map(|p| (p[0] as usize, p[1] as usize)).collect();
        return Some(match one(n, &c, seed) {
            Ok(()) => format!("{{\"failed\":false,\"input\":{}}}", fmt(n, &c, seed)),
            Err(e) => format!("{{\"failed\":true,\"input\":{},\"detail\":{:?}}}", fmt(n, &c, seed), e),
        });
    }
    let mut tried = 0usize;
    for n in 1..=4usize {
        let mut pairs: Vec<(usize, usize)> = Vec::new();
        for b in 0..n { for a in 0..=b { pairs.push((a, b)); } }
        let mut sets: Vec<Vec<(usize, usize)>> = vec![vec![]];
        for p in &pairs { sets.push(vec![*p]); }
        for p in &pairs { for q in &pairs { if p.1 < q.1 { sets.push(vec![*p, *q]); } } }
        for c in &sets { for seed in 0..2u64 {
            tried += 1;
            if let Err(e) = one(n, c, seed) { return Some(format!("{{\"failed\":true,\"tried\":{},\"input\":{},\"detail\":{:?}}}", tried, fmt(n, c, seed), e)); }
        }}
    }
    Some(format!("{{\"failed\":false,\"tried\":{}}}", tried))
}

// ------------------------------------------------------------------------------------------------ training schedule (C04)
fn sched_net(seed: u64, momentum: bool) -> crate::network::Network {
    let mut rng = Lcg(seed.wrapping_mul(2654435761).wrapping_add(7));
    let mut net = crate::network::Network::new(Shape::Single(2));
    net.dense(2, Activation::Linear, true, None);
    net.dense(1, Activation::Linear, false, None);
    let mut first = true;
    for layer in net.layers.iter_mut() {
        if let crate::network::Layer::Dense(l) = layer {
            if first {
                l.weights = Tensor::double(vec![vec![rng.int(-2, 2), rng.int(-2, 2)], vec![rng.int(-2, 2), rng.int(-2, 2)]]);
                l.bias = Some(Tensor::single(vec![rng.int(-1, 1), rng.int(-1, 1)]));
                first = false;
            } else {
                l.weights = Tensor::double(vec![vec![rng.int(-2, 2), rng.int(-2, 2)]]);
            }
        }
    }
    net.set_objective(crate::objective::Objective::MSE, None);
    // step-number dependent optimizer (Adam's bias correction uses the step number) or plain SGD with momentum
    if momentum { net.set_optimizer(crate::optimizer::SGDM::create(0.015625, 0.5, 0.0, None)); }
    else { net.set_optimizer(crate::optimizer::Adam::create(0.015625, 0.5, 0.75, 1e-3, None)); }
    net
}
fn sched_weights(net: &crate::network::Network) -> Vec<f32> {
    let mut out = Vec::new();
    for layer in net.layers.iter() {
        if let crate::network::Layer::Dense(l) = layer {
            if let Data::Double(w) = &l.weights.data { for r in w { for v in r { out.push(*v); } } }
            if let Some(b) = &l.bias { if let Data::Single(b) = &b.data { for v in b { out.push(*v); } } }
        }
    }
    out
}
/// the statement of C04 executed literally (private forward / backward / update of the same crate) against `learn`
pub fn schedule_one(n: usize, b: usize, e: i32, seed: u64) -> Result<(), String> {
    let mut rng = Lcg(seed.wrapping_add(1000));
    let xs: Vec<Tensor> = (0..n).map(|_| Tensor::single(vec![rng.int(-2, 2), rng.int(-2, 2)])).collect();
    let ys: Vec<Tensor> = (0..n).map(|_| Tensor::single(vec![rng.int(-2, 2)])).collect();
    let xr: Vec<&Tensor> = xs.iter().collect();
    let yr: Vec<&Tensor> = ys.iter().collect();
    let momentum = seed % 2 == 0;
    // reference
    let mut r = sched_net(seed, momentum);
    let mut want_loss: Vec<f32> = Vec::new();
    for epoch in 1..=e {
        let mut loss_epoch = 0.0f32;
        let mut groups = 0usize;
        let mut start = 0usize;
        while start < n {
            let end = if start + b < n { start + b } else { n };
            let mut sw: Vec<Tensor> = Vec::new();
            let mut sb: Vec<Option<Tensor>> = Vec::new();
            let mut losses: Vec<f32> = Vec::new();
            for s in start..end {
                let (pre, act, maxp, fbs) = r.forward(&xs[s]);
                let (loss, g) = r.objective.loss(act.last().unwrap(), &ys[s]);
                let (wg, bg) = r.backward(g, &pre, &act, &maxp, fbs);
                if loss.is_nan() { return Ok(()); }   // learn() aborts on a NaN loss: a permitted outcome, instance skipped
                losses.push(loss);
                if s == start { sw = wg; sb = bg; } else {
                    for (a, c) in sw.iter_mut().zip(wg.iter()) { a.add_inplace(c); }
                    for (a, c) in sb.iter_mut().zip(bg.iter()) { if let (Some(a), Some(c)) = (a.as_mut(), c.as_ref()) { a.add_inplace(c); } }
                }
            }
            loss_epoch += losses.iter().sum::<f32>() / losses.len() as f32;
            r.update(epoch, sw, sb);
            groups += 1;
            start = end;
        }
        want_loss.push(loss_epoch / groups as f32);
    }
    let mut net = sched_net(seed, momentum);
    let (got_loss, _, _) = net.learn(&xr, &yr, None, b, e, None);
    if !close_all(&sched_weights(&net), &sched_weights(&r)) {
        return Err("weights after learn() differ from ordered mini-batch gradient-sum descent (one step per group, step number = epoch)".to_string());
    }
    if !close_all(&got_loss, &want_loss) { return Err(format!("reported training losses {:?} differ from the mean of group means {:?}", got_loss, want_loss)); }
    Ok(())
}
pub fn dispatch_schedule(cmd: &str, name: &str, arg: &str) -> Option<String> {
    if name != "learn.schedule" { return None; }
    if std::env::var("VERIF_SHOW_PANIC").is_err() { std::panic::set_hook(Box::new(|_| {})); }
    let fmt = |n: usize, b: usize, e: i32, seed: u64| format!("{{\"samples\":{},\"batch\":{},\"epochs\":{},\"seed\":{}}}", n, b, e, seed);
    let one = |n: usize, b: usize, e: i32, seed: u64| -> Result<(), String> {
        match std::panic::catch_unwind(move || schedule_one(n, b, e, seed)) { Ok(r) => r, Err(_) => Err("learn() or the reference panicked".into()) }
    };
    if cmd == "run" {
        let v: Vec<u64> = arg.split(|c: char| !c.is_ascii_digit()).filter(|x| !x.is_empty()).filter_map(|x| x.parse().ok()).collect();
        if v.len() != 4 { return None; }
        return Some(match one(v[0] as usize, v[1] as usize, v[2] as i32, v[3]) {
            Ok(()) => format!("{{\"failed\":false,\"input\":{}}}", fmt(v[0] as usize, v[1] as usize, v[2] as i32, v[3])),
            Err(e) => format!("{{\"failed\":true,\"input\":{},\"detail\":{:?}}}", fmt(v[0] as usize, v[1] as usize, v[2] as i32, v[3]), e),
        });
    }
    let mut tried = 0usize;
    for n in 1..=(if big() { 9 } else { 5 }) as usize { for b in 1..=(if big() { 10 } else { 6 }) as usize { for e in 1..=(if big() { 4 } else { 3 }) as i32 { for seed in 0..(if big() { 4 } else { 2 }) as u64 {
        tried += 1;
        if let Err(err) = one(n, b, e, seed) { return Some(format!("{{\"failed\":true,\"tried\":{},\"input\":{},\"detail\":{:?}}}", tried, fmt(n, b, e, seed), err)); }
    }}}}
    Some(format!("{{\"failed\":false,\"tried\":{}}}", tried))
}

// ------------------------------------------------------------------------------------------------ validate / predict_batch (C12)
/// validate() against the statement of C12 executed with the crate's own predict / objective (sequential sums in input order)
pub fn validate_one(n: usize, softmax: bool, outs: usize, seed: u64) -> Result<(), String> {
    let mut rng = Lcg(seed.wrapping_mul(40503).wrapping_add(n as u64));
    let mut net = crate::network::Network::new(Shape::Single(2));
    net.dense(outs, if softmax { Activation::Softmax } else { Activation::Linear }, true, None);
    net.set_objective(if softmax { crate::objective::Objective::CrossEntropy } else { crate::objective::Objective::MSE }, None);
    for layer in net.layers.iter_mut() {
        if let crate::network::Layer::Dense(l) = layer {
            l.weights = Tensor::double((0..outs).map(|_| vec![rng.int(-1, 1) * 0.25, rng.int(-1, 1) * 0.25]).collect());
            l.bias = Some(Tensor::single((0..outs).map(|_| rng.int(-1, 1) * 0.25).collect()));
        }
    }
    let xs: Vec<Tensor> = (0..n).map(|_| Tensor::single(vec![rng.int(-2, 2), rng.int(-2, 2)])).collect();
    let ys: Vec<Tensor> = (0..n).map(|_| {
        if softmax { let hot = (rng.next() % outs as u64) as usize; Tensor::single((0..outs).map(|j| if j == hot { 1.0 } else { 0.0 }).collect()) }
        else { Tensor::single((0..outs).map(|_| rng.int(-2, 2) * 0.25).collect()) }
    }).collect();
    let xr: Vec<&Tensor> = xs.iter().collect();
    let yr: Vec<&Tensor> = ys.iter().collect();
    let tol = 0.3f32;
    let (got_loss, got_acc) = net.validate(&xr, &yr, tol);
    let mut losses: Vec<f32> = Vec::new();
    let mut accs: Vec<f32> = Vec::new();
    for g in 0..n {
        let p = net.predict(&xs[g]);
        let (l, _) = net.objective.loss(&p, &ys[g]);
        losses.push(l);
        let a = if softmax { if ys[g].argmax() == p.argmax() { 1.0 } else { 0.0 } } else {
            let t = ys[g].get_flat(); let q = p.get_flat();
            let mut hit = 0.0f32;
            for j in 0..t.len() { if (t[j] - q[j]).abs() < tol { hit += 1.0; } }
            hit / t.len() as f32
        };
        accs.push(a);
    }
    let want_loss = losses.iter().sum::<f32>() / n as f32;
    let want_acc = accs.iter().sum::<f32>() / n as f32;
    if !close(got_loss, want_loss) { return Err(format!("validate loss {} is not the mean over the samples {}", got_loss, want_loss)); }
    if !close(got_acc, want_acc) { return Err(format!("validate accuracy {} is not the mean over the samples {}", got_acc, want_acc)); }
    let batch = net.predict_batch(&xr);
    if batch.len() != n { return Err(format!("predict_batch returned {} predictions for {} inputs", batch.len(), n)); }
    for g in 0..n { if !close_all(&batch[g].get_flat(), &net.predict(&xs[g]).get_flat()) { return Err(format!("predict_batch[{}] is not predict of input {}", g, g)); } }
    Ok(())
}
pub fn dispatch_validate(cmd: &str, name: &str, arg: &str) -> Option<String> {
    if name != "validate.mean" { return None; }
    if std::env::var("VERIF_SHOW_PANIC").is_err() { std::panic::set_hook(Box::new(|_| {})); }
    let fmt = |n: usize, sm: bool, outs: usize, seed: u64| format!("{{\"samples\":{},\"softmax\":{},\"outputs\":{},\"seed\":{}}}", n, sm as usize, outs, seed);
    let one = |n: usize, sm: bool, outs: usize, seed: u64| -> Result<(), String> {
        match std::panic::catch_unwind(move || validate_one(n, sm, outs, seed)) { Ok(r) => r, Err(_) => Err("validate() / predict_batch() panicked".into()) }
    };
    if cmd == "run" {
        let v: Vec<u64> = arg.split(|c: char| !c.is_ascii_digit()).filter(|x| !x.is_empty()).filter_map(|x| x.parse().ok()).collect();
        if v.len() != 4 { return None; }
        return Some(match one(v[0] as usize, v[1] != 0, v[2] as usize, v[3]) {
            Ok(()) => format!("{{\"failed\":false,\"input\":{}}}", fmt(v[0] as usize, v[1] != 0, v[2] as usize, v[3])),
            Err(e) => format!("{{\"failed\":true,\"input\":{},\"detail\":{:?}}}", fmt(v[0] as usize, v[1] != 0, v[2] as usize, v[3]), e),
        });
    }
    let mut tried = 0usize;
    for n in (if big() { vec![1usize, 2, 3, 31, 63, 64, 65, 127, 128, 129, 200] } else { vec![1usize, 2, 3, 63, 64, 65, 129] }) { for sm in [false, true] { for outs in 1..=(if big() { 4 } else { 3 }) as usize { for seed in 0..(if big() { 5 } else { 2 }) as u64 {
        if sm && outs == 1 { continue; }
        tried += 1;
        if let Err(e) = one(n, sm, outs, seed) { return Some(format!("{{\"failed\":true,\"tried\":{},\"input\":{},\"detail\":{:?}}}", tried, fmt(n, sm, outs, seed), e)); }
    }}}}
    Some(format!("{{\"failed\":false,\"tried\":{}}}", tried))
}

// ------------------------------------------------------------------------------------------------ feedback blocks (C11)
/// the statement of C11 executed literally on a block of `len` dense 2->2 layers (integer weights), `loops` repetitions
pub fn feedback_one(len: usize, loops: usize, inskips: bool, outskips: bool, acc: usize, seed: u64) -> Result<(), String> {
    let mut rng = Lcg(seed.wrapping_mul(7919).wrapping_add(31));
    let mut layers: Vec<crate::network::Layer> = Vec::new();
    for j in 0..len {
        let mut d = crate::dense::Dense::create(Shape::Single(2), Shape::Single(2), if j % 2 == 0 { &Activation::Linear } else { &Activation::ReLU }, true, None);
        d.weights = Tensor::double(vec![vec![rng.int(-1, 1), rng.int(-1, 2)], vec![rng.int(-1, 1), rng.int(-1, 1)]]);
        d.bias = Some(Tensor::single(vec![rng.int(-1, 1), rng.int(-1, 1)]));
        layers.push(crate::network::Layer::Dense(d));
    }
    let first: Vec<crate::dense::Dense> = layers.iter().map(|l| match l { crate::network::Layer::Dense(d) => d.clone(), _ => unreachable!() }).collect();
    let block = crate::feedback::Feedback::create(layers, loops, inskips, outskips, acc_of(acc));
    let x = Tensor::single(vec![rng.int(-2, 2), rng.int(1, 2)]);
    let (_, got, _, _, _) = block.forward(&x);
    // reference: L-fold repeated application with shared weights
    let combine = |a: &Tensor, others: &[Tensor]| -> Tensor {
        let mut r = a.clone();
        match acc {
            0 => for o in others { r.add_inplace(o); },
            1 => for o in others { r.sub_inplace(o); },
            2 => for o in others { r.mul_inplace(o); },
            3 => r = others.last().unwrap().clone(),
            _ => { let refs: Vec<&Tensor> = others.iter().collect(); r.mean_inplace(&refs); }
        }
        r
    };
    let mut outs: Vec<Tensor> = Vec::new();          // output of every repetition
    let mut cur = x.clone();
    for rep in 0..loops {
        if rep > 0 && inskips { cur = combine(&cur, &[x.clone()]); }
        for d in &first { cur = d.forward(&cur).1; }
        outs.push(cur.clone());
    }
    let mut want = outs[loops - 1].clone();
    if outskips && loops > 1 { want = combine(&want, &outs[..loops - 1]); }
    if !close_all(&got.get_flat(), &want.get_flat()) {
        return Err(format!("Feedback::forward = {:?} but the repeated, skip-combined layer sequence gives {:?}", got.get_flat(), want.get_flat()));
    }
    Ok(())
}
pub fn dispatch_feedback(cmd: &str, name: &str, arg: &str) -> Option<String> {
    if name != "feedback.forward" { return None; }
    if std::env::var("VERIF_SHOW_PANIC").is_err() { std::panic::set_hook(Box::new(|_| {})); }
    let fmt = |l: usize, n: usize, i: bool, o: bool, a: usize, s: u64| format!("{{\"layers\":{},\"loops\":{},\"inskips\":{},\"outskips\":{},\"accumulation\":{},\"seed\":{}}}", l, n, i as usize, o as usize, a, s);
    let one = |l: usize, n: usize, i: bool, o: bool, a: usize, s: u64| -> Result<(), String> {
        match std::panic::catch_unwind(move || feedback_one(l, n, i, o, a, s)) { Ok(r) => r, Err(_) => Err("Feedback::create / forward panicked on a valid block".into()) }
    };
    if cmd == "run" {
        let v: Vec<u64> = arg.split(|c: char| !c.is_ascii_digit()).filter(|x| !x.is_empty()).filter_map(|x| x.parse().ok()).collect();
        if v.len() != 6 { return None; }
        return Some(match one(v[0] as usize, v[1] as usize, v[2] != 0, v[3] != 0, v[4] as usize, v[5]) {
            Ok(()) => format!("{{\"failed\":false,\"input\":{}}}", fmt(v[0] as usize, v[1] as usize, v[2] != 0, v[3] != 0, v[4] as usize, v[5])),
            Err(e) => format!("{{\"failed\":true,\"input\":{},\"detail\":{:?}}}", fmt(v[0] as usize, v[1] as usize, v[2] != 0, v[3] != 0, v[4] as usize, v[5]), e),
        });
    }
    let mut tried = 0usize;
    for l in 1..=(if big() { 4 } else { 3 }) as usize { for n in 1..=(if big() { 6 } else { 4 }) as usize { for i in [false, true] { for o in [false, true] { for a in 0..5usize { for s in 0..(if big() { 5 } else { 2 }) as u64 {
        tried += 1;
        if let Err(e) = one(l, n, i, o, a, s) { return Some(format!("{{\"failed\":true,\"tried\":{},\"input\":{},\"detail\":{:?}}}", tried, fmt(l, n, i, o, a, s), e)); }
    }}}}}}
    Some(format!("{{\"failed\":false,\"tried\":{}}}", tried))
}

// ------------------------------------------------------------------------------------------------ reshape / flatten (C14)
pub fn reshape_one(c: usize, h: usize, w: usize, c2: usize, h2: usize, w2: usize) -> Result<(), String> {
    let n = c * h * w;
    let data: Vec<Vec<Vec<f32>>> = (0..c).map(|a| (0..h).map(|b| (0..w).map(|d| ((a * h + b) * w + d) as f32).collect()).collect()).collect();
    let t = Tensor::triple(data);
    let seq: Vec<f32> = (0..n).map(|i| i as f32).collect();
    if t.get_flat() != seq { return Err("get_flat is not the row-major sequence".into()); }
    let f = t.flatten();
    if f.get_flat() != seq || !matches!(f.shape, Shape::Single(m) if m == n) { return Err("flatten does not keep the row-major sequence / records a wrong shape".into()); }
    let back = f.get_triple(&Shape::Triple(c, h, w));
    if back != *t.as_triple() { return Err("get_triple(flatten(t)) is not t".into()); }
    if c2 * h2 * w2 == n {
        let r = t.clone().reshape(Shape::Triple(c2, h2, w2));
        let d = r.as_triple();
        if !(d.len() == c2 && d.iter().all(|x| x.len() == h2 && x.iter().all(|y| y.len() == w2))) { return Err("reshape: data extents differ from the requested shape".into()); }
        if !matches!(r.shape, Shape::Triple(a, b, e) if (a, b, e) == (c2, h2, w2)) { return Err("reshape: recorded shape is not the requested one".into()); }
        if r.get_flat() != seq { return Err("reshape changed the row-major sequence".into()); }
        let rr = r.reshape(Shape::Triple(c, h, w));
        if rr.as_triple() != t.as_triple() { return Err("reshape there and back is not the identity".into()); }
        let v = t.clone().reshape(Shape::Single(n)).reshape(Shape::Triple(c2, h2, w2));
        if v.get_flat() != seq { return Err("reshape via a flat tensor changed the sequence".into()); }
    } else {
        let refused = std::panic::catch_unwind(|| { let _ = t.clone().reshape(Shape::Triple(c2, h2, w2)); }).is_err();
        if !refused { return Err("reshape to a different element count was accepted".into()); }
    }
    Ok(())
}
pub fn dispatch_reshape(cmd: &str, name: &str, arg: &str) -> Option<String> {
    if name != "reshape.rowmajor" { return None; }
    if std::env::var("VERIF_SHOW_PANIC").is_err() { std::panic::set_hook(Box::new(|_| {})); }
    let fmt = |v: [usize; 6]| format!("{{\"from\":[{},{},{}],\"to\":[{},{},{}]}}", v[0], v[1], v[2], v[3], v[4], v[5]);
    let one = |v: [usize; 6]| -> Result<(), String> {
        match std::panic::catch_unwind(move || reshape_one(v[0], v[1], v[2], v[3], v[4], v[5])) { Ok(r) => r, Err(_) => Err("a valid reshape / flatten panicked".into()) }
    };
    if cmd == "run" {
        let v: Vec<usize> = arg.split(|c: char| !c.is_ascii_digit()).filter(|x| !x.is_empty()).filter_map(|x| x.parse().ok()).collect();
        if v.len() != 6 { return None; }
        let a = [v[0], v[1], v[2], v[3], v[4], v[5]];
        return Some(match one(a) { Ok(()) => format!("{{\"failed\":false,\"input\":{}}}", fmt(a)), Err(e) => format!("{{\"failed\":true,\"input\":{},\"detail\":{:?}}}", fmt(a), e) });
    }
    let mut tried = 0usize;
    for c in 1..=(if big() { 4 } else { 3 }) as usize { for h in 1..=(if big() { 4 } else { 3 }) as usize { for w in 1..=(if big() { 5 } else { 4 }) as usize { for c2 in 1..=(if big() { 4 } else { 3 }) as usize { for h2 in 1..=(if big() { 5 } else { 4 }) as usize { for w2 in 1..=(if big() { 5 } else { 4 }) as usize {
        tried += 1;
        let a = [c, h, w, c2, h2, w2];
        if let Err(e) = one(a) { return Some(format!("{{\"failed\":true,\"tried\":{},\"input\":{},\"detail\":{:?}}}", tried, fmt(a), e)); }
    }}}}}}
    Some(format!("{{\"failed\":false,\"tried\":{}}}", tried))
}

// ------------------------------------------------------------------------------------------------ weight tying of feedback blocks (C10)
fn dense_params(l: &crate::network::Layer) -> Vec<f32> {
    let mut out = Vec::new();
    if let crate::network::Layer::Dense(d) = l {
        if let Data::Double(w) = &d.weights.data { for r in w { for v in r { out.push(*v); } } }
        if let Some(b) = &d.bias { if let Data::Single(b) = &b.data { for v in b { out.push(*v); } } }
    }
    out
}
/// a network dense -> feedback(len dense 2->2 layers x loops) -> dense, trained for `epochs`; afterwards every repetition of every block
/// layer must hold the same parameters, and the reported parameter count must count them once
pub fn tied_one(len: usize, loops: usize, bias: bool, acc: usize, adam: bool, epochs: i32, seed: u64) -> Result<(), String> {
    let mut rng = Lcg(seed.wrapping_mul(104729).wrapping_add(5));
    let mut net = crate::network::Network::new(Shape::Single(2));
    let descr: Vec<crate::feedback::Layer> = (0..len).map(|j| crate::feedback::Layer::Dense(2, if j % 2 == 0 { Activation::Tanh } else { Activation::Linear }, bias, None)).collect();
    net.feedback(descr, loops, false, false, acc_of(acc));
    net.dense(1, Activation::Linear, false, None);
    net.set_objective(crate::objective::Objective::MSE, None);
    if adam { net.set_optimizer(crate::optimizer::Adam::create(0.01, 0.9, 0.999, 1e-8, None)); } else { net.set_optimizer(crate::optimizer::SGD::create(0.01, None)); }
    let xs: Vec<Tensor> = (0..3).map(|_| Tensor::single(vec![rng.int(-2, 2) * 0.5, rng.int(-2, 2) * 0.5])).collect();
    let ys: Vec<Tensor> = (0..3).map(|_| Tensor::single(vec![rng.int(-2, 2) * 0.5])).collect();
    let xr: Vec<&Tensor> = xs.iter().collect();
    let yr: Vec<&Tensor> = ys.iter().collect();
    let check = |net: &crate::network::Network, when: &str| -> Result<(), String> {
        if let crate::network::Layer::Feedback(block) = &net.layers[0] {
            if block.layers.len() != len * loops { return Err(format!("{}: the block holds {} layers, expected {}", when, block.layers.len(), len * loops)); }
            for l in 0..len { for r in 1..loops {
                let a = dense_params(&block.layers[l]); let b = dense_params(&block.layers[l + r * len]);
                if a.len() != b.len() || a.iter().zip(b.iter()).any(|(x, y)| x.to_bits() != y.to_bits()) {
                    return Err(format!("{}: repetition {} of block layer {} holds different parameters than repetition 0", when, r, l));
                }
            }}
            let per_layer = 2 * 2 + if bias { 2 } else { 0 };
            if block.parameters() != len * per_layer { return Err(format!("{}: parameters() = {} but the block has {} shared parameters", when, block.parameters(), len * per_layer)); }
            Ok(())
        } else { Err("first layer is not a feedback block".into()) }
    };
    check(&net, "at creation")?;
    let _ = net.learn(&xr, &yr, None, 2, epochs, None);
    check(&net, "after training")
}
pub fn dispatch_tied(cmd: &str, name: &str, arg: &str) -> Option<String> {
    if name != "feedback.tied" { return None; }
    if std::env::var("VERIF_SHOW_PANIC").is_err() { std::panic::set_hook(Box::new(|_| {})); }
    let fmt = |v: [u64; 7]| format!("{{\"layers\":{},\"loops\":{},\"bias\":{},\"accumulation\":{},\"adam\":{},\"epochs\":{},\"seed\":{}}}", v[0], v[1], v[2], v[3], v[4], v[5], v[6]);
    let one = |v: [u64; 7]| -> Result<(), String> {
        match std::panic::catch_unwind(move || tied_one(v[0] as usize, v[1] as usize, v[2] != 0, v[3] as usize, v[4] != 0, v[5] as i32, v[6])) { Ok(r) => r, Err(_) => Err("creating or training the block panicked".into()) }
    };
    if cmd == "run" {
        let v: Vec<u64> = arg.split(|c: char| !c.is_ascii_digit()).filter(|x| !x.is_empty()).filter_map(|x| x.parse().ok()).collect();
        if v.len() != 7 { return None; }
        let a = [v[0], v[1], v[2], v[3], v[4], v[5], v[6]];
        return Some(match one(a) { Ok(()) => format!("{{\"failed\":false,\"input\":{}}}", fmt(a)), Err(e) => format!("{{\"failed\":true,\"input\":{},\"detail\":{:?}}}", fmt(a), e) });
    }
    let mut tried = 0usize;
    for l in 1..=2u64 { for n in 1..=3u64 { for b in 0..=1u64 { for acc in [0u64, 1, 2, 4] { for adam in 0..=1u64 { for e in 1..=2u64 {
        tried += 1;
        let a = [l, n, b, acc, adam, e, tried as u64];
        if let Err(err) = one(a) { return Some(format!("{{\"failed\":true,\"tried\":{},\"input\":{},\"detail\":{:?}}}", tried, fmt(a), err)); }
    }}}}}}
    Some(format!("{{\"failed\":false,\"tried\":{}}}", tried))
}

// ------------------------------------------------------------------------------------------------ objectives: gradient = derivative of the loss (C06)
/// central differences in f64 over the real `loss` (f32): for AE, MSE, binary cross-entropy and KL-divergence the reported gradient must be the
/// derivative of the reported loss (tolerance 2e-2 relative / 2e-3 absolute; points away from kinks and from the domain boundary)
pub fn objective_one(which: usize, triple: bool, n: usize, seed: u64) -> Result<(), String> {
    use crate::objective::Objective::*;
    let mut rng = Lcg(seed.wrapping_mul(7907).wrapping_add(which as u64 * 13 + n as u64));
    let obj = match which { 0 => AE, 1 => MSE, 2 => BinaryCrossEntropy, _ => KLDivergence };
    let f = crate::objective::Function::create(obj, None);
    let unit = which >= 2;
    let mk = |v: &Vec<f32>| if triple { Tensor::triple(vec![vec![v.clone()]]) } else { Tensor::single(v.clone()) };
    let draw = |rng: &mut Lcg| if unit { 0.1 + 0.8 * ((rng.next() % 1000) as f32 / 1000.0) } else { (rng.next() % 4000) as f32 / 1000.0 - 2.0 };
    let p: Vec<f32> = (0..n).map(|_| draw(&mut rng)).collect();
    let t: Vec<f32> = (0..n).map(|_| draw(&mut rng)).collect();
    if which == 0 && p.iter().zip(t.iter()).any(|(a, b)| (a - b).abs() < 0.05) { return Ok(()); }     // AE: stay away from the kink
    let (_, g) = f.loss(&mk(&p), &mk(&t));
    let g = g.get_flat();
    let h = 2e-3f32;   // truncation error h^2/6 f''' and f32 rounding of the loss both stay below the tolerance on the grid
    for i in 0..n {
        let mut a = p.clone(); a[i] += h;
        let mut b = p.clone(); b[i] -= h;
        let d = (f.loss(&mk(&a), &mk(&t)).0 as f64 - f.loss(&mk(&b), &mk(&t)).0 as f64) / (2.0 * h as f64);
        if (d - g[i] as f64).abs() > 2e-3 + 2e-2 * d.abs().max(g[i].abs() as f64) {
            return Err(format!("component {}: gradient {} but the difference quotient of the loss is {:.6} (prediction {:?}, target {:?})", i, g[i], d, p, t));
        }
    }
    Ok(())
}
pub fn dispatch_objective(cmd: &str, name: &str, arg: &str) -> Option<String> {
    if name != "objective.derivative" { return None; }
    if std::env::var("VERIF_SHOW_PANIC").is_err() { std::panic::set_hook(Box::new(|_| {})); }
    let fmt = |v: [u64; 4]| format!("{{\"objective\":{},\"triple\":{},\"components\":{},\"seed\":{}}}", v[0], v[1], v[2], v[3]);
    let one = |v: [u64; 4]| -> Result<(), String> {
        match std::panic::catch_unwind(move || objective_one(v[0] as usize, v[1] != 0, v[2] as usize, v[3])) { Ok(r) => r, Err(_) => Err("loss() panicked on in-domain inputs".into()) }
    };
    if cmd == "run" {
        let v: Vec<u64> = arg.split(|c: char| !c.is_ascii_digit()).filter(|x| !x.is_empty()).filter_map(|x| x.parse().ok()).collect();
        if v.len() != 4 { return None; }
        let a = [v[0], v[1], v[2], v[3]];
        return Some(match one(a) { Ok(()) => format!("{{\"failed\":false,\"input\":{}}}", fmt(a)), Err(e) => format!("{{\"failed\":true,\"input\":{},\"detail\":{:?}}}", fmt(a), e) });
    }
    let mut tried = 0usize;
    for w in 0..4u64 { for tr in 0..=1u64 { for n in 1..=(if big() { 8 } else { 4 }) as u64 { for s in 0..(if big() { 40 } else { 5 }) as u64 {
        tried += 1;
        let a = [w, tr, n, s];
        if let Err(e) = one(a) { return Some(format!("{{\"failed\":true,\"tried\":{},\"input\":{},\"detail\":{:?}}}", tried, fmt(a), e)); }
    }}}}
    Some(format!("{{\"failed\":false,\"tried\":{}}}", tried))
}

// ------------------------------------------------------------------------------------------------ whole-network gradients across layer kinds (C01, C08)
/// all parameters of a network as a flat list of (layer, kind, position) handles; linear activations, no bias on spatial layers
fn net_params(net: &crate::network::Network) -> Vec<(usize, usize, usize)> {
    let mut out = Vec::new();
    for (j, l) in net.layers.iter().enumerate() {
        match l {
            crate::network::Layer::Dense(d) => {
                let n = d.weights.get_flat_any().len();
                for k in 0..n { out.push((j, 0, k)); }
                if let Some(b) = &d.bias { for k in 0..b.get_flat().len() { out.push((j, 1, k)); } }
            }
            crate::network::Layer::Convolution(c) => { let mut k = 0; for f in &c.kernels { for _ in f.get_flat() { out.push((j, 2, k)); k += 1; } } }
            crate::network::Layer::Deconvolution(c) => { let mut k = 0; for f in &c.kernels { for _ in f.get_flat() { out.push((j, 2, k)); k += 1; } } }
            _ => {}
        }
    }
    out
}
impl Tensor {
    /// row-major contents of a 1-D, 2-D or 3-D tensor (test helper)
    fn get_flat_any(&self) -> Vec<f32> {
        match &self.data { Data::Double(d) => d.iter().flat_map(|r| r.iter().cloned()).collect(), _ => self.get_flat() }
    }
    fn set_flat_any(&mut self, k: usize, v: f32) {
        match &mut self.data {
            Data::Single(d) => d[k] = v,
            Data::Double(d) => { let w = d[0].len(); d[k / w][k % w] = v; }
            Data::Triple(d) => { let (h, w) = (d[0].len(), d[0][0].len()); d[k / (h * w)][(k / w) % h][k % w] = v; }
            _ => panic!("unsupported rank"),
        }
    }
}
fn param_get(net: &crate::network::Network, h: (usize, usize, usize)) -> f32 {
    match &net.layers[h.0] {
        crate::network::Layer::Dense(d) => if h.1 == 0 { d.weights.get_flat_any()[h.2] } else { d.bias.as_ref().unwrap().get_flat()[h.2] },
        crate::network::Layer::Convolution(c) => { let per = c.kernels[0].get_flat().len(); c.kernels[h.2 / per].get_flat()[h.2 % per] }
        crate::network::Layer::Deconvolution(c) => { let per = c.kernels[0].get_flat().len(); c.kernels[h.2 / per].get_flat()[h.2 % per] }
        _ => 0.0,
    }
}
fn param_set(net: &mut crate::network::Network, h: (usize, usize, usize), v: f32) {
    match &mut net.layers[h.0] {
        crate::network::Layer::Dense(d) => if h.1 == 0 { d.weights.set_flat_any(h.2, v) } else { d.bias.as_mut().unwrap().set_flat_any(h.2, v) },
        crate::network::Layer::Convolution(c) => { let per = c.kernels[0].get_flat().len(); c.kernels[h.2 / per].set_flat_any(h.2 % per, v) }
        crate::network::Layer::Deconvolution(c) => { let per = c.kernels[0].get_flat().len(); c.kernels[h.2 / per].set_flat_any(h.2 % per, v) }
        _ => {}
    }
}
/// architectures mixing layer kinds and flat <-> spatial transitions; L = sum of the outputs, integer weights and inputs, linear activations:
/// every parameter occurs once, so the step-1 difference quotient is exact
fn build_arch(arch: usize) -> (crate::network::Network, Tensor) {
    use crate::network::Network;
    match arch {
        0 => { let mut n = Network::new(Shape::Triple(1, 3, 3)); n.convolution(2, (2, 2), (1, 1), (0, 0), (1, 1), Activation::Linear, None); n.dense(2, Activation::Linear, true, None); (n, Tensor::triple(vec![vec![vec![0.0; 3]; 3]])) }
        1 => { let mut n = Network::new(Shape::Single(4)); n.dense(4, Activation::Linear, false, None); n.convolution(1, (2, 2), (1, 1), (1, 1), (1, 1), Activation::Linear, None); n.dense(1, Activation::Linear, false, None); (n, Tensor::single(vec![0.0; 4])) }
        2 => { let mut n = Network::new(Shape::Triple(1, 2, 2)); n.deconvolution(1, (2, 2), (2, 2), (0, 0), Activation::Linear, None); n.convolution(2, (3, 2), (1, 2), (0, 1), (1, 1), Activation::Linear, None); n.dense(2, Activation::Linear, true, None); (n, Tensor::triple(vec![vec![vec![0.0; 2]; 2]])) }
        3 => { let mut n = Network::new(Shape::Triple(2, 2, 3)); n.convolution(1, (1, 2), (1, 1), (0, 0), (1, 1), Activation::Linear, None); n.deconvolution(2, (2, 1), (1, 2), (0, 0), Activation::Linear, None); n.dense(3, Activation::Linear, false, None); (n, Tensor::triple(vec![vec![vec![0.0; 3]; 2]; 2])) }
        _ => { let mut n = Network::new(Shape::Single(9)); n.dense(9, Activation::Linear, true, None); n.deconvolution(1, (2, 2), (1, 1), (1, 1), Activation::Linear, None); n.dense(2, Activation::Linear, false, None); (n, Tensor::single(vec![0.0; 9])) }
    }
}
pub fn netgrad_one(arch: usize, seed: u64) -> Result<(), String> {
    let mut rng = Lcg(seed.wrapping_mul(15485863).wrapping_add(arch as u64));
    let (mut net, mut x) = build_arch(arch);
    let handles = net_params(&net);
    for h in &handles { param_set(&mut net, *h, rng.int(-2, 2)); }
    let nx = x.get_flat().len();
    for k in 0..nx { x.set_flat_any(k, rng.int(-2, 2)); }
    let value = |net: &crate::network::Network| -> f32 { net.predict(&x).get_flat().iter().sum() };
    let (pre, act, maxp, fbs) = net.forward(&x);
    let nout = act.last().unwrap().get_flat().len();
    let (wg, bg) = net.backward(Tensor::single(vec![1.0; nout]), &pre, &act, &maxp, fbs);
    let nl = net.layers.len();
    let y0 = value(&net);
    for h in &handles {
        let old = param_get(&net, *h);
        param_set(&mut net, *h, old + 1.0);
        let fd = value(&net) - y0;
        param_set(&mut net, *h, old);
        let got = if h.1 == 1 { bg[nl - 1 - h.0].as_ref().map(|b| b.get_flat()[h.2]).unwrap_or(f32::NAN) } else {
            let g = &wg[nl - 1 - h.0];
            match &g.data {
                Data::Quadruple(q) => { let flat: Vec<f32> = q.iter().flat_map(|a| a.iter().flat_map(|b| b.iter().flat_map(|c| c.iter().cloned()))).collect(); flat[h.2] }
                _ => g.get_flat_any()[h.2],
            }
        };
        if got != fd { return Err(format!("layer {} parameter kind {} position {}: backward gives {} but the exact difference quotient is {}", h.0, h.1, h.2, got, fd)); }
    }
    Ok(())
}
pub fn dispatch_netgrad(cmd: &str, name: &str, arg: &str) -> Option<String> {
    if name != "network.gradient" { return None; }
    if std::env::var("VERIF_SHOW_PANIC").is_err() { std::panic::set_hook(Box::new(|_| {})); }
    let one = |a: usize, s: u64| -> Result<(), String> {
        match std::panic::catch_unwind(move || netgrad_one(a, s)) { Ok(r) => r, Err(_) => Err("building / running the network panicked".into()) }
    };
    if cmd == "run" {
        let v: Vec<u64> = arg.split(|c: char| !c.is_ascii_digit()).filter(|x| !x.is_empty()).filter_map(|x| x.parse().ok()).collect();
        if v.len() != 2 { return None; }
        return Some(match one(v[0] as usize, v[1]) { Ok(()) => format!("{{\"failed\":false,\"input\":{{\"architecture\":{},\"seed\":{}}}}}", v[0], v[1]),
            Err(e) => format!("{{\"failed\":true,\"input\":{{\"architecture\":{},\"seed\":{}}},\"detail\":{:?}}}", v[0], v[1], e) });
    }
    let mut tried = 0usize;
    for a in 0..5usize { for s in 0..(if big() { 40 } else { 4 }) as u64 {
        tried += 1;
        if let Err(e) = one(a, s) { return Some(format!("{{\"failed\":true,\"tried\":{},\"input\":{{\"architecture\":{},\"seed\":{}}},\"detail\":{:?}}}", tried, a, s, e)); }
    }}
    Some(format!("{{\"failed\":false,\"tried\":{}}}", tried))
}

// ------------------------------------------------------------------------------------------------ dropout never leaks (C09)
fn drop_arch(arch: usize, dropout: Option<f32>) -> crate::network::Network {
    use crate::network::Network;
    match arch {
        0 => { let mut n = Network::new(Shape::Single(3)); n.dense(4, Activation::Tanh, true, dropout); n.dense(2, Activation::Linear, true, dropout); n }
        1 => { let mut n = Network::new(Shape::Triple(1, 3, 3)); n.convolution(2, (2, 2), (1, 1), (0, 0), (1, 1), Activation::Tanh, dropout); n.dense(2, Activation::Linear, true, dropout); n }
        2 => { let mut n = Network::new(Shape::Triple(1, 2, 2)); n.deconvolution(1, (2, 2), (1, 1), (0, 0), Activation::Tanh, dropout); n.maxpool((2, 2), (1, 1)); n.dense(2, Activation::Linear, false, dropout); n }
        _ => { let mut n = Network::new(Shape::Single(2));
               n.feedback(vec![crate::feedback::Layer::Dense(2, Activation::Tanh, true, dropout)], 2, false, false, crate::feedback::Accumulation::Mean);
               n.dense(2, Activation::Linear, true, dropout); n }
    }
}
fn copy_params(from: &crate::network::Network, to: &mut crate::network::Network) {
    use crate::network::Layer::*;
    for (a, b) in from.layers.iter().zip(to.layers.iter_mut()) {
        match (a, b) {
            (Dense(x), Dense(y)) => { y.weights = x.weights.clone(); y.bias = x.bias.clone(); }
            (Convolution(x), Convolution(y)) => { y.kernels = x.kernels.clone(); }
            (Deconvolution(x), Deconvolution(y)) => { y.kernels = x.kernels.clone(); }
            (Feedback(x), Feedback(y)) => { for (p, q) in x.layers.iter().zip(y.layers.iter_mut()) { if let (Dense(u), Dense(v)) = (p, q) { v.weights = u.weights.clone(); v.bias = u.bias.clone(); } } }
            _ => {}
        }
    }
}
/// a network with dropout on every layer that has one, trained with validation data; afterwards (i) the validation metrics reported by learn() for
/// the last epoch are those of validate() on the trained network, (ii) predictions equal those of the same weights in a network configured
/// without dropout, (iii) a second validate() gives the same numbers (no randomness left)
pub fn dropout_one(arch: usize, seed: u64) -> Result<(), String> {
    let mut rng = Lcg(seed.wrapping_mul(6151).wrapping_add(arch as u64));
    let mut net = drop_arch(arch, Some(0.5));
    net.set_objective(crate::objective::Objective::MSE, None);
    net.set_optimizer(crate::optimizer::SGD::create(0.01, None));
    let mk = |rng: &mut Lcg| -> Tensor { match arch { 0 => Tensor::single(vec![rng.int(-2, 2), rng.int(-2, 2), rng.int(-2, 2)]),
        1 => Tensor::triple(vec![(0..3).map(|_| (0..3).map(|_| rng.int(-2, 2)).collect()).collect()]),
        2 => Tensor::triple(vec![(0..2).map(|_| (0..2).map(|_| rng.int(-2, 2)).collect()).collect()]),
        _ => Tensor::single(vec![rng.int(-2, 2), rng.int(-2, 2)]) } };
    let xs: Vec<Tensor> = (0..4).map(|_| mk(&mut rng)).collect();
    let ys: Vec<Tensor> = (0..4).map(|_| Tensor::single(vec![rng.int(-1, 1), rng.int(-1, 1)])).collect();
    let xr: Vec<&Tensor> = xs.iter().collect();
    let yr: Vec<&Tensor> = ys.iter().collect();
    let (_, val_loss, val_acc) = net.learn(&xr, &yr, Some((&xr, &yr, 5)), 2, 2, None);
    let (l1, a1) = net.validate(&xr, &yr, 1e-6);
    let (l2, a2) = net.validate(&xr, &yr, 1e-6);
    if l1.to_bits() != l2.to_bits() || a1.to_bits() != a2.to_bits() { return Err("two validate() calls on the trained network disagree: dropout is still active".into()); }
    if !close(*val_loss.last().unwrap(), l1) || !close(*val_acc.last().unwrap(), a1) {
        return Err(format!("learn() reported validation loss {} / accuracy {} for the last epoch, the dropout-free network gives {} / {}", val_loss.last().unwrap(), val_acc.last().unwrap(), l1, a1));
    }
    let mut plain = drop_arch(arch, None);
    copy_params(&net, &mut plain);
    for x in &xs {
        if bits(&net.predict(x)) != bits(&plain.predict(x)) { return Err("after learn() the network does not predict like the same weights without dropout".into()); }
    }
    Ok(())
}
pub fn dispatch_dropout(cmd: &str, name: &str, arg: &str) -> Option<String> {
    if name != "dropout.leak" { return None; }
    if std::env::var("VERIF_SHOW_PANIC").is_err() { std::panic::set_hook(Box::new(|_| {})); }
    let one = |a: usize, s: u64| -> Result<(), String> {
        match std::panic::catch_unwind(move || dropout_one(a, s)) { Ok(r) => r, Err(_) => Err("building / training the network panicked".into()) }
    };
    if cmd == "run" {
        let v: Vec<u64> = arg.split(|c: char| !c.is_ascii_digit()).filter(|x| !x.is_empty()).filter_map(|x| x.parse().ok()).collect();
        if v.len() != 2 { return None; }
        return Some(match one(v[0] as usize, v[1]) { Ok(()) => format!("{{\"failed\":false,\"input\":{{\"architecture\":{},\"seed\":{}}}}}", v[0], v[1]),
            Err(e) => format!("{{\"failed\":true,\"input\":{{\"architecture\":{},\"seed\":{}}},\"detail\":{:?}}}", v[0], v[1], e) });
    }
    let mut tried = 0usize;
    for a in 0..4usize { for s in 0..(if big() { 40 } else { 6 }) as u64 {
        tried += 1;
        if let Err(e) = one(a, s) { return Some(format!("{{\"failed\":true,\"tried\":{},\"input\":{{\"architecture\":{},\"seed\":{}}},\"detail\":{:?}}}", tried, a, s, e)); }
    }}
    Some(format!("{{\"failed\":false,\"tried\":{}}}", tried))
}

// ------------------------------------------------------------------------------------------------ announced = produced shapes along layer chains (C08)
fn shape_of(t: &Tensor) -> Vec<usize> {
    match &t.data { Data::Single(v) => vec![v.len()], Data::Triple(d) => vec![d.len(), d[0].len(), d[0][0].len()], _ => vec![] }
}
fn shape_vec(s: &Shape) -> Vec<usize> { match s { Shape::Single(n) => vec![*n], Shape::Triple(a, b, c) => vec![*a, *b, *c], _ => vec![] } }
/// random layer chains (depth <= 4) with random small valid configurations: whenever the builder accepts the chain, the forward pass must run, every
/// layer must produce exactly the shape it announced (a spatial layer followed by a dense layer produces the flattened count), and every weight
/// gradient must have the shape of its parameter
pub fn chain_one(seed: u64) -> Result<Option<String>, String> {
    let mut rng = Lcg(seed.wrapping_mul(2147483629).wrapping_add(17));
    let pick = |rng: &mut Lcg, lo: usize, hi: usize| lo + (rng.next() as usize) % (hi - lo + 1);
    let spatial_in = rng.next() % 2 == 0;
    let input = if spatial_in { Shape::Triple(pick(&mut rng, 1, 2), pick(&mut rng, 3, 5), pick(&mut rng, 3, 5)) } else { Shape::Single([4usize, 9, 16][pick(&mut rng, 0, 2)]) };
    let depth = pick(&mut rng, 1, 4);
    let mut descr: Vec<(usize, [usize; 8])> = Vec::new();
    for _ in 0..depth {
        let kind = pick(&mut rng, 0, 3);
        descr.push((kind, [pick(&mut rng, 1, 2), pick(&mut rng, 1, 3), pick(&mut rng, 1, 3), pick(&mut rng, 1, 2), pick(&mut rng, 1, 2), pick(&mut rng, 0, 1), pick(&mut rng, 0, 1), pick(&mut rng, 1, 2)]));
    }
    let d2 = descr.clone();
    let inp = input.clone();
    let built = std::panic::catch_unwind(move || {
        let mut net = crate::network::Network::new(inp);
        for (kind, p) in &d2 {
            match kind {
                0 => net.dense(p[0] * p[1], Activation::Linear, p[5] == 1, None),
                1 => net.convolution(p[0], (p[1], p[2]), (p[3], p[4]), (p[5], p[6]), (p[7], 1), Activation::Linear, None),
                2 => net.deconvolution(p[0], (p[1], p[2]), (p[3], p[4]), (p[5], p[6]), Activation::Linear, None),
                _ => net.maxpool((p[1].min(2), p[2].min(2)), (p[3], p[4])),
            }
        }
        net
    });
    let net = match built { Ok(n) => n, Err(_) => return Ok(None) };        // configuration rejected by the builder: nothing to check
    // a layer that announces an empty output is a degenerate configuration (no valid kernel placement): not in the property's class
    for l in net.layers.iter() {
        let a = match l { crate::network::Layer::Dense(d) => shape_vec(&d.outputs), crate::network::Layer::Convolution(d) => shape_vec(&d.outputs),
            crate::network::Layer::Deconvolution(d) => shape_vec(&d.outputs), crate::network::Layer::Maxpool(d) => shape_vec(&d.outputs), _ => vec![1] };
        if a.iter().any(|e| *e == 0) { return Ok(None); }
    }
    let what = format!("input {:?}, layers {:?}", shape_vec(&input), descr);
    let x = match &input { Shape::Single(n) => Tensor::single(vec![1.0; *n]), Shape::Triple(c, h, w) => Tensor::triple(vec![vec![vec![1.0; *w]; *h]; *c]), _ => unreachable!() };
    let run = std::panic::catch_unwind(std::panic::AssertUnwindSafe(|| net.forward(&x)));
    let (pre, act, maxp, fbs) = match run { Ok(r) => r, Err(_) => return Err(format!("the builder accepted the chain but the forward pass panicked: {}", what)) };
    for (j, l) in net.layers.iter().enumerate() {
        let announced = match l { crate::network::Layer::Dense(d) => shape_vec(&d.outputs), crate::network::Layer::Convolution(d) => shape_vec(&d.outputs),
            crate::network::Layer::Deconvolution(d) => shape_vec(&d.outputs), crate::network::Layer::Maxpool(d) => shape_vec(&d.outputs), _ => vec![] };
        let produced = shape_of(&act[j + 1]);
        let next_dense = j + 1 < net.layers.len() && matches!(net.layers[j + 1], crate::network::Layer::Dense(_));
        let expect: Vec<usize> = if announced.len() == 3 && next_dense { vec![announced.iter().product()] } else { announced.clone() };
        if produced != expect { return Err(format!("layer {} announced {:?} (so {:?} is expected here) but produced {:?}: {}", j, announced, expect, produced, what)); }
    }
    let nout = act.last().unwrap().get_flat().len();
    let g = match act.last().unwrap().data { Data::Single(_) => Tensor::single(vec![1.0; nout]), _ => { let s = shape_of(act.last().unwrap()); Tensor::triple(vec![vec![vec![1.0; s[2]]; s[1]]; s[0]]) } };
    let back = std::panic::catch_unwind(std::panic::AssertUnwindSafe(|| net.backward(g, &pre, &act, &maxp, fbs)));
    let (wg, _) = match back { Ok(r) => r, Err(_) => return Err(format!("the backward pass panicked on an accepted chain: {}", what)) };
    let nl = net.layers.len();
    for (j, l) in net.layers.iter().enumerate() {
        let g = &wg[nl - 1 - j];
        match l {
            crate::network::Layer::Dense(d) => { if let (Data::Double(a), Data::Double(b)) = (&g.data, &d.weights.data) { if a.len() != b.len() || a[0].len() != b[0].len() { return Err(format!("dense weight gradient shape differs from the weights: {}", what)); } } else { return Err(format!("dense weight gradient is not a matrix: {}", what)); } }
            crate::network::Layer::Convolution(c) => { if let Data::Quadruple(q) = &g.data { let k = shape_of(&c.kernels[0]); if q.len() != c.kernels.len() || q[0].len() != k[0] || q[0][0].len() != k[1] || q[0][0][0].len() != k[2] { return Err(format!("convolution kernel gradient shape differs from the kernels: {}", what)); } } }
            crate::network::Layer::Deconvolution(c) => { if let Data::Quadruple(q) = &g.data { let k = shape_of(&c.kernels[0]); if q.len() != c.kernels.len() || q[0].len() != k[0] || q[0][0].len() != k[1] || q[0][0][0].len() != k[2] { return Err(format!("deconvolution kernel gradient shape differs from the kernels: {}", what)); } } }
            _ => {}
        }
    }
    Ok(Some(what))
}
pub fn dispatch_chain(cmd: &str, name: &str, arg: &str) -> Option<String> {
    if name != "shapes.chain" { return None; }
    if std::env::var("VERIF_SHOW_PANIC").is_err() { std::panic::set_hook(Box::new(|_| {})); }
    if cmd == "run" {
        let v: Vec<u64> = arg.split(|c: char| !c.is_ascii_digit()).filter(|x| !x.is_empty()).filter_map(|x| x.parse().ok()).collect();
        if v.len() != 1 { return None; }
        return Some(match chain_one(v[0]) { Ok(_) => format!("{{\"failed\":false,\"input\":{{\"seed\":{}}}}}", v[0]), Err(e) => format!("{{\"failed\":true,\"input\":{{\"seed\":{}}},\"detail\":{:?}}}", v[0], e) });
    }
    let (mut tried, mut accepted) = (0usize, 0usize);
    for s in 0..(if big() { 40000 } else { 4000 }) as u64 {
        tried += 1;
        match chain_one(s) { Ok(Some(_)) => accepted += 1, Ok(None) => {}, Err(e) => return Some(format!("{{\"failed\":true,\"tried\":{},\"input\":{{\"seed\":{}}},\"detail\":{:?}}}", tried, s, e)) }
    }
    Some(format!("{{\"failed\":false,\"tried\":{},\"accepted_by_the_builder\":{}}}", tried, accepted))
}

// ------------------------------------------------------------------------------------------------ early stopping and histories (C13)
pub fn stopping_one(tol: i32, epochs: i32, lr_k: u64, seed: u64) -> Result<(), String> {
    let mut rng = Lcg(seed.wrapping_mul(48271).wrapping_add(lr_k));
    let mut net = crate::network::Network::new(Shape::Single(2));
    net.dense(3, Activation::Tanh, true, None);
    net.dense(1, Activation::Linear, true, None);
    net.set_objective(crate::objective::Objective::MSE, None);
    // from tiny to divergent step sizes: falling, oscillating and rising validation losses all occur
    net.set_optimizer(crate::optimizer::SGD::create([0.001f32, 0.05, 0.4, 1.5][lr_k as usize % 4], None));
    let xs: Vec<Tensor> = (0..4).map(|_| Tensor::single(vec![rng.int(-2, 2), rng.int(-2, 2)])).collect();
    let ys: Vec<Tensor> = (0..4).map(|_| Tensor::single(vec![rng.int(-2, 2)])).collect();
    let xr: Vec<&Tensor> = xs.iter().collect();
    let yr: Vec<&Tensor> = ys.iter().collect();
    let with_val = seed % 3 != 0;
    let run = std::panic::catch_unwind(std::panic::AssertUnwindSafe(|| net.learn(&xr, &yr, if with_val { Some((&xr, &yr, tol)) } else { None }, 2, epochs, None)));
    let (tl, vl, va) = match run { Ok(r) => r, Err(_) => return Ok(()) };            // a NaN training loss aborts: permitted
    let n = tl.len();
    if n < 1 || n > epochs as usize { return Err(format!("{} training-loss entries for a budget of {} epochs", n, epochs)); }
    if !with_val { return if vl.is_empty() && va.is_empty() && n == epochs as usize { Ok(()) } else { Err(format!("without validation data: {} epochs of {} run, {} / {} validation entries", n, epochs, vl.len(), va.len())) }; }
    if vl.len() != n || va.len() != n { return Err(format!("{} epochs run but {} validation-loss and {} accuracy entries", n, vl.len(), va.len())); }
    if vl.iter().any(|v| v.is_nan()) { return Ok(()); }                               // NaN trajectories are outside the property's quantifier
    let stop = |e: usize| -> bool { let t = tol as usize; e > t && (e - t..e - 1).all(|k| vl[k + 1] > vl[k]) };
    for e in 1..n { if stop(e) { return Err(format!("training continued past epoch {} although the validation loss had strictly increased for {} epochs: {:?}", e, tol, vl)); } }
    if n < epochs as usize && !stop(n) { return Err(format!("training stopped after epoch {} of {} although the stopping condition does not hold: {:?}", n, epochs, vl)); }
    Ok(())
}
pub fn dispatch_stopping(cmd: &str, name: &str, arg: &str) -> Option<String> {
    if name != "learn.stopping" { return None; }
    if std::env::var("VERIF_SHOW_PANIC").is_err() { std::panic::set_hook(Box::new(|_| {})); }
    let fmt = |v: [u64; 4]| format!("{{\"tolerance\":{},\"epochs\":{},\"step_size_class\":{},\"seed\":{}}}", v[0], v[1], v[2], v[3]);
    if cmd == "run" {
        let v: Vec<u64> = arg.split(|c: char| !c.is_ascii_digit()).filter(|x| !x.is_empty()).filter_map(|x| x.parse().ok()).collect();
        if v.len() != 4 { return None; }
        let a = [v[0], v[1], v[2], v[3]];
        return Some(match stopping_one(a[0] as i32, a[1] as i32, a[2], a[3]) { Ok(()) => format!("{{\"failed\":false,\"input\":{}}}", fmt(a)), Err(e) => format!("{{\"failed\":true,\"input\":{},\"detail\":{:?}}}", fmt(a), e) });
    }
    let mut tried = 0usize;
    for tol in 1..=(if big() { 5 } else { 3 }) as u64 { for ep in [1u64, 2, 5, 9, 14] { for k in 0..4u64 { for s in 0..(if big() { 30 } else { 6 }) as u64 {
        tried += 1;
        let a = [tol, ep, k, s];
        if let Err(e) = stopping_one(tol as i32, ep as i32, k, s) { return Some(format!("{{\"failed\":true,\"tried\":{},\"input\":{},\"detail\":{:?}}}", tried, fmt(a), e)); }
    }}}}
    Some(format!("{{\"failed\":false,\"tried\":{}}}", tried))
}

// ------------------------------------------------------------------------------------------------ element-wise operations on non-square operands (C15, C07)
// The executable statement of "element-wise, every rank, shape unchanged": build an operand of the given rank and extents (all extents may differ), apply the
// real operation, and compare every cell - addressed by its nested index - with the scalar operation applied to the cells at that index (same f32 operator,
// so equality is exact), the nesting lengths with the extents, and the shape field with the input's.
fn nest(dims: &[usize], f: &dyn Fn(usize) -> f32) -> Tensor {
    let mut i = 0usize;
    let mut next = || { let v = f(i); i += 1; v };
    match dims.len() {
        1 => Tensor::single((0..dims[0]).map(|_| next()).collect()),
        2 => Tensor::double((0..dims[0]).map(|_| (0..dims[1]).map(|_| next()).collect()).collect()),
        3 => Tensor::triple((0..dims[0]).map(|_| (0..dims[1]).map(|_| (0..dims[2]).map(|_| next()).collect()).collect()).collect()),
        _ => Tensor::quadruple((0..dims[0]).map(|_| (0..dims[1]).map(|_| (0..dims[2]).map(|_| (0..dims[3]).map(|_| next()).collect()).collect()).collect()).collect()),
    }
}
/// row-major cells if the nesting lengths are exactly `dims`, else None
fn cells(t: &Tensor, dims: &[usize]) -> Option<Vec<f32>> {
    let mut out = Vec::new();
    match (&t.data, dims.len()) {
        (Data::Single(a), 1) => { if a.len() != dims[0] { return None; } out.extend(a.iter().cloned()); }
        (Data::Double(a), 2) => { if a.len() != dims[0] { return None; } for r in a { if r.len() != dims[1] { return None; } out.extend(r.iter().cloned()); } }
        (Data::Triple(a), 3) => { if a.len() != dims[0] { return None; } for m in a { if m.len() != dims[1] { return None; } for r in m { if r.len() != dims[2] { return None; } out.extend(r.iter().cloned()); } } }
        (Data::Quadruple(a), 4) => { if a.len() != dims[0] { return None; } for c in a { if c.len() != dims[1] { return None; } for m in c { if m.len() != dims[2] { return None; } for r in m { if r.len() != dims[3] { return None; } out.extend(r.iter().cloned()); } } } }
        _ => return None,
    }
    Some(out)
}
fn same_bits(a: &[f32], b: &[f32]) -> bool { a.len() == b.len() && a.iter().zip(b.iter()).all(|(x, y)| x.to_bits() == y.to_bits() || (x.is_nan() && y.is_nan())) }
fn va(i: usize) -> f32 { ((i * 7 + 3) % 11) as f32 * 0.25 - 1.25 }
fn vb(i: usize) -> f32 { ((i * 5 + 1) % 13) as f32 * 0.5 - 2.75 }
fn vc(i: usize) -> f32 { ((i * 3 + 2) % 7) as f32 * 0.125 + 0.5 }
pub fn tensor_elementwise_one(dims: &[usize]) -> Result<(), String> {
    let n: usize = dims.iter().product();
    let a: Vec<f32> = (0..n).map(va).collect();
    let b: Vec<f32> = (0..n).map(vb).collect();
    let c: Vec<f32> = (0..n).map(vc).collect();
    let check = |what: &str, got: &Tensor, want: Vec<f32>| -> Result<(), String> {
        if got.shape != nest(dims, &va).shape { return Err(format!("{}: the shape field changed", what)); }
        match cells(got, dims) {
            None => Err(format!("{}: the nesting lengths changed", what)),
            Some(g) => if same_bits(&g, &want) { Ok(()) } else {
                let k = (0..n).find(|&k| g[k].to_bits() != want[k].to_bits()).unwrap_or(0);
                Err(format!("{}: cell {} (row-major) is {} but the operator on the operand cells gives {}", what, k, g[k], want[k])) },
        }
    };
    let mut t = nest(dims, &va); t.add_inplace(&nest(dims, &vb)); check("add_inplace", &t, (0..n).map(|k| a[k] + b[k]).collect())?;
    let mut t = nest(dims, &va); t.sub_inplace(&nest(dims, &vb)); check("sub_inplace", &t, (0..n).map(|k| a[k] - b[k]).collect())?;
    let mut t = nest(dims, &va); t.mul_inplace(&nest(dims, &vb)); check("mul_inplace", &t, (0..n).map(|k| a[k] * b[k]).collect())?;
    let mut t = nest(dims, &va); t.hadamard(&nest(dims, &vb), 0.75); check("hadamard", &t, (0..n).map(|k| a[k] * b[k] * 0.75).collect())?;
    let mut t = nest(dims, &va); t.div_scalar_inplace(3.0); check("div_scalar_inplace", &t, (0..n).map(|k| a[k] / 3.0).collect())?;
    let t = nest(dims, &va).clamp(-0.5, 0.75); check("clamp", &t, (0..n).map(|k| a[k].clamp(-0.5, 0.75)).collect())?;
    let mut t = nest(dims, &va); let (o1, o2) = (nest(dims, &vb), nest(dims, &vc)); t.mean_inplace(&vec![&o1, &o2]);
    // (the mean's summation order is not fixed by the property: compared up to rounding)
    { let want: Vec<f32> = (0..n).map(|k| (a[k] + (b[k] + c[k])) / 3.0).collect();
      if t.shape != nest(dims, &va).shape { return Err("mean_inplace: the shape field changed".into()); }
      match cells(&t, dims) { None => return Err("mean_inplace: the nesting lengths changed".into()),
          Some(g) => if !close_all(&g, &want) { let k = (0..n).find(|&k| !close(g[k], want[k])).unwrap_or(0);
              return Err(format!("mean_inplace: cell {} (row-major) is {} but the mean of the operand cells is {}", k, g[k], want[k])); } } }
    // operands whose shapes differ are refused
    let mut other = dims.to_vec(); let last = other.len() - 1; other[last] += 1;
    for op in 0..4 {
        let d2 = other.clone(); let d1 = dims.to_vec();
        let refused = std::panic::catch_unwind(move || { let mut t = nest(&d1, &va); let o = nest(&d2, &vb);
            match op { 0 => t.add_inplace(&o), 1 => t.sub_inplace(&o), 2 => t.mul_inplace(&o), _ => t.hadamard(&o, 1.0) } }).is_err();
        if !refused { return Err(format!("operation {} accepted operands of different shapes", ["add_inplace", "sub_inplace", "mul_inplace", "hadamard"][op])); }
    }
    Ok(())
}
pub fn activation_elementwise_one(dims: &[usize]) -> Result<(), String> {
    use crate::activation::Function;
    let n: usize = dims.iter().product();
    let x: Vec<f32> = (0..n).map(|i| va(i) * 2.0).collect();
    let input = nest(dims, &|i| va(i) * 2.0);
    let alpha = 0.01f32;
    let acts: Vec<(&str, Activation, Box<dyn Fn(f32) -> f32>, Box<dyn Fn(f32) -> f32>)> = vec![
        ("ReLU", Activation::ReLU, Box::new(|v: f32| v.max(0.0)), Box::new(|v: f32| if v > 0.0 { 1.0 } else { 0.0 })),
        ("LeakyReLU", Activation::LeakyReLU, Box::new(move |v: f32| if v > 0.0 { v } else { alpha * v }), Box::new(move |v: f32| if v > 0.0 { 1.0 } else { alpha })),
        ("Sigmoid", Activation::Sigmoid, Box::new(|v: f32| 1.0 / (1.0 + f32::exp(-v))), Box::new(|v: f32| { let y = 1.0 / (1.0 + f32::exp(-v)); y * (1.0 - y) })),
        ("Tanh", Activation::Tanh, Box::new(|v: f32| v.tanh()), Box::new(|v: f32| 1.0 / v.cosh().powi(2))),
        ("Linear", Activation::Linear, Box::new(|v: f32| v), Box::new(|_v: f32| 1.0)),
    ];
    for (name, kind, f, df) in acts.iter() {
        let fun = Function::create(kind);
        for (dir, got, want) in [("forward", fun.forward(&input), x.iter().map(|v| f(*v)).collect::<Vec<f32>>()), ("backward", fun.backward(&input), x.iter().map(|v| df(*v)).collect::<Vec<f32>>())] {
            if got.shape != input.shape { return Err(format!("{}::{}: the output shape differs from the input shape", name, dir)); }
            match cells(&got, dims) {
                None => return Err(format!("{}::{}: the nesting lengths of the output differ from the input's", name, dir)),
                // exact for the piecewise-linear activations; up to rounding for the transcendental ones (an algebraically equal formula may round differently)
                Some(g) => if !(if *name == "Sigmoid" || *name == "Tanh" { close_all(&g, &want) } else { same_bits(&g, &want) }) {
                    let k = (0..n).find(|&k| !close(g[k], want[k])).or_else(|| (0..n).find(|&k| g[k].to_bits() != want[k].to_bits())).unwrap_or(0);
                    return Err(format!("{}::{}: cell {} (row-major) is {} for input {}, the definition gives {}", name, dir, k, g[k], x[k], want[k])); },
            }
        }
    }
    Ok(())
}
pub fn dispatch_elementwise(cmd: &str, name: &str, arg: &str) -> Option<String> {
    if std::env::var("VERIF_SHOW_PANIC").is_err() { std::panic::set_hook(Box::new(|_| {})); }
    let act = name == "activation.elementwise";
    let fmt = |d: &[usize]| format!("{{\"extents\":{:?}}}", d);
    let one = move |d: Vec<usize>| -> Result<(), String> {
        match std::panic::catch_unwind(move || if act { activation_elementwise_one(&d) } else { tensor_elementwise_one(&d) }) { Ok(r) => r, Err(_) => Err("the operation panicked on a well-formed operand".into()) }
    };
    if cmd == "run" {
        let v: Vec<usize> = arg.split(|c: char| !c.is_ascii_digit()).filter(|x| !x.is_empty()).filter_map(|x| x.parse().ok()).collect();
        if v.is_empty() || v.len() > 4 { return None; }
        return Some(match one(v.clone()) { Ok(()) => format!("{{\"failed\":false,\"input\":{}}}", fmt(&v)), Err(e) => format!("{{\"failed\":true,\"input\":{},\"detail\":{:?}}}", fmt(&v), e) });
    }
    let m = if big() { 4usize } else { 3usize };
    let mut grid: Vec<Vec<usize>> = Vec::new();
    for a in 1..=5usize { grid.push(vec![a]); }
    if !act { for a in 1..=m { for b in 1..=m { grid.push(vec![a, b]); } } }
    for a in 1..=m { for b in 1..=m { for c in 1..=m { grid.push(vec![a, b, c]); } } }
    if !act { for a in 1..=m.min(3) { for b in 1..=m.min(3) { for c in 1..=m.min(3) { for d in 1..=m.min(3) { grid.push(vec![a, b, c, d]); } } } } }
    let mut tried = 0usize;
    for d in grid {
        tried += 1;
        if let Err(e) = one(d.clone()) { return Some(format!("{{\"failed\":true,\"tried\":{},\"input\":{},\"detail\":{:?}}}", tried, fmt(&d), e)); }
    }
    Some(format!("{{\"failed\":false,\"tried\":{}}}", tried))
}

// ------------------------------------------------------------------------------------------------ objectives on non-square operands (C06)
// The documented formulas evaluated cell by cell (nested index) and aggregated in index order; tolerance instead of bit equality, because the formulas are written
// independently of the code's operator order.
pub fn objective_cells_one(which: usize, dims: &[usize], clamp: bool) -> Result<(), String> {
    use crate::objective::Objective::*;
    let (name, obj) = match which { 0 => ("AE", AE), 1 => ("MAE", MAE), 2 => ("MSE", MSE), 3 => ("RMSE", RMSE), 4 => ("CrossEntropy", CrossEntropy), 5 => ("BinaryCrossEntropy", BinaryCrossEntropy), _ => ("KLDivergence", KLDivergence) };
    let unit = which >= 4;
    let n: usize = dims.iter().product();
    let pv = move |i: usize| if unit { 0.05 + 0.9 * (((i * 7 + 3) % 11) as f32 / 11.0) } else { va(i) };
    let tv = move |i: usize| if unit { if i % 4 == 0 { 0.0 } else if i % 4 == 1 { 1.0 } else { 0.1 + 0.8 * (((i * 5 + 1) % 13) as f32 / 13.0) } } else if i % 5 == 0 { va(i) } else { vb(i) };
    let (lo, hi) = (-0.3f32, 0.4f32);
    let f = crate::objective::Function::create(obj, if clamp { Some((lo, hi)) } else { None });
    let (pt, tt) = (nest(dims, &pv), nest(dims, &tv));
    let (loss, grad) = f.loss(&pt, &tt);
    let p: Vec<f64> = (0..n).map(|i| pv(i) as f64).collect();
    let t: Vec<f64> = (0..n).map(|i| tv(i) as f64).collect();
    let nn = n as f64; let eps = 1e-6f64;
    let pc: Vec<f64> = p.iter().map(|v| v.max(eps).min(1.0 - eps)).collect();
    let sgn = |a: f64, q: f64| if a == q { 0.0 } else if a > q { -1.0 } else { 1.0 };
    let (want_loss, want_grad): (f64, Vec<f64>) = match which {
        0 => ((0..n).map(|k| (t[k] - p[k]).abs()).sum(), (0..n).map(|k| sgn(t[k], p[k])).collect()),
        1 => ((0..n).map(|k| (t[k] - p[k]).abs()).sum::<f64>() / nn, (0..n).map(|k| sgn(t[k], p[k])).collect()),
        2 => ((0..n).map(|k| (t[k] - p[k]).powi(2) / nn).sum(), (0..n).map(|k| -2.0 * (t[k] - p[k]) / nn).collect()),
        3 => (((0..n).map(|k| (t[k] - p[k]).powi(2)).sum::<f64>() / nn).sqrt(), (0..n).map(|k| if t[k] == p[k] { 0.0 } else { -(t[k] - p[k]) / ((t[k] - p[k]).powi(2).sqrt() * nn) }).collect()),
        4 => (-(0..n).map(|k| t[k] * pc[k].ln()).sum::<f64>(), (0..n).map(|k| p[k] - t[k]).collect()),
        5 => (-(0..n).map(|k| t[k] * pc[k].ln() + (1.0 - t[k]) * (1.0 - pc[k]).ln()).sum::<f64>(), (0..n).map(|k| (pc[k] - t[k]) / (pc[k] * (1.0 - pc[k]))).collect()),
        _ => ((0..n).map(|k| if t[k] == 0.0 { 0.0 } else { t[k] * (t[k] / pc[k]).ln() }).sum(), (0..n).map(|k| -t[k] / pc[k]).collect()),
    };
    let near = |a: f64, b: f64| (a - b).abs() <= 1e-4 + 1e-3 * a.abs().max(b.abs());
    if !near(loss as f64, want_loss) { return Err(format!("{}: loss {} but the documented formula gives {:.6}", name, loss, want_loss)); }
    if grad.shape != pt.shape { return Err(format!("{}: the gradient's shape differs from the prediction's", name)); }
    let g = match cells(&grad, dims) { Some(g) => g, None => return Err(format!("{}: the gradient's nesting lengths differ from the prediction's", name)) };
    for k in 0..n {
        let w = if clamp { want_grad[k].max(lo as f64).min(hi as f64) } else { want_grad[k] };
        if !near(g[k] as f64, w) { return Err(format!("{}: gradient cell {} (row-major) is {} but the documented formula{} gives {:.6} (target {}, prediction {})", name, k, g[k], if clamp { " limited to the clamp interval" } else { "" }, w, t[k], p[k])); }
    }
    Ok(())
}
pub fn dispatch_objective_cells(cmd: &str, _name: &str, arg: &str) -> Option<String> {
    if std::env::var("VERIF_SHOW_PANIC").is_err() { std::panic::set_hook(Box::new(|_| {})); }
    let fmt = |w: usize, c: bool, d: &[usize]| format!("{{\"objective\":{},\"clamp\":{},\"extents\":{:?}}}", w, c, d);
    let one = |w: usize, c: bool, d: Vec<usize>| -> Result<(), String> {
        match std::panic::catch_unwind(move || objective_cells_one(w, &d, c)) { Ok(r) => r, Err(_) => Err("loss() panicked on operands of equal shape".into()) }
    };
    if cmd == "run" {
        let v: Vec<usize> = arg.replace("true", "1").replace("false", "0").split(|c: char| !c.is_ascii_digit()).filter(|x| !x.is_empty()).filter_map(|x| x.parse().ok()).collect();
        if v.len() < 3 || v.len() > 5 { return None; }
        let d = v[2..].to_vec();
        return Some(match one(v[0], v[1] != 0, d.clone()) { Ok(()) => format!("{{\"failed\":false,\"input\":{}}}", fmt(v[0], v[1] != 0, &d)), Err(e) => format!("{{\"failed\":true,\"input\":{},\"detail\":{:?}}}", fmt(v[0], v[1] != 0, &d), e) });
    }
    let m = if big() { 4usize } else { 3usize };
    let mut grid: Vec<Vec<usize>> = (1..=5usize).map(|a| vec![a]).collect();
    for a in 1..=m { for b in 1..=m { for c in 1..=m { grid.push(vec![a, b, c]); } } }
    let mut tried = 0usize;
    for w in 0..7usize { for c in [false, true] { for d in &grid {
        tried += 1;
        if let Err(e) = one(w, c, d.clone()) { return Some(format!("{{\"failed\":true,\"tried\":{},\"input\":{},\"detail\":{:?}}}", tried, fmt(w, c, d), e)); }
    }}}
    Some(format!("{{\"failed\":false,\"tried\":{}}}", tried))
}

// ------------------------------------------------------------------------------------------------ dot / outer product / transpose / dense layer on non-square operands (C15, C02, C01)
// Integer-valued data: every product and sum is exact in f32, so equality with the index definition is exact.
pub fn linear_one(rows: usize, cols: usize, bias: bool, part: usize) -> Result<(), String> {
    let w: Vec<Vec<f32>> = (0..rows).map(|i| (0..cols).map(|j| ((i * 3 + j * 5 + 1) % 7) as f32 - 3.0).collect()).collect();
    let x: Vec<f32> = (0..cols).map(|j| ((j * 2 + 1) % 5) as f32 - 2.0).collect();
    let y: Vec<f32> = (0..rows).map(|i| ((i * 4 + 2) % 5) as f32 - 1.0).collect();
    let b: Vec<f32> = (0..rows).map(|i| (i % 3) as f32 - 1.0).collect();
    let (wt, xt, yt) = (Tensor::double(w.clone()), Tensor::single(x.clone()), Tensor::single(y.clone()));
    if part == 0 {
    // matrix-vector product
    let d = wt.dot(&xt);
    let want: Vec<f32> = (0..rows).map(|i| (0..cols).map(|j| w[i][j] * x[j]).sum()).collect();
    if !matches!(d.shape, Shape::Single(n) if n == rows) || cells(&d, &[rows]).map(|g| g != want).unwrap_or(true) { return Err(format!("dot: result {:?} but sum_j m[i][j]*x[j] = {:?}", d.data, want)); }
    // outer product y x^T
    let p = yt.product(&xt);
    let want: Vec<f32> = (0..rows).flat_map(|i| (0..cols).map(move |j| (i, j))).map(|(i, j)| y[i] * x[j]).collect();
    if !matches!(p.shape, Shape::Double(a, c) if (a, c) == (rows, cols)) || cells(&p, &[rows, cols]).map(|g| g != want).unwrap_or(true) { return Err(format!("product: result {:?} but y[i]*x[j] = {:?}", p.data, want)); }
    // transpose
    let t = wt.transpose();
    let want: Vec<f32> = (0..cols).flat_map(|j| (0..rows).map(move |i| (i, j))).map(|(i, j)| w[i][j]).collect();
    if !matches!(t.shape, Shape::Double(a, c) if (a, c) == (cols, rows)) || cells(&t, &[cols, rows]).map(|g| g != want).unwrap_or(true) { return Err(format!("transpose: result {:?} is not m[j][i]", t.data)); }
    return Ok(());
    }
    // dense layer, linear activation: forward = W x (+ b); backward: input gradient = W^T g, weight gradient = g x^T, bias gradient = g
    let mut layer = dense::Dense::create(Shape::Single(cols), Shape::Single(rows), &Activation::Linear, bias, None);
    layer.weights = Tensor::double(w.clone());
    if bias { layer.bias = Some(Tensor::single(b.clone())); }
    let (pre, post) = layer.forward(&xt);
    let want: Vec<f32> = (0..rows).map(|i| (0..cols).map(|j| w[i][j] * x[j]).sum::<f32>() + if bias { b[i] } else { 0.0 }).collect();
    if part == 1 {
        if cells(&pre, &[rows]).map(|g| g != want).unwrap_or(true) || cells(&post, &[rows]).map(|g| g != want).unwrap_or(true) { return Err(format!("Dense::forward: {:?} but W x + b = {:?}", post.data, want)); }
        return Ok(());
    }
    let post = Tensor::single(want);      // (the backward part does not depend on forward being right)
    let (ig, wg, bg) = layer.backward(&yt, &xt, &post);
    let want_ig: Vec<f32> = (0..cols).map(|j| (0..rows).map(|i| w[i][j] * y[i]).sum()).collect();
    if cells(&ig, &[cols]).map(|g| g != want_ig).unwrap_or(true) { return Err(format!("Dense::backward: input gradient {:?} but W^T g = {:?}", ig.data, want_ig)); }
    let want_wg: Vec<f32> = (0..rows).flat_map(|i| (0..cols).map(move |j| (i, j))).map(|(i, j)| y[i] * x[j]).collect();
    if cells(&wg, &[rows, cols]).map(|g| g != want_wg).unwrap_or(true) { return Err(format!("Dense::backward: weight gradient {:?} but g x^T = {:?}", wg.data, want_wg)); }
    match (bias, bg) {
        (true, Some(g)) => if cells(&g, &[rows]).map(|g| g != y).unwrap_or(true) { return Err(format!("Dense::backward: bias gradient {:?} but g = {:?}", g.data, y)); },
        (false, None) => {},
        _ => return Err("Dense::backward: a bias gradient exists iff the layer has a bias - violated".into()),
    }
    Ok(())
}
pub fn dispatch_linear(cmd: &str, name: &str, arg: &str) -> Option<String> {
    let part = match name { "tensor.linear" => 0usize, "dense.linear.forward" => 1, _ => 2 };
    if std::env::var("VERIF_SHOW_PANIC").is_err() { std::panic::set_hook(Box::new(|_| {})); }
    let fmt = |r: usize, c: usize, b: bool| format!("{{\"rows\":{},\"cols\":{},\"bias\":{}}}", r, c, b);
    let one = |r: usize, c: usize, b: bool| -> Result<(), String> {
        match std::panic::catch_unwind(move || linear_one(r, c, b, part)) { Ok(x) => x, Err(_) => Err("the operation panicked on well-formed operands".into()) }
    };
    if cmd == "run" {
        let v: Vec<usize> = arg.replace("true", "1").replace("false", "0").split(|c: char| !c.is_ascii_digit()).filter(|x| !x.is_empty()).filter_map(|x| x.parse().ok()).collect();
        if v.len() != 3 { return None; }
        return Some(match one(v[0], v[1], v[2] != 0) { Ok(()) => format!("{{\"failed\":false,\"input\":{}}}", fmt(v[0], v[1], v[2] != 0)), Err(e) => format!("{{\"failed\":true,\"input\":{},\"detail\":{:?}}}", fmt(v[0], v[1], v[2] != 0), e) });
    }
    let m = if big() { 7usize } else { 5usize };
    let mut tried = 0usize;
    for r in 1..=m { for c in 1..=m { for b in [false, true] {
        tried += 1;
        if let Err(e) = one(r, c, b) { return Some(format!("{{\"failed\":true,\"tried\":{},\"input\":{},\"detail\":{:?}}}", tried, fmt(r, c, b), e)); }
    }}}
    Some(format!("{{\"failed\":false,\"tried\":{}}}", tried))
}

// ------------------------------------------------------------------------------------------------ random tensors and shuffling (C18)
pub fn random_one(dims: &[usize], which: usize) -> Result<(), String> {
    let bounds = [(-1.0f32, 1.0f32), (0.0, 0.0), (2.5, 3.0), (-1e30, 1e30)];
    let (lo, hi) = bounds[which % bounds.len()];
    let shape = match dims.len() { 1 => Shape::Single(dims[0]), 2 => Shape::Double(dims[0], dims[1]), 3 => Shape::Triple(dims[0], dims[1], dims[2]), _ => Shape::Quadruple(dims[0], dims[1], dims[2], dims[3]) };
    let t = Tensor::random(shape.clone(), lo, hi);
    if t.shape != shape { return Err("Tensor::random: the recorded shape is not the requested one".into()); }
    let g = match cells(&t, dims) { Some(g) => g, None => return Err(format!("Tensor::random: the data do not have the requested extents {:?}", dims)) };
    if let Some(k) = (0..g.len()).find(|&k| !(g[k] >= lo && g[k] <= hi)) { return Err(format!("Tensor::random: entry {} (row-major) is {} outside [{}, {}]", k, g[k], lo, hi)); }
    // shuffle: a permutation, for a length derived from the extents and a seed derived from the bounds index
    let n: usize = dims.iter().product::<usize>() + dims.len() - 1;
    let mut gen = crate::random::Generator::create(which as u64 * 7919 + n as u64);
    let mut v: Vec<usize> = (0..n).map(|i| i / 2).collect();       // with repeated elements: multiset, not set
    let before = { let mut b = v.clone(); b.sort(); b };
    gen.shuffle(&mut v);
    let after = { let mut a = v.clone(); a.sort(); a };
    if before != after { return Err(format!("shuffle: length {} - the result is not a permutation of the input", n)); }
    Ok(())
}
pub fn dispatch_random(cmd: &str, _name: &str, arg: &str) -> Option<String> {
    if std::env::var("VERIF_SHOW_PANIC").is_err() { std::panic::set_hook(Box::new(|_| {})); }
    let fmt = |w: usize, d: &[usize]| format!("{{\"bounds\":{},\"extents\":{:?}}}", w, d);
    let one = |w: usize, d: Vec<usize>| -> Result<(), String> {
        match std::panic::catch_unwind(move || random_one(&d, w)) { Ok(r) => r, Err(_) => Err("Tensor::random / shuffle panicked".into()) }
    };
    if cmd == "run" {
        let v: Vec<usize> = arg.split(|c: char| !c.is_ascii_digit()).filter(|x| !x.is_empty()).filter_map(|x| x.parse().ok()).collect();
        if v.len() < 2 || v.len() > 5 { return None; }
        let d = v[1..].to_vec();
        return Some(match one(v[0], d.clone()) { Ok(()) => format!("{{\"failed\":false,\"input\":{}}}", fmt(v[0], &d)), Err(e) => format!("{{\"failed\":true,\"input\":{},\"detail\":{:?}}}", fmt(v[0], &d), e) });
    }
    let m = if big() { 4usize } else { 3usize };
    let mut grid: Vec<Vec<usize>> = (1..=6usize).map(|a| vec![a]).collect();
    for a in 1..=m { for b in 1..=m { grid.push(vec![a, b]); } }
    for a in 1..=m { for b in 1..=m { for c in 1..=m { grid.push(vec![a, b, c]); } } }
    for a in 1..=m.min(3) { for b in 1..=m.min(3) { for c in 1..=m.min(3) { for d in 1..=m.min(3) { grid.push(vec![a, b, c, d]); } } } }
    let mut tried = 0usize;
    for w in 0..4usize { for d in &grid {
        tried += 1;
        if let Err(e) = one(w, d.clone()) { return Some(format!("{{\"failed\":true,\"tried\":{},\"input\":{},\"detail\":{:?}}}", tried, fmt(w, d), e)); }
    }}
    Some(format!("{{\"failed\":false,\"tried\":{}}}", tried))
}
