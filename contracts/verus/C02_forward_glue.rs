//@include prelude.rs
verus! {
// R5: the numeric kernels (`pad3d`, `convolve`, the deconvolution and max-pool nests: their own units in C02_*.rs), the activation
// functions (C07), dropout and flatten (C14) are uninterpreted here.  These units decide the GLUE of the three spatial `forward`
// functions for every layer and input: which padding extents are requested, that the kernels are handed over in order, that the
// pre-activation is the raw kernel output, and that dropout is applied only when the layer is training and a rate is set (C09), flatten
// only when the flag is set.
pub mod tensor {
    use vstd::prelude::*;
    pub enum Data { Single(Vec<f32>), Double(Vec<Vec<f32>>), Triple(Vec<Vec<Vec<f32>>>), Quadruple(Vec<Vec<Vec<Vec<f32>>>>), Quintuple(Vec<Vec<Vec<Vec<Vec<(usize, usize)>>>>>) }
    #[verifier::external_body] pub struct Shape { _p: u8 }
    pub struct Tensor { pub shape: Shape, pub data: Data }
    pub uninterp spec fn t_triple(y: Seq<Vec<Vec<f32>>>) -> Tensor;
    pub uninterp spec fn t_quintuple(m: Seq<Vec<Vec<Vec<Vec<(usize, usize)>>>>>) -> Tensor;
    pub uninterp spec fn t_flatten(a: Tensor) -> Tensor;
    pub uninterp spec fn t_dropout(a: Tensor, rate: f32) -> Tensor;
    pub uninterp spec fn pad_of(x: Seq<Vec<Vec<f32>>>, into: (usize, usize)) -> Seq<Vec<Vec<f32>>>;
    impl Clone for Tensor { #[verifier::external_body] fn clone(&self) -> (r: Self) ensures r == *self { unimplemented!() } }
    impl Tensor {
        #[verifier::external_body] pub fn triple(y: Vec<Vec<Vec<f32>>>) -> (r: Tensor) ensures r == t_triple(y@) { unimplemented!() }
        #[verifier::external_body] pub fn quintuple(m: Vec<Vec<Vec<Vec<Vec<(usize, usize)>>>>>) -> (r: Tensor) ensures r == t_quintuple(m@) { unimplemented!() }
        #[verifier::external_body] pub fn flatten(&self) -> (r: Tensor) ensures r == t_flatten(*self) { unimplemented!() }
        #[verifier::external_body] pub fn dropout(&mut self, dropout: f32) ensures *final(self) == t_dropout(*old(self), dropout) { }
    }
    // contract proved on the real body: unit pad3d (C02_pad3d.rs)
    #[verifier::external_body] pub fn pad3d(x: &Vec<Vec<Vec<f32>>>, into: (usize, usize)) -> (r: Vec<Vec<Vec<f32>>>) ensures r@ == pad_of(x@, into) { unimplemented!() }
}
use tensor::*;
pub mod activation {
    use vstd::prelude::*; use super::tensor::*;
    pub struct Function { pub kind: u8 }
    pub uninterp spec fn act_fwd(f: Function, x: Tensor) -> Tensor;
    impl Function { #[verifier::external_body] pub fn forward(&self, input: &Tensor) -> (r: Tensor) ensures r == act_fwd(*self, *input) { unimplemented!() } }
}
pub struct Convolution { pub padding: (usize, usize), pub kernels: Vec<Tensor>, pub activation: activation::Function, pub dropout: Option<f32>, pub training: bool, pub flatten: bool }
pub struct Deconvolution { pub activation: activation::Function, pub dropout: Option<f32>, pub training: bool, pub flatten: bool }
pub struct Maxpool { pub flatten: bool }
pub uninterp spec fn conv_of(l: Convolution, x: Seq<Vec<Vec<f32>>>, ks: Seq<Seq<Vec<Vec<f32>>>>) -> Seq<Vec<Vec<f32>>>;
pub open spec fn ks_view(ks: Seq<&Vec<Vec<Vec<f32>>>>) -> Seq<Seq<Vec<Vec<f32>>>> { Seq::new(ks.len(), |i: int| ks[i]@) }
pub open spec fn all_kernel_data(l: Convolution) -> Seq<Seq<Vec<Vec<f32>>>> { Seq::new(l.kernels@.len(), |i: int| kernel_data(l.kernels@[i])) }
impl Convolution {
    // contract proved on the real body: unit conv.convolve (C02_convolve.rs) - there as the explicit cross-correlation formula
    #[verifier::external_body] fn convolve(&self, x: &Vec<Vec<Vec<f32>>>, kernels: &Vec<&Vec<Vec<Vec<f32>>>>) -> (r: Vec<Vec<Vec<f32>>>) ensures r@ == conv_of(*self, x@, ks_view(kernels@)) { unimplemented!() }
}
/// what every spatial layer does after its kernel: activation, dropout only when training and configured, flatten only when flagged
pub open spec fn tail(act: activation::Function, training: bool, dropout: Option<f32>, flatten: bool, pre: Tensor) -> Tensor {
    let a = activation::act_fwd(act, pre);
    let d = if training && dropout is Some { t_dropout(a, dropout->Some_0) } else { a };
    if flatten { t_flatten(d) } else { d }
}
pub open spec fn kernel_data(k: Tensor) -> Seq<Vec<Vec<f32>>> { k.data->Triple_0@ }

//@unit conv.forward.glue prop=C02,C09
impl Convolution {
fn forward_glue(&self, x: Vec<Vec<Vec<f32>>>, ih: usize, iw: usize) -> (r: (tensor::Tensor, tensor::Tensor))
    requires
        ih + 2 * self.padding.0 <= usize::MAX, iw + 2 * self.padding.1 <= usize::MAX,
        //@requires-extra
    ensures
        // the pre-activation is the kernel applied to the input zero-padded by `padding` on every side, all kernels in order
        r.0 == t_triple(conv_of(*self, pad_of(x@, ((ih + 2 * self.padding.0) as usize, (iw + 2 * self.padding.1) as usize)), all_kernel_data(*self))), //@ob padded_by_the_configured_padding_then_convolved_with_all_kernels
        r.1 == tail(self.activation, self.training, self.dropout, self.flatten, r.0), //@ob activation_dropout_only_when_training_flatten_only_when_flagged
{
    let mut x = x;
    //@body file=src/convolution.rs impl=Convolution fn=forward part="region:/let ph = ih \+ 2 \* self\.padding\.0;/../^        \(pre, post\)/" rewrites=R13,R22 loops=1
    //@loop 1
            invariant
                kernels@.len() == __k,
                forall|i: int| 0 <= i < __k ==> (#[trigger] kernels@[i])@ == kernel_data(self.kernels@[i]),
    //@end
    //@before /let y = self\.convolve/
        proof { assert(ks_view(kernels@) =~= all_kernel_data(*self)); }
    //@end
    //@endbody
}
}
//@endunit

//@unit deconv.forward.glue prop=C02,C09
impl Deconvolution {
fn forward_glue(&self, y: Vec<Vec<Vec<f32>>>) -> (r: (tensor::Tensor, tensor::Tensor))
    requires true,
        //@requires-extra
    ensures
        r.0 == t_triple(y@), //@ob preactivation_is_the_raw_nest_output
        r.1 == tail(self.activation, self.training, self.dropout, self.flatten, r.0), //@ob activation_dropout_only_when_training_flatten_only_when_flagged
{
    //@body file=src/deconvolution.rs impl=Deconvolution fn=forward part="region:/let pre = tensor::Tensor::triple\(y\);/../^        \(pre, post\)/" loops=0
    //@endbody
}
}
//@endunit

pub broadcast proof fn quint_one(s: Seq<Vec<Vec<Vec<Vec<(usize, usize)>>>>>)
    requires s.len() == 1
    ensures #[trigger] t_quintuple(s) == t_quintuple(seq![s[0]])
{ assert(s =~= seq![s[0]]); }

//@unit maxpool.forward.glue prop=C02,C09
impl Maxpool {
fn forward_glue(&self, y: Vec<Vec<Vec<f32>>>, max: Vec<Vec<Vec<Vec<(usize, usize)>>>>) -> (r: (tensor::Tensor, tensor::Tensor, tensor::Tensor))
    requires true,
        //@requires-extra
    ensures
        r.0 == t_triple(y@), //@ob preactivation_is_the_window_maxima
        r.1 == (if self.flatten { t_flatten(r.0) } else { r.0 }), //@ob no_activation_no_dropout_flatten_only_when_flagged
        r.2 == t_quintuple(seq![max]), //@ob indices_recorded
{
    broadcast use quint_one;
    //@body file=src/maxpool.rs impl=Maxpool fn=forward part="region:/let pre = tensor::Tensor::triple\(y\);/../^        \(pre, post, max\)/" loops=0
    //@endbody
}
}
//@endunit
} // verus!
fn main() {}
