//@include prelude.rs
verus! {
pub mod tensor {
    #[derive(Clone)]
    #[verifier::allow(autoderive_clone_without_spec)]
    pub enum Shape {
        Single(usize),
        Double(usize, usize),
        Triple(usize, usize, usize),
        Quadruple(usize, usize, usize, usize),
        Quintuple(usize, usize, usize, usize, usize),
        Nested(usize),
    }
}
use tensor::Shape;
// R7: `(size as f32).sqrt() as usize`.  ASSUMED here; established by exhaustion (native run of that very expression on
// every size < 2^24, where the cast to f32 is exact; CBMC's sqrt model is not correctly rounded and cannot decide it): it is the integer floor of the square root.
pub uninterp spec fn isqrt_spec(n: usize) -> usize;
#[verifier::external_body]
pub fn isqrt_f32(n: usize) -> (r: usize)
    ensures r == isqrt_spec(n), n < 0x100_0000 ==> r * r <= n < (r + 1) * (r + 1), n < 0x100_0000 ==> r <= 0x1000
{ (n as f32).sqrt() as usize }
pub open spec fn sq(r: int) -> int { r * r }
pub open spec fn is_square(n: usize) -> bool { exists|r: int| 0 <= r && #[trigger] sq(r) == n }

pub struct Convolution {}
pub struct Deconvolution {}
pub struct Maxpool {}

// a root r with r*r <= n < (r+1)^2 squares to n iff n is a perfect square
proof fn lemma_floor_root(n: int, r: int)
    requires 0 <= r, r * r <= n < (r + 1) * (r + 1)
    ensures (r * r == n) <==> (exists|q: int| 0 <= q && #[trigger] sq(q) == n)
{
    if r * r == n { assert(sq(r) == n); }
    if exists|q: int| 0 <= q && #[trigger] sq(q) == n {
        let q = choose|q: int| 0 <= q && #[trigger] sq(q) == n;
        if q < r { assert(q * q < r * r) by (nonlinear_arith) requires 0 <= q < r; }
        if q > r { assert(q * q >= (r + 1) * (r + 1)) by (nonlinear_arith) requires q >= r + 1, r >= 0; }
        assert(q == r);
    }
}

//@def ACCEPT
    requires
        inputs is Single, inputs->Single_0 < 0x100_0000, inputs->Single_0 >= 1,
        is_square(inputs->Single_0),
        //@requires-extra
    ensures
        // a flat vector of perfect-square length r*r is read as 1 x r x r
        r.0 == Shape::Triple(1, isqrt_spec(inputs->Single_0), isqrt_spec(inputs->Single_0)), //@ob read_as_1xrxr
        isqrt_spec(inputs->Single_0) * isqrt_spec(inputs->Single_0) == inputs->Single_0, //@ob nothing_lost
//@end
//@def REJECT
    requires
        inputs is Single, inputs->Single_0 < 0x100_0000, inputs->Single_0 >= 1,
        !is_square(inputs->Single_0),
        //@requires-extra
    ensures
        false, //@ob rejected
//@end

//@unit conv.flat_accept prop=C08
impl Convolution {
fn flat_accept(inputs: tensor::Shape) -> (r: (tensor::Shape, usize))
${ACCEPT}
{
    //@body file=src/convolution.rs impl=Convolution fn=create part="region:/let \(inputs, ic\) = match inputs \{/../let \(inputs, ic\) = match inputs \{/" rewrites=R7,R14 loops=0
    //@after /let root = /
        proof { lemma_floor_root(size as int, root as int); }
    //@end
    //@endbody
    (inputs, ic)
}
}
//@endunit
//@unit conv.flat_reject prop=C08
impl Convolution {
fn flat_reject(inputs: tensor::Shape) -> (r: (tensor::Shape, usize))
${REJECT}
{
    //@body file=src/convolution.rs impl=Convolution fn=create part="region:/let \(inputs, ic\) = match inputs \{/../let \(inputs, ic\) = match inputs \{/" rewrites=R7,R13 loops=0
    //@after /let root = /
        proof { lemma_floor_root(size as int, root as int); }
    //@end
    //@endbody
    (inputs, ic)
}
}
//@endunit

//@unit deconv.flat_accept prop=C08
impl Deconvolution {
fn flat_accept(inputs: tensor::Shape) -> (r: (tensor::Shape, usize))
${ACCEPT}
{
    //@body file=src/deconvolution.rs impl=Deconvolution fn=create part="region:/let \(inputs, ic\) = match &inputs \{/../let \(inputs, ic\) = match &inputs \{/" rewrites=R7,R14 loops=0
    //@after /let root = /
        proof { lemma_floor_root(*size as int, root as int); }
    //@end
    //@endbody
    (inputs, ic)
}
}
//@endunit
//@unit deconv.flat_reject prop=C08
impl Deconvolution {
fn flat_reject(inputs: tensor::Shape) -> (r: (tensor::Shape, usize))
${REJECT}
{
    //@body file=src/deconvolution.rs impl=Deconvolution fn=create part="region:/let \(inputs, ic\) = match &inputs \{/../let \(inputs, ic\) = match &inputs \{/" rewrites=R7,R13 loops=0
    //@after /let root = /
        proof { lemma_floor_root(*size as int, root as int); }
    //@end
    //@endbody
    (inputs, ic)
}
}
//@endunit

//@unit maxpool.flat_accept prop=C08
impl Maxpool {
fn flat_accept(inputs: tensor::Shape) -> (r: (tensor::Shape, usize))
${ACCEPT}
{
    //@body file=src/maxpool.rs impl=Maxpool fn=create part="region:/let inputs = match &inputs \{/../let inputs = match &inputs \{/" rewrites=R7,R14 loops=0
    //@after /let root = /
        proof { lemma_floor_root(*size as int, root as int); }
    //@end
    //@endbody
    (inputs, 1)
}
}
//@endunit
//@unit maxpool.flat_reject prop=C08
impl Maxpool {
fn flat_reject(inputs: tensor::Shape) -> (r: (tensor::Shape, usize))
${REJECT}
{
    //@body file=src/maxpool.rs impl=Maxpool fn=create part="region:/let inputs = match &inputs \{/../let inputs = match &inputs \{/" rewrites=R7,R13 loops=0
    //@after /let root = /
        proof { lemma_floor_root(*size as int, root as int); }
    //@end
    //@endbody
    (inputs, 1)
}
}
//@endunit
} // verus!
fn main() {}
