//@include prelude.rs
verus! {
// R5: Tensor is opaque; the tensor operations are uninterpreted functions (their index-level meaning: C15 - `dot`, outer `product`,
// scaled Hadamard product, `transpose`; activation functions: C07).  These units decide, for every dense layer and every input, WHICH
// operations Dense::forward / Dense::backward compose in WHICH order on WHICH operands - W x + b, the activation, the dropout guard; the
// delta rule of the backward pass.
pub mod tensor {
    use vstd::prelude::*;
    pub enum Shape { Single(usize), Double(usize, usize), Triple(usize, usize, usize), Quadruple(usize, usize, usize, usize), Quintuple(usize, usize, usize, usize, usize), Nested(usize) }
    #[verifier::external_body] pub struct Data { _p: u8 }
    #[verifier::external_body] pub struct Scale { _p: u8 }
    pub struct Tensor { pub shape: Shape, pub data: Data }
    pub uninterp spec fn t_dot(w: Tensor, x: Tensor) -> Tensor;                    // matrix-vector product
    pub uninterp spec fn t_add(a: Tensor, b: Tensor) -> Tensor;
    pub uninterp spec fn t_hadamard(a: Tensor, b: Tensor, s: f32) -> Tensor;       // a[i] * b[i] * s
    pub uninterp spec fn t_product(a: Tensor, b: Tensor) -> Tensor;                // outer product a b^T
    pub uninterp spec fn t_transpose(a: Tensor) -> Tensor;
    pub uninterp spec fn t_flatten(a: Tensor) -> Tensor;
    pub uninterp spec fn t_ones(s: Shape) -> Tensor;
    pub uninterp spec fn t_dropout(a: Tensor, rate: f32) -> Tensor;
    pub uninterp spec fn scale_of(s: Scale, loops: f32) -> f32;
    impl Clone for Shape { #[verifier::external_body] fn clone(&self) -> (r: Self) ensures r == *self { Shape::Single(0) } }
    impl Clone for Tensor { #[verifier::external_body] fn clone(&self) -> (r: Self) ensures r == *self { Tensor { shape: Shape::Single(0), data: Data { _p: 0 } } } }
    impl Tensor {
        #[verifier::external_body] pub fn dot(&self, other: &Tensor) -> (r: Tensor) ensures r == t_dot(*self, *other) { unimplemented!() }
        #[verifier::external_body] pub fn add_inplace(&mut self, other: &Tensor) ensures *final(self) == t_add(*old(self), *other) { }
        #[verifier::external_body] pub fn hadamard(&mut self, other: &Tensor, scalar: f32) ensures *final(self) == t_hadamard(*old(self), *other, scalar) { }
        #[verifier::external_body] pub fn product(&self, other: &Tensor) -> (r: Tensor) ensures r == t_product(*self, *other) { unimplemented!() }
        #[verifier::external_body] pub fn transpose(&self) -> (r: Tensor) ensures r == t_transpose(*self) { unimplemented!() }
        #[verifier::external_body] pub fn flatten(&self) -> (r: Tensor) ensures r == t_flatten(*self) { unimplemented!() }
        #[verifier::external_body] pub fn ones(shape: Shape) -> (r: Tensor) ensures r == t_ones(shape) { unimplemented!() }
        #[verifier::external_body] pub fn dropout(&mut self, dropout: f32) ensures *final(self) == t_dropout(*old(self), dropout) { }
    }
}
use tensor::*;
pub mod activation {
    use vstd::prelude::*; use super::tensor::*;
    pub struct Softmax { pub _p: u8 }
    pub struct Other { pub kind: u8 }
    // R5: only the variant Dense::backward distinguishes is named
    pub enum Function { Softmax(Softmax), Other(Other) }
    pub uninterp spec fn act_fwd(f: Function, x: Tensor) -> Tensor;
    pub uninterp spec fn act_bwd(f: Function, x: Tensor) -> Tensor;
    impl Function {
        #[verifier::external_body] pub fn forward(&self, input: &Tensor) -> (r: Tensor) ensures r == act_fwd(*self, *input) { unimplemented!() }
        #[verifier::external_body] pub fn backward(&self, input: &Tensor) -> (r: Tensor) ensures r == act_bwd(*self, *input) { unimplemented!() }
    }
}
pub struct Dense {
    pub loops: f32, pub scale: tensor::Scale,
    pub weights: tensor::Tensor, pub bias: Option<tensor::Tensor>,
    pub activation: activation::Function,
    pub dropout: Option<f32>, pub training: bool,
}
// R3: `(self.scale)(self.loops)`
#[verifier::external_body] pub fn call_scale(s: &tensor::Scale, loops: f32) -> (r: f32) ensures r == scale_of(*s, loops) { 1.0 }

// ---- C02: a dense layer outputs the activation of W x + b ------------------------------------------------------------------------
pub open spec fn dense_pre(l: Dense, x: Tensor) -> Tensor {
    match l.bias { Some(b) => t_add(t_dot(l.weights, x), b), None => t_dot(l.weights, x) }
}
/// dropout is applied only when the layer is training AND a rate is configured (C09)
pub open spec fn dense_post(l: Dense, x: Tensor) -> Tensor {
    let a = activation::act_fwd(l.activation, dense_pre(l, x));
    if l.training && l.dropout is Some { t_dropout(a, l.dropout->Some_0) } else { a }
}

//@unit dense.forward prop=C02,C09
impl Dense {
pub fn forward(&self, x: &tensor::Tensor) -> (r: (tensor::Tensor, tensor::Tensor))
    requires true,
        //@requires-extra
    ensures
        r.0 == dense_pre(*self, *x), //@ob preactivation_is_Wx_plus_b
        r.1 == dense_post(*self, *x), //@ob activation_then_dropout_only_when_training
{
    //@body file=src/dense.rs impl=Dense fn=forward part=whole loops=0
    //@endbody
}
}
//@endunit

// ---- C01: the delta rule ------------------------------------------------------------------------------------------------------------
/// delta = f'(pre-activation) (.) incoming gradient, times the loop scale; for a soft-max layer the incoming gradient (from cross-entropy) is
/// already the derivative with respect to the pre-activation, so f' is replaced by ones
pub open spec fn dense_delta(l: Dense, g: Tensor, out: Tensor) -> Tensor {
    let gg = if g.shape is Single { g } else { t_flatten(g) };
    let d = match l.activation { activation::Function::Softmax(_) => t_ones(out.shape), _ => activation::act_bwd(l.activation, out) };
    t_hadamard(d, gg, scale_of(l.scale, l.loops))
}

//@unit dense.backward prop=C01
impl Dense {
pub fn backward(
    &self,
    gradient: &tensor::Tensor,
    input: &tensor::Tensor,
    output: &tensor::Tensor,
) -> (r: (tensor::Tensor, tensor::Tensor, Option<tensor::Tensor>))
    requires true,
        //@requires-extra
    ensures
        r.0 == t_dot(t_transpose(self.weights), dense_delta(*self, *gradient, *output)), //@ob input_gradient_is_W_transposed_times_delta
        r.1 == t_product(dense_delta(*self, *gradient, *output), *input), //@ob weight_gradient_is_delta_outer_input
        r.2 == (if self.bias is Some { Some(dense_delta(*self, *gradient, *output)) } else { None::<Tensor> }), //@ob bias_gradient_is_delta_iff_bias
{
    //@body file=src/dense.rs impl=Dense fn=backward part=whole rewrites=R3,R13 loops=0
    //@endbody
}
}
//@endunit
} // verus!
fn main() {}
