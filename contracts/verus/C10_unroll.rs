//@include prelude.rs
verus! {
// The unrolling region of Feedback::create: the block's layer list is extended to `loops` copies of itself.  A layer is opaque; `Clone` is ASSUMED
// to return an equal value (it is `#[derive(Clone)]` on plain data: tensors, shapes, flags).
pub mod network {
    use vstd::prelude::*;
    pub struct Layer { pub p: u64 }
    impl Clone for Layer { #[verifier::external_body] fn clone(&self) -> (r: Self) ensures r == *self { Layer { p: self.p } } }
}

//@unit feedback.unroll prop=C10,C11
fn unroll_region(layers0: Vec<network::Layer>, loops: usize) -> (r: (Vec<network::Layer>, usize))
    requires loops >= 1, layers0@.len() * loops <= usize::MAX,
        //@requires-extra
    ensures
        r.1 == layers0@.len(), r.0@.len() == layers0@.len() * loops, //@ob loops_copies_of_the_layer_list
        // repetition i of block layer l sits at l + i*length and equals the original layer l: all repetitions start out identical
        forall|l: int, i: int| 0 <= l < layers0@.len() && 0 <= i < loops ==> #[trigger] r.0@[l + i * layers0@.len()] == layers0@[l], //@ob every_repetition_equals_the_original_at_creation
{
    let mut layers = layers0;
    let ghost base = layers@;
    //@body file=src/feedback.rs impl=Feedback fn=create part="region:/let length = layers\.len\(\);/../for _ in 1\.\.loops \{/" rewrites=R24,R52 loops=1
    //@loop 1
        invariant
            length == base.len(), _layers@ =~= base, 1 <= __it <= loops, base.len() * loops <= usize::MAX,
            layers@.len() == base.len() * __it,
            forall|l: int, i: int| 0 <= l < base.len() && 0 <= i < __it ==> #[trigger] layers@[l + i * base.len()] == base[l], //@ob every_repetition_equals_the_original_at_creation.inv
    //@end
    //@after /let _layers = layers\.clone\(\);/
        proof { assert(base.len() * 1 == base.len()) by (nonlinear_arith); assert forall|l: int, i: int| 0 <= l < base.len() && 0 <= i < 1 implies #[trigger] layers@[l + i * base.len()] == base[l] by { assert(i * base.len() == 0) by (nonlinear_arith) requires i == 0; } }
    //@end
    //@inline-after /layers\.append\(&mut __ext\);/
        proof {
            let n = base.len() as int; let t = __it as int;
            assert(n * (t + 1) == n * t + n) by (nonlinear_arith);
            assert forall|l: int, i: int| 0 <= l < n && 0 <= i < t + 1 implies #[trigger] layers@[l + i * n] == base[l] by {
                if i < t { assert(l + i * n < n * t) by (nonlinear_arith) requires 0 <= l < n, 0 <= i < t; }
                else { assert(i * n == n * t) by (nonlinear_arith) requires i == t; }
            }
        }
    //@end
    //@endbody
    (layers, length)
}
//@endunit
} // verus!
fn main() {}
