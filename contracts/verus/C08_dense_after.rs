//@include prelude.rs
verus! {
// The region of Network::dense that decides what a dense layer added AFTER another layer takes as input, and sets the flatten flag of a
// spatial predecessor (C08: "a spatial output feeding a dense layer is flattened"; C11: "the block's output is flattened when a dense layer follows").
pub mod tensor {
    use vstd::prelude::*;
    pub enum Shape { Single(usize), Double(usize, usize), Triple(usize, usize, usize), Quadruple(usize, usize, usize, usize), Quintuple(usize, usize, usize, usize, usize), Nested(usize) }
    impl Clone for Shape { #[verifier::external_body] fn clone(&self) -> (r: Self) ensures r == *self { unimplemented!() } }
}
#[verifier::external_body] pub struct Rest { _p: u8 }
pub mod activation { #[verifier::external_body] pub struct Activation { _p: u8 } }
pub mod dense {
    use vstd::prelude::*;
    pub struct Dense { pub inputs: super::tensor::Shape, pub outputs: super::tensor::Shape, pub rest: super::Rest }
    // Dense::create records the two shapes it is given (A: read from src/dense.rs; weights / bias sized from them are C08's native grid shapes.chain)
    impl Dense { #[verifier::external_body] pub fn create(inputs: super::tensor::Shape, outputs: super::tensor::Shape, activation: &super::activation::Activation, bias: bool, dropout: Option<f32>) -> (r: Dense)
        ensures r.inputs == inputs, r.outputs == outputs { unimplemented!() } }
}
pub mod convolution { pub struct Convolution { pub outputs: super::tensor::Shape, pub flatten: bool, pub rest: super::Rest } }
pub mod deconvolution { pub struct Deconvolution { pub outputs: super::tensor::Shape, pub flatten: bool, pub rest: super::Rest } }
pub mod maxpool { pub struct Maxpool { pub outputs: super::tensor::Shape, pub flatten: bool, pub rest: super::Rest } }
pub mod feedback { pub struct Feedback { pub outputs: super::tensor::Shape, pub flatten: bool, pub rest: super::Rest } }
pub enum Layer { Dense(dense::Dense), Convolution(convolution::Convolution), Deconvolution(deconvolution::Deconvolution), Maxpool(maxpool::Maxpool), Feedback(feedback::Feedback) }
pub struct Network { pub input: tensor::Shape, pub layers: Vec<Layer> }
pub open spec fn outputs_of(l: Layer) -> tensor::Shape {
    match l { Layer::Dense(d) => d.outputs, Layer::Convolution(d) => d.outputs, Layer::Deconvolution(d) => d.outputs, Layer::Maxpool(d) => d.outputs, Layer::Feedback(d) => d.outputs }
}
pub open spec fn flatten_of(l: Layer) -> bool {
    match l { Layer::Dense(_) => false, Layer::Convolution(d) => d.flatten, Layer::Deconvolution(d) => d.flatten, Layer::Maxpool(d) => d.flatten, Layer::Feedback(d) => d.flatten }
}
/// same layer apart from the flatten flag
pub open spec fn same_but_flatten(a: Layer, b: Layer) -> bool {
    match (a, b) {
        (Layer::Dense(x), Layer::Dense(y)) => x == y,
        (Layer::Convolution(x), Layer::Convolution(y)) => x.outputs == y.outputs && x.rest == y.rest,
        (Layer::Deconvolution(x), Layer::Deconvolution(y)) => x.outputs == y.outputs && x.rest == y.rest,
        (Layer::Maxpool(x), Layer::Maxpool(y)) => x.outputs == y.outputs && x.rest == y.rest,
        (Layer::Feedback(x), Layer::Feedback(y)) => x.outputs == y.outputs && x.rest == y.rest,
        _ => false,
    }
}

//@unit network.dense.after prop=C08,C11
impl Network {
fn dense_inputs_region(&mut self) -> (inputs: tensor::Shape)
    requires
        old(self).layers@.len() >= 1,
        // the predecessor's announced element count fits the machine word (C08's size units)
        outputs_of(old(self).layers@[old(self).layers@.len() - 1]) is Triple ==> ({ let o = outputs_of(old(self).layers@[old(self).layers@.len() - 1]); o->Triple_0 * o->Triple_1 * o->Triple_2 <= usize::MAX && o->Triple_0 >= 1 && o->Triple_1 >= 1 && o->Triple_2 >= 1 }),
        // a dense layer announces a flat shape (Dense::create is only ever given `Shape::Single(outputs)`)
        old(self).layers@[old(self).layers@.len() - 1] is Dense ==> outputs_of(old(self).layers@[old(self).layers@.len() - 1]) is Single,
        //@requires-extra
    ensures
        final(self).input == old(self).input,
        final(self).layers@.len() == old(self).layers@.len(), //@ob no_layer_added_or_removed_here
        forall|i: int| 0 <= i < old(self).layers@.len() - 1 ==> #[trigger] final(self).layers@[i] == old(self).layers@[i], //@ob earlier_layers_untouched
        same_but_flatten(old(self).layers@[old(self).layers@.len() - 1], final(self).layers@[final(self).layers@.len() - 1]), //@ob predecessor_otherwise_unchanged
        // a spatial predecessor is told to flatten, and the dense layer takes the flattened element count; a flat predecessor is taken as it is
        ({ let last = old(self).layers@[old(self).layers@.len() - 1]; let now = final(self).layers@[final(self).layers@.len() - 1];
           match outputs_of(last) {
               tensor::Shape::Triple(c, h, w) => inputs == tensor::Shape::Single((c * h * w) as usize) && flatten_of(now),
               tensor::Shape::Single(n) => inputs == tensor::Shape::Single(n) && (!(last is Dense) ==> flatten_of(now) == flatten_of(last)),
               _ => true,
           } }), //@ob spatial_output_is_flattened_for_the_dense_layer
{
    proof {
        let o = outputs_of(self.layers@[self.layers@.len() - 1]);
        if o is Triple {
            assert(0 <= o->Triple_0 * o->Triple_1 <= o->Triple_0 * o->Triple_1 * o->Triple_2) by (nonlinear_arith)
                requires o->Triple_0 >= 1, o->Triple_1 >= 1, o->Triple_2 >= 1;
        }
    }
    //@body file=src/network.rs impl=Network fn=dense part="region:/let inputs = match &mut self\.layers\.last_mut\(\)\.unwrap\(\) \{/../let inputs = match/" rewrites=R13,R51 loops=0
    //@endbody
    inputs
}
}
//@endunit

// ---- the WHOLE Network::dense: first-layer arm + the region above (called by its contract) + the push of the new layer ----------------------
/// what the new dense layer must take as input: the network's input if it is the first layer, else what the region computes from the predecessor
pub open spec fn dense_takes(net: Network) -> tensor::Shape {
    if net.layers@.len() == 0 { net.input } else {
        match outputs_of(net.layers@[net.layers@.len() - 1]) { tensor::Shape::Triple(c, h, w) => tensor::Shape::Single((c * h * w) as usize), o => o }
    }
}
//@unit network.dense prop=C08
impl Network {
pub fn dense(&mut self, outputs: usize, activation: activation::Activation, bias: bool, dropout: Option<f32>)
    requires
        // a first dense layer needs a flat network input (otherwise `panic!`: refused)
        old(self).layers@.len() == 0 ==> old(self).input is Single,
        old(self).layers@.len() >= 1 ==> (outputs_of(old(self).layers@[old(self).layers@.len() - 1]) is Single || outputs_of(old(self).layers@[old(self).layers@.len() - 1]) is Triple),
        old(self).layers@.len() >= 1 && outputs_of(old(self).layers@[old(self).layers@.len() - 1]) is Triple ==> ({ let o = outputs_of(old(self).layers@[old(self).layers@.len() - 1]); o->Triple_0 * o->Triple_1 * o->Triple_2 <= usize::MAX && o->Triple_0 >= 1 && o->Triple_1 >= 1 && o->Triple_2 >= 1 }),
        old(self).layers@.len() >= 1 && old(self).layers@[old(self).layers@.len() - 1] is Dense ==> outputs_of(old(self).layers@[old(self).layers@.len() - 1]) is Single,
        //@requires-extra
    ensures
        final(self).input == old(self).input,
        final(self).layers@.len() == old(self).layers@.len() + 1, //@ob exactly_one_layer_appended
        forall|i: int| 0 <= i < old(self).layers@.len() - 1 ==> #[trigger] final(self).layers@[i] == old(self).layers@[i], //@ob earlier_layers_untouched
        old(self).layers@.len() >= 1 ==> same_but_flatten(old(self).layers@[old(self).layers@.len() - 1], final(self).layers@[old(self).layers@.len() - 1]), //@ob predecessor_otherwise_unchanged
        old(self).layers@.len() >= 1 && outputs_of(old(self).layers@[old(self).layers@.len() - 1]) is Triple ==> flatten_of(final(self).layers@[old(self).layers@.len() - 1]), //@ob spatial_predecessor_is_told_to_flatten
        final(self).layers@[final(self).layers@.len() - 1] is Dense
            && final(self).layers@[final(self).layers@.len() - 1]->Dense_0.inputs == dense_takes(*old(self))
            && final(self).layers@[final(self).layers@.len() - 1]->Dense_0.outputs == tensor::Shape::Single(outputs), //@ob new_layer_is_dense_from_the_previous_announced_size_to_the_requested_width
{
    //@body file=src/network.rs impl=Network fn=dense part=whole rewrites=R13 loops=0
    //@outline unit=network.dense.after call="let inputs = self.dense_inputs_region();"
    //@endbody
}
}
//@endunit
} // verus!
fn main() {}
