//@include prelude.rs
verus! {
// R5: Generator is opaque; `generate` may return ANY f32 here (its range contract is proved by Kani on the real body, all states).
// This unit decides that shuffle is a safe permutation for EVERY length and every sequence of generated numbers.
pub struct Generator { pub state: u64 }
impl Generator {
    #[verifier::external_body] pub fn generate(&mut self, min: f32, max: f32) -> (r: f32) { 0.0 }
}
// `Vec::swap` (through the slice): exchanges two cells, nothing else (std's documented behaviour; panics out of range)
pub assume_specification<T> [ <[T]>::swap ] (s: &mut [T], a: usize, b: usize)
    requires a < old(s)@.len(), b < old(s)@.len()
    ensures final(s)@ == old(s)@.update(a as int, old(s)@[b as int]).update(b as int, old(s)@[a as int]);
// R28 / R46 / R45: opaque casts, and `usize::min`
pub uninterp spec fn usize_as_f32_spec(n: usize) -> f32;
#[verifier::external_body] pub fn usize_as_f32(n: usize) -> (r: f32) ensures r == usize_as_f32_spec(n) { n as f32 }
#[verifier::external_body] pub fn f32_as_usize(x: f32) -> (r: usize) { x as usize }
pub fn usize_min(a: usize, b: usize) -> (r: usize) ensures r == (if a <= b { a } else { b }) { if a <= b { a } else { b } }

proof fn lemma_swap_multiset<T>(s: Seq<T>, a: int, b: int)
    requires 0 <= a < s.len(), 0 <= b < s.len()
    ensures s.update(a, s[b]).update(b, s[a]).to_multiset() == s.to_multiset()
{
    broadcast use vstd::seq_lib::group_to_multiset_ensures;
    broadcast use vstd::seq_lib::group_seq_properties;
    let t = s.update(a, s[b]);
    assert(t.to_multiset() == s.to_multiset().insert(s[b]).remove(s[a]));
    assert(t.update(b, s[a]).to_multiset() == t.to_multiset().insert(s[a]).remove(t[b]));
    assert(t.update(b, s[a]).to_multiset() =~= s.to_multiset());
}

//@unit random.shuffle prop=C18
impl Generator {
pub fn shuffle(&mut self, values: &mut Vec<usize>)
    requires true,
        //@requires-extra
    ensures
        // never indexes outside the vector (body safety), keeps the length, and the result is a rearrangement of the argument
        final(values)@.len() == old(values)@.len(), //@ob length_kept
        final(values)@.to_multiset() == old(values)@.to_multiset(), //@ob result_is_a_permutation_of_the_argument
{
    //@body file=src/random.rs impl=Generator fn=shuffle part=whole rewrites=R28,R45,R46 loops=1
    //@loop 1
            invariant
                values@.len() == old(values)@.len(),
                values@.to_multiset() == old(values)@.to_multiset(), //@ob result_is_a_permutation_of_the_argument.inv
    //@end
    //@before /values\.swap\(/
            proof { lemma_swap_multiset(values@, i as int, j as int); }
    //@end
    //@endbody
}
}
//@endunit
} // verus!
fn main() {}
