//@include prelude.rs
use std::collections::HashMap;
verus! {
// R5: Tensor is opaque here.  Its element-wise operations are the subject of C15 (and reshape of C14); this unit only
// decides WHICH tensors are combined HOW at a skip connection, for every network, index and connection table.
pub mod tensor {
    use vstd::prelude::*;
    #[verifier::external_body]
    pub struct Shape { _p: u8 }
    #[verifier::external_body]
    pub struct Data { _p: u8 }
    pub struct Tensor { pub shape: Shape, pub data: Data }
    // abstract element-wise algebra (C15 ties each to the IEEE operator per cell)
    pub uninterp spec fn t_add(a: Tensor, b: Tensor) -> Tensor;
    pub uninterp spec fn t_sub(a: Tensor, b: Tensor) -> Tensor;
    pub uninterp spec fn t_mul(a: Tensor, b: Tensor) -> Tensor;
    pub uninterp spec fn t_mean1(a: Tensor, b: Tensor) -> Tensor;   // mean of a and ONE other tensor: (a + b) / 2
    // reshape to a shape: same row-major sequence (C14); the identity when the shape already matches
    pub uninterp spec fn t_reshape(a: Tensor, s: Shape) -> Tensor;
    pub uninterp spec fn shape_eq(a: Shape, b: Shape) -> bool;
    pub broadcast axiom fn reshape_same(a: Tensor, s: Shape) requires shape_eq(a.shape, s) ensures #[trigger] t_reshape(a, s) == a;

    impl Clone for Shape { #[verifier::external_body] fn clone(&self) -> (r: Self) ensures r == *self { Shape { _p: self._p } } }
    impl Clone for Tensor { #[verifier::external_body] fn clone(&self) -> (r: Self) ensures r == *self { Tensor { shape: Shape { _p: 0 }, data: Data { _p: 0 } } } }
    impl PartialEq for Shape {
        #[verifier::external_body] fn eq(&self, other: &Self) -> (r: bool) ensures r == shape_eq(*self, *other) { true }
        #[verifier::external_body] fn ne(&self, other: &Self) -> (r: bool) ensures r == !shape_eq(*self, *other) { true }
    }
    impl Tensor {
        #[verifier::external_body] pub fn reshape(self, shape: Shape) -> (r: Tensor) ensures r == t_reshape(self, shape) { self }
        #[verifier::external_body] pub fn add_inplace(&mut self, other: &Tensor) ensures *final(self) == t_add(*old(self), *other) { }
        #[verifier::external_body] pub fn sub_inplace(&mut self, other: &Tensor) ensures *final(self) == t_sub(*old(self), *other) { }
        #[verifier::external_body] pub fn mul_inplace(&mut self, other: &Tensor) ensures *final(self) == t_mul(*old(self), *other) { }
        #[verifier::external_body] pub fn mean_inplace(&mut self, others: &Vec<&Tensor>) ensures others@.len() == 1 ==> *final(self) == t_mean1(*old(self), *others@[0]) { }
    }
}
pub mod feedback { pub enum Accumulation { Add, Subtract, Multiply, Overwrite, Mean } }
use tensor::*;
pub struct Network { pub connect: HashMap<usize, usize>, pub skipaccumulation: feedback::Accumulation }

// property C16: the input processed by layer i is the configured accumulation of its ordinary input x with the input that was
// fed to the source layer (activated[source]), brought to x's shape
pub open spec fn combined(acc: feedback::Accumulation, x: Tensor, src: Tensor) -> Tensor {
    let s = t_reshape(src, x.shape);
    match acc {
        feedback::Accumulation::Add => t_add(x, s),
        feedback::Accumulation::Subtract => t_sub(x, s),
        feedback::Accumulation::Multiply => t_mul(x, s),
        feedback::Accumulation::Overwrite => s,
        feedback::Accumulation::Mean => t_mean1(x, s),
    }
}

//@unit network.forward.skip prop=C16
impl Network {
fn forward_skip_region(&self, i: usize, x: Tensor, activated: &Vec<Tensor>) -> (r: Tensor)
    requires
        self.connect@.contains_key(i) ==> self.connect@[i] < activated@.len(),
        //@requires-extra
    ensures
        !self.connect@.contains_key(i) ==> r == x, //@ob untouched_without_connection
        self.connect@.contains_key(i) ==> r == combined(self.skipaccumulation, x, activated@[self.connect@[i] as int]), //@ob configured_accumulation_of_x_and_source_input
{
    broadcast use vstd::std_specs::hash::group_hash_axioms;
    broadcast use reshape_same;
    let mut x = x;
    //@body file=src/network.rs impl=Network fn=forward part="region:/if self\.connect\.contains_key\(&i\) \{/../if self\.connect\.contains_key\(&i\) \{/" rewrites=R13,R16 loops=0
    //@endbody
    x
}
}
//@endunit
} // verus!
fn main() {}
