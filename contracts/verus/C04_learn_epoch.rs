//@include prelude.rs
verus! {
// R5: Tensor and Network are opaque.  The forward pass, the objective, the backward pass and the parameter update are uninterpreted
// functions of (network state, arguments) - what they compute is C02 / C06 / C01 / C03's business.  This unit decides the TRAINING
// SCHEDULE of one epoch of Network::learn for every network, data set and batch list: which samples are differentiated at which
// weights, what is summed, how many optimizer steps are taken with which step number, and which loss is reported.
pub mod tensor {
    use vstd::prelude::*;
    #[verifier::external_body] pub struct Data { _p: u8 }
    pub struct Tensor { pub data: Data }
    pub uninterp spec fn t_add(a: Tensor, b: Tensor) -> Tensor;
    impl Tensor {
        #[verifier::external_body] pub fn add_inplace(&mut self, other: &Tensor) ensures *final(self) == t_add(*old(self), *other) { }
    }
}
use tensor::*;
pub mod objective {
    use vstd::prelude::*; use super::tensor::*;
    pub struct Function { pub params: Data }
    pub uninterp spec fn loss_of(f: Function, prediction: Tensor, target: Tensor) -> (f32, Tensor);
    impl Function {
        #[verifier::external_body] pub fn loss(&self, prediction: &Tensor, target: &Tensor) -> (r: (f32, Tensor)) ensures r == loss_of(*self, *prediction, *target) { unimplemented!() }
    }
}
pub struct Network { pub objective: objective::Function, pub params: Data }
pub uninterp spec fn n_layers(n: Network) -> nat;
pub uninterp spec fn fwd_pre(n: Network, x: Tensor) -> Seq<Tensor>;
pub uninterp spec fn fwd_act(n: Network, x: Tensor) -> Seq<Tensor>;
pub uninterp spec fn fwd_max(n: Network, x: Tensor) -> Seq<Option<Tensor>>;
pub uninterp spec fn fwd_fbs(n: Network, x: Tensor) -> Seq<Vec<Tensor>>;
pub uninterp spec fn bwd(n: Network, g: Tensor, pre: Seq<Tensor>, act: Seq<Tensor>, max: Seq<Option<Tensor>>, fbs: Seq<Vec<Tensor>>) -> (Seq<Tensor>, Seq<Option<Tensor>>);
pub uninterp spec fn upd(n: Network, step: i32, wg: Seq<Tensor>, bg: Seq<Option<Tensor>>) -> Network;
impl Network {
    // forward returns the input plus one activation per layer (proved: unit network.forward, `one_entry_per_layer`)
    #[verifier::external_body]
    pub fn forward(&self, input: &Tensor) -> (r: (Vec<Tensor>, Vec<Tensor>, Vec<Option<Tensor>>, Vec<Vec<Tensor>>))
        ensures r.0@ == fwd_pre(*self, *input), r.1@ == fwd_act(*self, *input), r.1@.len() >= 1, r.2@ == fwd_max(*self, *input), r.3@ == fwd_fbs(*self, *input)
    { unimplemented!() }
    // backward returns one weight gradient and one bias gradient per layer (proved per step: unit network.backward.walk)
    #[verifier::external_body]
    fn backward(&self, gradient: Tensor, preactivated: &Vec<Tensor>, activated: &Vec<Tensor>, maxpools: &Vec<Option<Tensor>>, feedbacks: Vec<Vec<Tensor>>)
        -> (r: (Vec<Tensor>, Vec<Option<Tensor>>))
        ensures r.0@ == bwd(*self, gradient, preactivated@, activated@, maxpools@, feedbacks@).0, r.1@ == bwd(*self, gradient, preactivated@, activated@, maxpools@, feedbacks@).1,
            r.0@.len() == n_layers(*self), r.1@.len() == n_layers(*self)
    { unimplemented!() }
    // one optimizer step on every layer; the layer list itself is not changed
    #[verifier::external_body]
    fn update(&mut self, stepnr: i32, weight_gradients: Vec<Tensor>, bias_gradients: Vec<Option<Tensor>>)
        ensures *final(self) == upd(*old(self), stepnr, weight_gradients@, bias_gradients@), n_layers(*final(self)) == n_layers(*old(self))
    { }
}
// R27 / R28: std's in-order float sum and the usize -> f32 conversion are opaque
pub uninterp spec fn f32_sum_spec(s: Seq<f32>) -> f32;
#[verifier::external_body] pub fn f32_sum(v: &Vec<f32>) -> (r: f32) ensures r == f32_sum_spec(v@) { v.iter().sum::<f32>() }
pub uninterp spec fn usize_as_f32_spec(n: usize) -> f32;
#[verifier::external_body] pub fn usize_as_f32(n: usize) -> (r: f32) ensures r == usize_as_f32_spec(n) { n as f32 }
pub uninterp spec fn f32_is_nan_spec(a: f32) -> bool;
pub assume_specification[ f32::is_nan ](a: f32) -> (r: bool) ensures r == f32_is_nan_spec(a);

// ---- property C04 ------------------------------------------------------------------------------------------------------------
/// per-sample (weight gradients, bias gradients, loss), all evaluated at the weights `net`
pub open spec fn sample(net: Network, x: Tensor, y: Tensor) -> (Seq<Tensor>, Seq<Option<Tensor>>, f32) {
    let act = fwd_act(net, x);
    let l = objective::loss_of(net.objective, act[act.len() - 1], y);
    let b = bwd(net, l.1, fwd_pre(net, x), act, fwd_max(net, x), fwd_fbs(net, x));
    (b.0, b.1, l.0)
}
pub open spec fn group_len(xs: Seq<&Tensor>, ys: Seq<&Tensor>) -> int { if xs.len() < ys.len() { xs.len() as int } else { ys.len() as int } }
/// layer-wise sum of the weight gradients of the first n samples of a group, in sample order
pub open spec fn sum_w(net: Network, xs: Seq<&Tensor>, ys: Seq<&Tensor>, n: int) -> Seq<Tensor>
    decreases n
{
    if n <= 1 { sample(net, *xs[0], *ys[0]).0 } else {
        let p = sum_w(net, xs, ys, n - 1);
        let s = sample(net, *xs[n - 1], *ys[n - 1]).0;
        Seq::new(p.len(), |z: int| if z < s.len() { t_add(p[z], s[z]) } else { p[z] })
    }
}
pub open spec fn add_opt(p: Option<Tensor>, s: Option<Tensor>) -> Option<Tensor> {
    match (p, s) { (Some(a), Some(b)) => Some(t_add(a, b)), _ => p }
}
pub open spec fn sum_b(net: Network, xs: Seq<&Tensor>, ys: Seq<&Tensor>, n: int) -> Seq<Option<Tensor>>
    decreases n
{
    if n <= 1 { sample(net, *xs[0], *ys[0]).1 } else {
        let p = sum_b(net, xs, ys, n - 1);
        let s = sample(net, *xs[n - 1], *ys[n - 1]).1;
        Seq::new(p.len(), |z: int| if z < s.len() { add_opt(p[z], s[z]) } else { p[z] })
    }
}
pub open spec fn losses_of(net: Network, xs: Seq<&Tensor>, ys: Seq<&Tensor>, n: int) -> Seq<f32> { Seq::new(n as nat, |t: int| sample(net, *xs[t], *ys[t]).2) }
/// one group = ONE optimizer step, with the given step number, on the sums of the per-sample gradients, all taken at `net`
pub open spec fn after_group(net: Network, step: i32, xs: Seq<&Tensor>, ys: Seq<&Tensor>) -> Network {
    upd(net, step, sum_w(net, xs, ys, group_len(xs, ys)), sum_b(net, xs, ys, group_len(xs, ys)))
}
/// mean per-sample loss of a group (std's sum of the losses in sample order, divided by the group size)
pub open spec fn group_loss(net: Network, xs: Seq<&Tensor>, ys: Seq<&Tensor>) -> f32 {
    fdiv(f32_sum_spec(losses_of(net, xs, ys, group_len(xs, ys))), usize_as_f32_spec(group_len(xs, ys) as usize))
}
/// the network after the first k groups of an epoch, walked in the given order
pub open spec fn after_groups(net: Network, step: i32, bs: Seq<(&[&Tensor], &[&Tensor])>, k: int) -> Network
    decreases k
{ if k <= 0 { net } else { after_group(after_groups(net, step, bs, k - 1), step, bs[k - 1].0@, bs[k - 1].1@) } }
pub open spec fn loss_sum(net: Network, step: i32, bs: Seq<(&[&Tensor], &[&Tensor])>, k: int) -> f32
    decreases k
{ if k <= 0 { 0.0f32 } else { fadd(loss_sum(net, step, bs, k - 1), group_loss(after_groups(net, step, bs, k - 1), bs[k - 1].0@, bs[k - 1].1@)) } }

proof fn lemma_sum_len(net: Network, xs: Seq<&Tensor>, ys: Seq<&Tensor>, n: int)
    ensures sum_w(net, xs, ys, n).len() == sample(net, *xs[0], *ys[0]).0.len(), sum_b(net, xs, ys, n).len() == sample(net, *xs[0], *ys[0]).1.len()
    decreases n
{ if n > 1 { lemma_sum_len(net, xs, ys, n - 1); } }

//@def GROUPS
                forall|k: int| 0 <= k < batches@.len() ==> (#[trigger] batches@[k]).0@.len() >= 1 && batches@[k].1@.len() >= 1,
//@end
//@def SAMPLES
                __ix1 < batches@.len(), batch == &batches@[__ix1 as int], xs == batch.0@, ys == batch.1@, n == group_len(xs, ys), n >= 1,
                *self == net, n_layers(net) >= 1,
//@end
//@def RESULTS
                all.len() == n,
                forall|t: int| 0 <= t < n ==> (#[trigger] all[t]).0@ == sample(net, *xs[t], *ys[t]).0 && all[t].1@ == sample(net, *xs[t], *ys[t]).1 && all[t].2 == sample(net, *xs[t], *ys[t]).2, //@ob per_sample_gradients_at_the_weights_before_the_step.inv
                forall|t: int| 0 <= t < n ==> (#[trigger] all[t]).0@.len() == n_layers(net) && all[t].1@.len() == n_layers(net),
//@end

//@unit learn.epoch prop=C04 search=learn.schedule
impl Network {
fn learn_epoch(&mut self, batches: &Vec<(&[&tensor::Tensor], &[&tensor::Tensor])>, epoch: i32, train_loss: &mut Vec<f32>)
    requires
        // what `par_chunks(batch)` produces (assumed): no empty group
        forall|k: int| 0 <= k < batches@.len() ==> (#[trigger] batches@[k]).0@.len() >= 1 && batches@[k].1@.len() >= 1,
        n_layers(*old(self)) >= 1,
        //@requires-extra
    ensures
        // one optimizer step per group, step number = epoch, on the sum of the per-sample gradients taken at the weights held before
        // that step, groups walked in order
        *final(self) == after_groups(*old(self), epoch, batches@, batches@.len() as int), //@ob one_step_per_group_on_the_summed_gradients
        // the reported loss: mean over the groups of the mean per-sample loss
        final(train_loss)@ == old(train_loss)@.push(fdiv(loss_sum(*old(self), epoch, batches@, batches@.len() as int), usize_as_f32_spec(batches@.len() as usize))), //@ob reported_loss_is_mean_of_group_means
        n_layers(*final(self)) == n_layers(*old(self)),
{
    broadcast use {f32_total};
    proof { f32_obeys(); }
    let ghost net0 = *self;
    //@body file=src/network.rs impl=Network fn=learn part="region:/let mut loss_epoch = 0\.0;/../train_loss\.push\(loss_epoch/" rewrites=R1,R13,R15,R19,R25,R26,R27,R28,R29 loops=5
    //@type results = Vec<(Vec<tensor::Tensor>, Vec<Option<tensor::Tensor>>, f32)>
    //@loop 1
            invariant
                ${GROUPS}
                n_layers(*self) >= 1, n_layers(*self) == n_layers(net0),
                *self == after_groups(net0, epoch, batches@, __ix1 as int), //@ob one_step_per_group_on_the_summed_gradients.inv
                loss_epoch == loss_sum(net0, epoch, batches@, __ix1 as int), //@ob reported_loss_is_mean_of_group_means.inv
                train_loss@ == old(train_loss)@,
    //@end
    //@before /let mut results: /
                let ghost net = *self;
                let ghost xs = batch.0@;
                let ghost ys = batch.1@;
                let ghost n = group_len(xs, ys);
    //@end
    //@loop 2
            invariant
                ${SAMPLES}
                results@.len() == __s,
                forall|t: int| 0 <= t < __s ==> (#[trigger] results@[t]).0@ == sample(net, *xs[t], *ys[t]).0 && results@[t].1@ == sample(net, *xs[t], *ys[t]).1 && results@[t].2 == sample(net, *xs[t], *ys[t]).2, //@ob per_sample_gradients_at_the_weights_before_the_step.inv
                forall|t: int| 0 <= t < __s ==> (#[trigger] results@[t]).0@.len() == n_layers(net) && results@[t].1@.len() == n_layers(net),
    //@end
    //@before /let mut __v = results;/
                let ghost all = results@;
    //@end
    //@loop 3
            invariant
                ${SAMPLES}
                ${RESULTS}
                losses@.len() <= n, __v@ == all.subrange(losses@.len() as int, n),
                losses@ == losses_of(net, xs, ys, losses@.len() as int), //@ob losses_in_sample_order.inv
                losses@.len() == 0 ==> weight_gradients@.len() == 0 && bias_gradients@.len() == 0,
                losses@.len() >= 1 ==> weight_gradients@.len() == n_layers(net) && bias_gradients@.len() == n_layers(net),
                losses@.len() >= 1 ==> forall|z: int| 0 <= z < n_layers(net) ==> #[trigger] weight_gradients@[z] == sum_w(net, xs, ys, losses@.len() as int)[z], //@ob summed_weight_gradients.inv
                losses@.len() >= 1 ==> forall|z: int| 0 <= z < n_layers(net) ==> #[trigger] bias_gradients@[z] == sum_b(net, xs, ys, losses@.len() as int)[z], //@ob summed_bias_gradients.inv
            decreases __v@.len(),
    //@end
    //@after /__v\.remove\(0\);/
                    let ghost c = losses@.len() as int;
                    let ghost pw = weight_gradients@;
                    let ghost pb = bias_gradients@;
                    proof {
                        assert(wg@ == all[c].0@ && wb@ == all[c].1@ && loss == all[c].2);
                        assert(all[0].0@.len() == n_layers(net) && all[0].1@.len() == n_layers(net));
                        lemma_sum_len(net, xs, ys, c);
                        lemma_sum_len(net, xs, ys, c + 1);
                    }
    //@end
    //@after /losses\.push\(loss\);/
                    proof { assert(losses@ =~= losses_of(net, xs, ys, c + 1)); }
    //@end
    //@loop 4
            invariant
                c >= 1, wg@ == sample(net, *xs[c], *ys[c]).0, pw.len() == n_layers(net), wg@.len() == n_layers(net),
                forall|z: int| 0 <= z < n_layers(net) ==> #[trigger] pw[z] == sum_w(net, xs, ys, c)[z],
                weight_gradients@.len() == pw.len(),
                forall|z: int| 0 <= z < pw.len() ==> #[trigger] weight_gradients@[z] == (if z < __z { t_add(pw[z], wg@[z]) } else { pw[z] }), //@ob summed_weight_gradients.inv
    //@end
    //@loop 5
            invariant
                c >= 1, wb@ == sample(net, *xs[c], *ys[c]).1, pb.len() == n_layers(net), wb@.len() == n_layers(net),
                forall|z: int| 0 <= z < n_layers(net) ==> #[trigger] pb[z] == sum_b(net, xs, ys, c)[z],
                bias_gradients@.len() == pb.len(),
                weight_gradients@.len() == n_layers(net),
                forall|z: int| 0 <= z < n_layers(net) ==> #[trigger] weight_gradients@[z] == sum_w(net, xs, ys, c + 1)[z],
                forall|z: int| 0 <= z < pb.len() ==> #[trigger] bias_gradients@[z] == (if z < __z { add_opt(pb[z], wb@[z]) } else { pb[z] }), //@ob summed_bias_gradients.inv
    //@end
    //@before /loss_epoch = loss_epoch \+/
                broadcast use {f32_total};
                proof {
                    f32_obeys();
                    assert(losses@.len() == n);
                    lemma_sum_len(net, xs, ys, n);
                    assert(all[0].0@.len() == n_layers(net) && all[0].1@.len() == n_layers(net));
                    assert(weight_gradients@ =~= sum_w(net, xs, ys, n));
                    assert(bias_gradients@ =~= sum_b(net, xs, ys, n));
                }
    //@end
    //@endbody
}
}
//@endunit

// ---- the whole of Network::learn: epoch loop, histories and early stopping (C13) around the verified epoch region (C04) -------------
pub uninterp spec fn with_training(n: Network, on: bool) -> Network;
pub uninterp spec fn validate_of(n: Network, xs: Seq<&Tensor>, ys: Seq<&Tensor>, tol: f32) -> (f32, f32);
pub uninterp spec fn chunks_of<'a>(xs: Seq<&'a Tensor>, ys: Seq<&'a Tensor>, batch: usize) -> Seq<(&'a [&'a Tensor], &'a [&'a Tensor])>;
impl Network {
    // ASSUMED for the two flag-setting statement regions of learn (C09 decides what they do to the flags; they touch nothing else)
    #[verifier::external_body]
    fn set_training(&mut self, on: bool) ensures *final(self) == with_training(*old(self), on), n_layers(*final(self)) == n_layers(*old(self)) { }
    // ASSUMED: validate() returns a function of the network and the data and leaves the network as it found it (C09: flags restored; C12: what it returns)
    #[verifier::external_body]
    pub fn validate(&mut self, inputs: &[&Tensor], targets: &[&Tensor], tol: f32) -> (r: (f32, f32))
        ensures r == validate_of(*old(self), inputs@, targets@, tol), *final(self) == *old(self)
    { unimplemented!() }
}
// ASSUMED for the group-splitting statement (bounded Kani harness c04_batches_partition on the verbatim statement): no empty group
#[verifier::external_body]
fn chunk_pairs<'a>(inputs: &'a Vec<&'a Tensor>, targets: &'a Vec<&'a Tensor>, batch: usize) -> (r: Vec<(&'a [&'a Tensor], &'a [&'a Tensor])>)
    ensures r@ == chunks_of(inputs@, targets@, batch), forall|k: int| 0 <= k < r@.len() ==> (#[trigger] r@[k]).0@.len() >= 1 && r@[k].1@.len() >= 1
{ unimplemented!() }

pub open spec fn fle(a: f32, b: f32) -> bool { a.partial_cmp_spec(&b) == Some(core::cmp::Ordering::Less) || a.partial_cmp_spec(&b) == Some(core::cmp::Ordering::Equal) }
// non-NaN floats are totally ordered: not (a <= b) is a > b  (IEEE-754; also put to CBMC over all bit patterns, harness f1_total_order)
pub broadcast axiom fn f32_total_order(a: f32, b: f32)
    requires !f32_is_nan_spec(a), !f32_is_nan_spec(b)
    ensures #[trigger] fle(a, b) <==> !fgt(a, b);

/// the network after e full epochs (step number of epoch t is t), groups walked in order every time
pub open spec fn after_epochs(net: Network, bs: Seq<(&[&Tensor], &[&Tensor])>, e: int) -> Network
    decreases e
{ if e <= 0 { net } else { after_groups(after_epochs(net, bs, e - 1), e as i32, bs, bs.len() as int) } }
pub open spec fn train_loss_at(net: Network, bs: Seq<(&[&Tensor], &[&Tensor])>, t: int) -> f32 {
    fdiv(loss_sum(after_epochs(net, bs, t), (t + 1) as i32, bs, bs.len() as int), usize_as_f32_spec(bs.len() as usize))
}
/// property C13: more than `tol` epochs have run and the validation loss strictly increased throughout the last `tol` recorded epochs
pub open spec fn should_stop(val: Seq<f32>, e: int, tol: int) -> bool {
    e > tol && forall|k: int| e - tol <= k < e - 1 ==> fgt(#[trigger] val[k + 1], val[k])
}

proof fn lemma_stop(val: Seq<f32>, hist: Seq<&f32>, e: int, th: int)
    requires 1 <= th < e, e == val.len(), hist.len() == th,
        forall|q: int| 0 <= q < th ==> *(#[trigger] hist[q]) == val[e - 1 - q],
        forall|t: int| 0 <= t < e ==> !f32_is_nan_spec(#[trigger] val[t]),
    ensures (forall|q: int| 0 <= q < th - 1 ==> !fle(*(#[trigger] hist[q]), *hist[q + 1])) <==> should_stop(val, e, th)
{
    broadcast use f32_total_order;
    if forall|q: int| 0 <= q < th - 1 ==> !fle(*(#[trigger] hist[q]), *hist[q + 1]) {
        assert forall|k: int| e - th <= k < e - 1 implies fgt(#[trigger] val[k + 1], val[k]) by {
            let q = e - 2 - k;
            assert(!fle(*hist[q], *hist[q + 1]));
            assert(*hist[q] == val[k + 1] && *hist[q + 1] == val[k]);
            assert(fle(val[k + 1], val[k]) <==> !fgt(val[k + 1], val[k]));
        }
    }
    if should_stop(val, e, th) {
        assert forall|q: int| 0 <= q < th - 1 implies !fle(*(#[trigger] hist[q]), *hist[q + 1]) by {
            let k = e - 2 - q;
            assert(fgt(val[k + 1], val[k]));
            assert(*hist[q] == val[k + 1] && *hist[q + 1] == val[k]);
            assert(fle(val[k + 1], val[k]) <==> !fgt(val[k + 1], val[k]));
        }
    }
}

proof fn lemma_stop_prefix(v1: Seq<f32>, v2: Seq<f32>, e: int, th: int)
    requires e <= v1.len(), e <= v2.len(), forall|k: int| 0 <= k < e ==> v1[k] == v2[k], th >= 1
    ensures should_stop(v1, e, th) == should_stop(v2, e, th)
{
    if e > th {
        if should_stop(v1, e, th) { assert forall|k: int| e - th <= k < e - 1 implies fgt(#[trigger] v2[k + 1], v2[k]) by { assert(fgt(v1[k + 1], v1[k])); } }
        if should_stop(v2, e, th) { assert forall|k: int| e - th <= k < e - 1 implies fgt(#[trigger] v1[k + 1], v1[k]) by { assert(fgt(v2[k + 1], v2[k])); } }
    }
}

//@def LEARN_CTX
                1 <= epochs < 0x7fff_ffff, bs == batches@, n_layers(*self) >= 1,
                forall|k: int| 0 <= k < batches@.len() ==> (#[trigger] batches@[k]).0@.len() >= 1 && batches@[k].1@.len() >= 1,
                threshold == (match validation { Some(v) => Some(v.2), None => None::<i32> }),
                validation is Some ==> validation->Some_0.2 >= 1,
                forall|m: Network| validation is Some ==> !f32_is_nan_spec(#[trigger] validate_of(m, validation->Some_0.0@, validation->Some_0.1@, 1e-6f32).0),
//@end
//@def HISTORIES
                train_loss@.len() == done, *self == after_epochs(net1, bs, done),
                forall|t: int| 0 <= t < done ==> #[trigger] train_loss@[t] == train_loss_at(net1, bs, t), //@ob one_training_loss_per_epoch.inv
                validation is Some ==> val_loss@.len() == done && val_acc@.len() == done,
                validation is None ==> val_loss@.len() == 0 && val_acc@.len() == 0,
                forall|t: int| validation is Some && 0 <= t < done ==> #[trigger] val_loss@[t] == validate_of(after_epochs(net1, bs, t + 1), validation->Some_0.0@, validation->Some_0.1@, 1e-6f32).0, //@ob validation_entries.inv
                forall|t: int| validation is Some && 0 <= t < done ==> #[trigger] val_acc@[t] == validate_of(after_epochs(net1, bs, t + 1), validation->Some_0.0@, validation->Some_0.1@, 1e-6f32).1, //@ob validation_entries.inv
//@end

//@unit learn.whole prop=C13,C04 search=learn.schedule
impl Network {
pub fn learn(
    &mut self,
    inputs: &Vec<&tensor::Tensor>,
    targets: &Vec<&tensor::Tensor>,
    validation: Option<(&Vec<&tensor::Tensor>, &Vec<&tensor::Tensor>, i32)>,
    batch: usize,
    epochs: i32,
    print: Option<i32>,
) -> (r: (Vec<f32>, Vec<f32>, Vec<f32>))
    requires
        1 <= epochs < 0x7fff_ffff,
        n_layers(*old(self)) >= 1,
        // C13's quantifier: tolerances >= 1, validation-loss trajectories of real numbers (no NaN)
        validation is Some ==> validation->Some_0.2 >= 1,
        forall|m: Network| validation is Some ==> !f32_is_nan_spec(#[trigger] validate_of(m, validation->Some_0.0@, validation->Some_0.1@, 1e-6f32).0),
        //@requires-extra
    ensures
        // one training-loss entry per epoch actually run (C13) - and each is the mean of the group means of that epoch (C04)
        1 <= r.0@.len() <= epochs, //@ob between_one_and_the_requested_epochs
        forall|t: int| 0 <= t < r.0@.len() ==> #[trigger] r.0@[t] == train_loss_at(with_training(*old(self), true), chunks_of(inputs@, targets@, batch), t), //@ob one_training_loss_per_epoch
        // exactly as many validation entries, none without validation data
        validation is Some ==> r.1@.len() == r.0@.len() && r.2@.len() == r.0@.len(), //@ob as_many_validation_entries
        validation is None ==> r.1@.len() == 0 && r.2@.len() == 0 && r.0@.len() == epochs, //@ob without_validation_all_epochs_run
        // stops early only if the predicate holds, and never runs past the first epoch at which it holds
        validation is Some && r.0@.len() < epochs ==> should_stop(r.1@, r.0@.len() as int, validation->Some_0.2 as int), //@ob stops_early_only_if_increasing
        forall|e: int| validation is Some && 1 <= e < r.0@.len() ==> !should_stop(r.1@, e, validation->Some_0.2 as int), //@ob never_continues_past_the_first_stop
        // the network: after every epoch run, steps numbered by the epoch (C04), dropout flags off again
        *final(self) == with_training(after_epochs(with_training(*old(self), true), chunks_of(inputs@, targets@, batch), r.0@.len() as int), false), //@ob epochs_numbered_from_one
{
    broadcast use {f32_total};
    proof { f32_obeys(); }
    //@body file=src/network.rs impl=Network fn=learn part=whole rewrites=R13,R30 loops=3
    //@outline unit=learn.epoch call="self.learn_epoch(&batches, epoch, &mut train_loss);"
    //@assume-region /self\.layers\.iter_mut\(\)\.for_each\(\|layer\| match layer \{/../\}\);/ call="self.set_training(true);" why="sets the training flag of every layer (C09's regions), touches nothing else"
    //@assume-region /for layer in &mut self\.layers \{/../for layer in &mut self\.layers \{/ call="self.set_training(false);" why="clears the training flag of every layer (C09's regions), touches nothing else"
    //@assume-region /let batches: Vec</../^\s*\.collect\(\);/ call="let batches = chunk_pairs(inputs, targets, batch);" why="ordered split into consecutive groups (bounded Kani harness c04_batches_partition); only non-emptiness of the groups is used"
    //@skip /if let Some\(print\) = print \{/../if let Some\(print\) = print \{/ #1
    //@skip /if let Some\(print\) = print \{/../if let Some\(print\) = print \{/ #2
    //@skip /println!\("Validation loss has increased/../println!/
    //@type train_loss = Vec<f32>
    //@type val_loss = Vec<f32>
    //@type val_acc = Vec<f32>
    //@after /let batches = chunk_pairs/
        let ghost net1 = *self;
        let ghost bs = batches@;
    //@end
    //@loop 1
            invariant_except_break
                train_loss@.len() == epoch - 1, *self == after_epochs(net1, bs, epoch - 1),
                forall|t: int| 0 <= t < epoch - 1 ==> #[trigger] train_loss@[t] == train_loss_at(net1, bs, t),
                validation is Some ==> val_loss@.len() == epoch - 1 && val_acc@.len() == epoch - 1,
                validation is None ==> val_loss@.len() == 0 && val_acc@.len() == 0,
                forall|t: int| 0 <= t < val_loss@.len() ==> !f32_is_nan_spec(#[trigger] val_loss@[t]),
                forall|e: int| validation is Some && 1 <= e <= epoch - 1 ==> !should_stop(val_loss@, e, validation->Some_0.2 as int),
            invariant
                ${LEARN_CTX}
            ensures
                1 <= train_loss@.len() <= epochs, //@ob between_one_and_the_requested_epochs.inv
                *self == after_epochs(net1, bs, train_loss@.len() as int), //@ob epochs_numbered_from_one.inv
                forall|t: int| 0 <= t < train_loss@.len() ==> #[trigger] train_loss@[t] == train_loss_at(net1, bs, t), //@ob one_training_loss_per_epoch.inv
                validation is Some ==> val_loss@.len() == train_loss@.len() && val_acc@.len() == train_loss@.len(), //@ob as_many_validation_entries.inv
                validation is None ==> val_loss@.len() == 0 && val_acc@.len() == 0 && train_loss@.len() == epochs, //@ob without_validation_all_epochs_run.inv
                validation is Some && train_loss@.len() < epochs ==> should_stop(val_loss@, train_loss@.len() as int, validation->Some_0.2 as int), //@ob stops_early_only_if_increasing.inv
                forall|e: int| validation is Some && 1 <= e < train_loss@.len() ==> !should_stop(val_loss@, e, validation->Some_0.2 as int), //@ob never_continues_past_the_first_stop.inv
    //@end
    //@before /if history\[i\] /
                        proof { f32_obeys(); }
    //@end
    //@before /self\.learn_epoch\(/
            let ghost vl0 = val_loss@;
    //@end
    //@before /if let Some\(threshold\) = threshold \{/
            proof {
                if validation is Some {
                    assert forall|e: int| 1 <= e <= epoch - 1 implies !should_stop(val_loss@, e, validation->Some_0.2 as int) by {
                        lemma_stop_prefix(vl0, val_loss@, e, validation->Some_0.2 as int);
                    }
                }
            }
    //@end
    //@before /if increasing \{/
                    proof {
                        lemma_stop(val_loss@, history@, epoch as int, threshold as int);
                    }
    //@end
    //@loop 2
            invariant
                __n == threshold as usize, threshold >= 1, epoch > threshold, val_loss@.len() == epoch, history@.len() == __r,
                forall|q: int| 0 <= q < __r ==> *(#[trigger] history@[q]) == val_loss@[epoch - 1 - q],
    //@end
    //@loop 3
            invariant_except_break
                increasing, forall|q: int| 0 <= q < i ==> !fle(*(#[trigger] history@[q]), *history@[q + 1]),
            invariant
                threshold >= 1, epoch > threshold, val_loss@.len() == epoch, history@.len() == threshold,
                forall|q: int| 0 <= q < threshold ==> *(#[trigger] history@[q]) == val_loss@[epoch - 1 - q],
            ensures
                increasing <==> (forall|q: int| 0 <= q < threshold - 1 ==> !fle(*(#[trigger] history@[q]), *history@[q + 1])),
    //@end
    //@endbody
}
}
//@endunit
} // verus!
fn main() {}
