//@include prelude.rs
//@include rowmajor.rs
verus! {
// The flat-input views of the three spatial layers (regions of their `forward`): a flat tensor is read as channels x H x W in row-major order, H and W
// being the layer's DECLARED input extents; a spatial tensor is taken as it is.  Real `Shape` / `Data` enums (R5: variants only).
pub mod tensor {
    pub enum Shape { Single(usize), Double(usize, usize), Triple(usize, usize, usize), Quadruple(usize, usize, usize, usize), Quintuple(usize, usize, usize, usize, usize), Nested(usize) }
    pub enum Data { Single(Vec<f32>), Double(Vec<Vec<f32>>), Triple(Vec<Vec<Vec<f32>>>), Quadruple(Vec<Vec<Vec<Vec<f32>>>>), Quintuple(Vec<Vec<Vec<Vec<Vec<(usize, usize)>>>>>) }
    pub struct Tensor { pub shape: Shape, pub data: Data }
}
use tensor::*;
pub struct Convolution { pub inputs: tensor::Shape }
pub struct Deconvolution { pub inputs: tensor::Shape }
pub struct Maxpool { pub inputs: tensor::Shape }

//@unit conv.flat_view prop=C02,C08
impl Convolution {
fn flat_view(&self, x: &tensor::Tensor) -> (r: (Vec<Vec<Vec<f32>>>, usize, usize))
    requires
        // valid configuration: the layer's declared input extents are positive and their product fits the machine word
        self.inputs is Triple ==> self.inputs->Triple_1 >= 1 && self.inputs->Triple_2 >= 1 && self.inputs->Triple_1 * self.inputs->Triple_2 < 0x4000_0000_0000_0000,
        // a spatial input is rectangular and non-empty
        x.data is Triple ==> x.data->Triple_0@.len() >= 1 && x.data->Triple_0@[0]@.len() >= 1,
        //@requires-extra
    ensures
        // a flat input is read in row-major order as (len / (H*W)) x H x W, H and W being the layer's declared input extents
        x.data is Single ==> ({
            let (h, w) = (self.inputs->Triple_1 as int, self.inputs->Triple_2 as int);
            let v = x.data->Single_0@;
            &&& rect3(r.0@, v.len() as int / (h * w), h, w)
            &&& forall|c: int, q: int, k: int| 0 <= c < v.len() as int / (h * w) && 0 <= q < h && 0 <= k < w ==> #[trigger] r.0@[c]@[q]@[k] == v[rm(c, q, k, h, w)]
            &&& r.1 == h && r.2 == w
        }), //@ob flat_input_is_the_row_major_view
        // a spatial input is taken as it is
        x.data is Triple ==> r.0@.len() == x.data->Triple_0@.len()
            && (forall|c: int, q: int, k: int| 0 <= c < r.0@.len() && 0 <= q < r.0@[c]@.len() && 0 <= k < r.0@[c]@[q]@.len() ==> #[trigger] r.0@[c]@[q]@[k] == x.data->Triple_0@[c]@[q]@[k])
            && r.1 == x.data->Triple_0@[0]@.len() && r.2 == x.data->Triple_0@[0]@[0]@.len(), //@ob spatial_input_unchanged
{
    let ghost hh = self.inputs->Triple_1 as int;
    let ghost ww = self.inputs->Triple_2 as int;
    //@body file=src/convolution.rs impl=Convolution fn=forward part="region:/let \(mut x, ih, iw\) = match &x\.data \{/../let \(mut x, ih, iw\) = match &x\.data \{/" rewrites=R13,R49 loops=3
    //@inline-after /let __cb: usize = w;/
        proof { assert(hh * ww >= 1) by (nonlinear_arith) requires hh >= 1, ww >= 1; }
    //@end
    //@inline-after /let __rn: usize = __ca \/ __cb;/
        proof {
            assert(hh * ww == ww * hh) by (nonlinear_arith);
            vstd::arithmetic::div_mod::lemma_div_by_multiple(hh, ww);
            assert(__rn == hh);
            vstd::arithmetic::div_mod::lemma_fundamental_div_mod(vector@.len() as int, hh * ww);
            assert(__cn * (hh * ww) <= vector@.len()) by (nonlinear_arith) requires vector@.len() == (hh * ww) * (vector@.len() as int / (hh * ww)) + vector@.len() as int % (hh * ww), vector@.len() as int % (hh * ww) >= 0, __cn == vector@.len() as int / (hh * ww);
            assert(__cn * hh * ww == __cn * (hh * ww)) by (nonlinear_arith);
        }
    //@end
    //@inline-after /for __r in 0\.\.__cb \{/
        proof {
            lemma_rm(__p as int, __q as int, __r as int, __cn as int, hh, ww);
            assert(__p * (hh * ww) + __q * ww + __r == rm(__p as int, __q as int, __r as int, hh, ww)) by (nonlinear_arith);
            assert(__p * (hh * ww) >= 0 && __q * ww >= 0) by (nonlinear_arith) requires __p >= 0, __q >= 0, hh >= 1, ww >= 1;
        }
    //@end
    //@loop 1
            invariant
                hh >= 1, ww >= 1, hh * ww < 0x4000_0000_0000_0000, __ca == hh * ww, __cb == ww, __rn == hh, __cn == vector@.len() as int / (hh * ww),
                __cn * hh * ww <= vector@.len(), vector@.len() <= usize::MAX, h == hh, w == ww,
                rect3(__o3@, __p as int, hh, ww),
                forall|c: int, q: int, k: int| 0 <= c < __p && 0 <= q < hh && 0 <= k < ww ==> #[trigger] __o3@[c]@[q]@[k] == vector@[rm(c, q, k, hh, ww)], //@ob row_major_view.inv
    //@end
    //@loop 2
            invariant
                hh >= 1, ww >= 1, hh * ww < 0x4000_0000_0000_0000, __ca == hh * ww, __cb == ww, __rn == hh, __cn == vector@.len() as int / (hh * ww),
                __cn * hh * ww <= vector@.len(), vector@.len() <= usize::MAX, __p < __cn,
                rect2(__o2@, __q as int, ww),
                forall|q: int, k: int| 0 <= q < __q && 0 <= k < ww ==> #[trigger] __o2@[q]@[k] == vector@[rm(__p as int, q, k, hh, ww)], //@ob row_major_view.inv
    //@end
    //@loop 3
            invariant
                hh >= 1, ww >= 1, hh * ww < 0x4000_0000_0000_0000, __ca == hh * ww, __cb == ww, __rn == hh, __cn == vector@.len() as int / (hh * ww),
                __cn * hh * ww <= vector@.len(), vector@.len() <= usize::MAX, __p < __cn, __q < hh,
                __o1@.len() == __r,
                forall|k: int| 0 <= k < __r ==> #[trigger] __o1@[k] == vector@[rm(__p as int, __q as int, k, hh, ww)], //@ob row_major_view.inv
    //@end
    //@endbody
    (x, ih, iw)
}
}
//@endunit

//@unit deconv.flat_view prop=C02,C08
impl Deconvolution {
fn flat_view(&self, x: &tensor::Tensor) -> (r: Vec<Vec<Vec<f32>>>)
    requires
        // valid configuration: the layer's declared input extents are positive and their product fits the machine word
        self.inputs is Triple ==> self.inputs->Triple_1 >= 1 && self.inputs->Triple_2 >= 1 && self.inputs->Triple_1 * self.inputs->Triple_2 < 0x4000_0000_0000_0000,
        // a spatial input is rectangular and non-empty
        x.data is Triple ==> x.data->Triple_0@.len() >= 1 && x.data->Triple_0@[0]@.len() >= 1,
        //@requires-extra
    ensures
        // a flat input is read in row-major order as (len / (H*W)) x H x W, H and W being the layer's declared input extents
        x.data is Single ==> ({
            let (h, w) = (self.inputs->Triple_1 as int, self.inputs->Triple_2 as int);
            let v = x.data->Single_0@;
            &&& rect3(r@, v.len() as int / (h * w), h, w)
            &&& forall|c: int, q: int, k: int| 0 <= c < v.len() as int / (h * w) && 0 <= q < h && 0 <= k < w ==> #[trigger] r@[c]@[q]@[k] == v[rm(c, q, k, h, w)]
            
        }), //@ob flat_input_is_the_row_major_view
        // a spatial input is taken as it is
        x.data is Triple ==> r@.len() == x.data->Triple_0@.len()
            && (forall|c: int, q: int, k: int| 0 <= c < r@.len() && 0 <= q < r@[c]@.len() && 0 <= k < r@[c]@[q]@.len() ==> #[trigger] r@[c]@[q]@[k] == x.data->Triple_0@[c]@[q]@[k])
            , //@ob spatial_input_unchanged
{
    let ghost hh = self.inputs->Triple_1 as int;
    let ghost ww = self.inputs->Triple_2 as int;
    //@body file=src/deconvolution.rs impl=Deconvolution fn=forward part="region:/let x = match &x\.data \{/../let x = match &x\.data \{/" rewrites=R13,R49 loops=3
    //@inline-after /let __cb: usize = w;/
        proof { assert(hh * ww >= 1) by (nonlinear_arith) requires hh >= 1, ww >= 1; }
    //@end
    //@inline-after /let __rn: usize = __ca \/ __cb;/
        proof {
            assert(hh * ww == ww * hh) by (nonlinear_arith);
            vstd::arithmetic::div_mod::lemma_div_by_multiple(hh, ww);
            assert(__rn == hh);
            vstd::arithmetic::div_mod::lemma_fundamental_div_mod(vector@.len() as int, hh * ww);
            assert(__cn * (hh * ww) <= vector@.len()) by (nonlinear_arith) requires vector@.len() == (hh * ww) * (vector@.len() as int / (hh * ww)) + vector@.len() as int % (hh * ww), vector@.len() as int % (hh * ww) >= 0, __cn == vector@.len() as int / (hh * ww);
            assert(__cn * hh * ww == __cn * (hh * ww)) by (nonlinear_arith);
        }
    //@end
    //@inline-after /for __r in 0\.\.__cb \{/
        proof {
            lemma_rm(__p as int, __q as int, __r as int, __cn as int, hh, ww);
            assert(__p * (hh * ww) + __q * ww + __r == rm(__p as int, __q as int, __r as int, hh, ww)) by (nonlinear_arith);
            assert(__p * (hh * ww) >= 0 && __q * ww >= 0) by (nonlinear_arith) requires __p >= 0, __q >= 0, hh >= 1, ww >= 1;
        }
    //@end
    //@loop 1
            invariant
                hh >= 1, ww >= 1, hh * ww < 0x4000_0000_0000_0000, __ca == hh * ww, __cb == ww, __rn == hh, __cn == vector@.len() as int / (hh * ww),
                __cn * hh * ww <= vector@.len(), vector@.len() <= usize::MAX, h == hh, w == ww,
                rect3(__o3@, __p as int, hh, ww),
                forall|c: int, q: int, k: int| 0 <= c < __p && 0 <= q < hh && 0 <= k < ww ==> #[trigger] __o3@[c]@[q]@[k] == vector@[rm(c, q, k, hh, ww)], //@ob row_major_view.inv
    //@end
    //@loop 2
            invariant
                hh >= 1, ww >= 1, hh * ww < 0x4000_0000_0000_0000, __ca == hh * ww, __cb == ww, __rn == hh, __cn == vector@.len() as int / (hh * ww),
                __cn * hh * ww <= vector@.len(), vector@.len() <= usize::MAX, __p < __cn,
                rect2(__o2@, __q as int, ww),
                forall|q: int, k: int| 0 <= q < __q && 0 <= k < ww ==> #[trigger] __o2@[q]@[k] == vector@[rm(__p as int, q, k, hh, ww)], //@ob row_major_view.inv
    //@end
    //@loop 3
            invariant
                hh >= 1, ww >= 1, hh * ww < 0x4000_0000_0000_0000, __ca == hh * ww, __cb == ww, __rn == hh, __cn == vector@.len() as int / (hh * ww),
                __cn * hh * ww <= vector@.len(), vector@.len() <= usize::MAX, __p < __cn, __q < hh,
                __o1@.len() == __r,
                forall|k: int| 0 <= k < __r ==> #[trigger] __o1@[k] == vector@[rm(__p as int, __q as int, k, hh, ww)], //@ob row_major_view.inv
    //@end
    //@endbody
    x
}
}
//@endunit

//@unit maxpool.flat_view prop=C02,C08
impl Maxpool {
fn flat_view(&self, x: &tensor::Tensor) -> (r: (Vec<Vec<Vec<f32>>>, usize, usize))
    requires
        // valid configuration: the layer's declared input extents are positive and their product fits the machine word
        self.inputs is Triple ==> self.inputs->Triple_1 >= 1 && self.inputs->Triple_2 >= 1 && self.inputs->Triple_1 * self.inputs->Triple_2 < 0x4000_0000_0000_0000,
        // a spatial input is rectangular and non-empty
        x.data is Triple ==> x.data->Triple_0@.len() >= 1 && x.data->Triple_0@[0]@.len() >= 1,
        //@requires-extra
    ensures
        // a flat input is read in row-major order as (len / (H*W)) x H x W, H and W being the layer's declared input extents
        x.data is Single ==> ({
            let (h, w) = (self.inputs->Triple_1 as int, self.inputs->Triple_2 as int);
            let v = x.data->Single_0@;
            &&& rect3(r.0@, v.len() as int / (h * w), h, w)
            &&& forall|c: int, q: int, k: int| 0 <= c < v.len() as int / (h * w) && 0 <= q < h && 0 <= k < w ==> #[trigger] r.0@[c]@[q]@[k] == v[rm(c, q, k, h, w)]
            &&& r.1 == h && r.2 == w
        }), //@ob flat_input_is_the_row_major_view
        // a spatial input is taken as it is
        x.data is Triple ==> r.0@.len() == x.data->Triple_0@.len()
            && (forall|c: int, q: int, k: int| 0 <= c < r.0@.len() && 0 <= q < r.0@[c]@.len() && 0 <= k < r.0@[c]@[q]@.len() ==> #[trigger] r.0@[c]@[q]@[k] == x.data->Triple_0@[c]@[q]@[k])
            && r.1 == x.data->Triple_0@[0]@.len() && r.2 == x.data->Triple_0@[0]@[0]@.len(), //@ob spatial_input_unchanged
{
    let ghost hh = self.inputs->Triple_1 as int;
    let ghost ww = self.inputs->Triple_2 as int;
    //@body file=src/maxpool.rs impl=Maxpool fn=forward part="region:/let \(x, ih, iw\) = match &x\.data \{/../let \(x, ih, iw\) = match &x\.data \{/" rewrites=R13,R49 loops=3
    //@inline-after /let __cb: usize = w;/
        proof { assert(hh * ww >= 1) by (nonlinear_arith) requires hh >= 1, ww >= 1; }
    //@end
    //@inline-after /let __rn: usize = __ca \/ __cb;/
        proof {
            assert(hh * ww == ww * hh) by (nonlinear_arith);
            vstd::arithmetic::div_mod::lemma_div_by_multiple(hh, ww);
            assert(__rn == hh);
            vstd::arithmetic::div_mod::lemma_fundamental_div_mod(vector@.len() as int, hh * ww);
            assert(__cn * (hh * ww) <= vector@.len()) by (nonlinear_arith) requires vector@.len() == (hh * ww) * (vector@.len() as int / (hh * ww)) + vector@.len() as int % (hh * ww), vector@.len() as int % (hh * ww) >= 0, __cn == vector@.len() as int / (hh * ww);
            assert(__cn * hh * ww == __cn * (hh * ww)) by (nonlinear_arith);
        }
    //@end
    //@inline-after /for __r in 0\.\.__cb \{/
        proof {
            lemma_rm(__p as int, __q as int, __r as int, __cn as int, hh, ww);
            assert(__p * (hh * ww) + __q * ww + __r == rm(__p as int, __q as int, __r as int, hh, ww)) by (nonlinear_arith);
            assert(__p * (hh * ww) >= 0 && __q * ww >= 0) by (nonlinear_arith) requires __p >= 0, __q >= 0, hh >= 1, ww >= 1;
        }
    //@end
    //@loop 1
            invariant
                hh >= 1, ww >= 1, hh * ww < 0x4000_0000_0000_0000, __ca == hh * ww, __cb == ww, __rn == hh, __cn == vector@.len() as int / (hh * ww),
                __cn * hh * ww <= vector@.len(), vector@.len() <= usize::MAX, h == hh, w == ww,
                rect3(__o3@, __p as int, hh, ww),
                forall|c: int, q: int, k: int| 0 <= c < __p && 0 <= q < hh && 0 <= k < ww ==> #[trigger] __o3@[c]@[q]@[k] == vector@[rm(c, q, k, hh, ww)], //@ob row_major_view.inv
    //@end
    //@loop 2
            invariant
                hh >= 1, ww >= 1, hh * ww < 0x4000_0000_0000_0000, __ca == hh * ww, __cb == ww, __rn == hh, __cn == vector@.len() as int / (hh * ww),
                __cn * hh * ww <= vector@.len(), vector@.len() <= usize::MAX, __p < __cn,
                rect2(__o2@, __q as int, ww),
                forall|q: int, k: int| 0 <= q < __q && 0 <= k < ww ==> #[trigger] __o2@[q]@[k] == vector@[rm(__p as int, q, k, hh, ww)], //@ob row_major_view.inv
    //@end
    //@loop 3
            invariant
                hh >= 1, ww >= 1, hh * ww < 0x4000_0000_0000_0000, __ca == hh * ww, __cb == ww, __rn == hh, __cn == vector@.len() as int / (hh * ww),
                __cn * hh * ww <= vector@.len(), vector@.len() <= usize::MAX, __p < __cn, __q < hh,
                __o1@.len() == __r,
                forall|k: int| 0 <= k < __r ==> #[trigger] __o1@[k] == vector@[rm(__p as int, __q as int, k, hh, ww)], //@ob row_major_view.inv
    //@end
    //@endbody
    (x, ih, iw)
}
}
//@endunit
} // verus!
fn main() {}
