//@include prelude.rs
use std::collections::HashMap;
verus! {
// R5: Network reduced to the two fields `connect` mentions; `Layer` is opaque here.
pub struct Layer {}
pub struct Network { pub layers: Vec<Layer>, pub connect: HashMap<usize, usize>, pub loopbacks: HashMap<usize, (usize, usize, bool)> }   // connect: {target -> source}
// what the forward / backward units (network.forward, network.backward.walk) require of the tables: source <= target < #layers
pub open spec fn connect_ok(n: Network) -> bool { forall|t: usize| #[trigger] n.connect@.contains_key(t) ==> n.connect@[t] <= t && t < n.layers@.len() }
pub open spec fn loopbacks_ok(n: Network) -> bool { forall|t: usize| #[trigger] n.loopbacks@.contains_key(t) ==> n.loopbacks@[t].0 <= t }

// The verified text is two regions of Network::connect: the index / duplicate guard and the final insert.  The element-count
// comparison between them (two `match`es over the layer kinds + assert_eq!) is NOT part of the unit (listed in the drops).

//@unit connect.no_discard prop=C16 search=connect.no_discard
impl Network {
fn connect_no_discard(&mut self, infrom: usize, into: usize)
    requires true,
        //@requires-extra
    ensures
        // if the call returns at all (rejecting it is permitted), every earlier mapping is still there, unchanged ...
        forall|t: usize| old(self).connect@.contains_key(t) ==> final(self).connect@.contains_key(t) && final(self).connect@[t] == old(self).connect@[t], //@ob earlier_kept
        // ... and the new one is recorded
        final(self).connect@.contains_key(into) && final(self).connect@[into] == infrom, //@ob recorded
        // the table stays valid (source <= target < number of layers): the precondition of the forward and backward units
        connect_ok(*old(self)) ==> connect_ok(*final(self)), //@ob table_stays_valid
        final(self).layers@ == old(self).layers@,
{
    broadcast use vstd::std_specs::hash::group_hash_axioms;
    //@body file=src/network.rs impl=Network fn=connect part="region:/if infrom > self\.layers\.len\(\) \|\| into >= self\.layers\.len\(\) \|\| infrom > into \{/../panic!\(.Skip connection already exists/" rewrites=R13 loops=0
    //@endbody
    //@body file=src/network.rs impl=Network fn=connect part="region:/self\.connect\.insert\(into, infrom\);/../self\.connect\.insert\(into, infrom\);/" loops=0
    //@endbody
}
}
//@endunit

//@unit connect.accepts_distinct prop=C16 search=connect.accepts_distinct
impl Network {
fn connect_accepts_distinct(&mut self, infrom: usize, into: usize)
    requires
        // a valid index pair ...
        infrom <= into < old(self).layers.len(),
        // ... whose source and target differ from every source and target connected so far
        !old(self).connect@.contains_key(into),
        forall|t: usize| old(self).connect@.contains_key(t) ==> old(self).connect@[t] != infrom,
        //@requires-extra
    ensures
        final(self).connect@.contains_key(into) && final(self).connect@[into] == infrom, //@ob recorded
        forall|t: usize| old(self).connect@.contains_key(t) ==> final(self).connect@.contains_key(t) && final(self).connect@[t] == old(self).connect@[t], //@ob earlier_kept
{
    broadcast use vstd::std_specs::hash::group_hash_axioms;
    //@body file=src/network.rs impl=Network fn=connect part="region:/if infrom > self\.layers\.len\(\) \|\| into >= self\.layers\.len\(\) \|\| infrom > into \{/../panic!\(.Skip connection already exists/" rewrites=R14 loops=0
    //@endbody
    //@body file=src/network.rs impl=Network fn=connect part="region:/self\.connect\.insert\(into, infrom\);/../self\.connect\.insert\(into, infrom\);/" loops=0
    //@endbody
}
}
//@endunit
//@unit loopback.table prop=C17
impl Network {
fn loopback_table(&mut self, outof: usize, into: usize, iterations: usize, inskips: bool)
    requires true,
        //@requires-extra
    ensures
        // if the call returns at all: the connection is recorded as given, no earlier one is replaced, and into <= outof
        final(self).loopbacks@.contains_key(outof) && final(self).loopbacks@[outof] == (into, iterations, inskips), //@ob recorded
        forall|t: usize| old(self).loopbacks@.contains_key(t) ==> final(self).loopbacks@.contains_key(t) && final(self).loopbacks@[t] == old(self).loopbacks@[t], //@ob earlier_kept
        into <= outof && into < old(self).layers@.len(), //@ob indices_validated
        loopbacks_ok(*old(self)) ==> loopbacks_ok(*final(self)), //@ob table_stays_valid
{
    broadcast use vstd::std_specs::hash::group_hash_axioms;
    //@body file=src/network.rs impl=Network fn=loopback part="region:/if outof > self\.layers\.len\(\) \|\| into >= self\.layers\.len\(\) \|\| outof < into \{/../panic!\(.Loop connection already exists/" rewrites=R13 loops=0
    //@endbody
    //@body file=src/network.rs impl=Network fn=loopback part="region:/self\.loopbacks\.insert\(outof, \(into, iterations, inskips\)\);/../self\.loopbacks\.insert\(/" loops=0
    //@endbody
}
}
//@endunit
} // verus!
fn main() {}
