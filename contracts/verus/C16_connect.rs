//@include prelude.rs
use std::collections::HashMap;
verus! {
// R5: Network reduced to the two fields `connect` mentions; `Layer` is opaque here.
pub struct Layer {}
pub struct Network { pub layers: Vec<Layer>, pub connect: HashMap<usize, usize> }   // connect: {target -> source}

// The verified text is two regions of Network::connect: the index / duplicate guard and the final insert.  The element-count
// comparison between them (two `match`es over the layer kinds + assert_eq!) is NOT part of the unit (listed in the drops).

//@unit connect.no_discard prop=C16 search=connect.no_discard
impl Network {
fn connect_no_discard(&mut self, infrom: usize, into: usize)
    requires true,
        //@requires-extra
    ensures
        // if the call returns at all (rejecting it is permitted), every earlier mapping is still there, unchanged ...
        forall|t: usize| old(self).connect@.contains_key(t) ==> final(self).connect@.contains_key(t) && final(self).connect@[t] == old(self).connect@[t], //@ob earlier_kept
        // ... and the new one is recorded
        final(self).connect@.contains_key(into) && final(self).connect@[into] == infrom, //@ob recorded
{
    broadcast use vstd::std_specs::hash::group_hash_axioms;
    //@body file=src/network.rs impl=Network fn=connect part="region:/if infrom > self\.layers\.len\(\) \|\| into >= self\.layers\.len\(\) \|\| infrom > into \{/../panic!\(.Skip connection already exists/" rewrites=R13 loops=0
    //@endbody
    //@body file=src/network.rs impl=Network fn=connect part="region:/self\.connect\.insert\(into, infrom\);/../self\.connect\.insert\(into, infrom\);/" loops=0
    //@endbody
}
}
//@endunit

//@unit connect.accepts_distinct prop=C16 search=connect.accepts_distinct
impl Network {
fn connect_accepts_distinct(&mut self, infrom: usize, into: usize)
    requires
        // a valid index pair ...
        infrom <= into < old(self).layers.len(),
        // ... whose source and target differ from every source and target connected so far
        !old(self).connect@.contains_key(into),
        forall|t: usize| old(self).connect@.contains_key(t) ==> old(self).connect@[t] != infrom,
        //@requires-extra
    ensures
        final(self).connect@.contains_key(into) && final(self).connect@[into] == infrom, //@ob recorded
        forall|t: usize| old(self).connect@.contains_key(t) ==> final(self).connect@.contains_key(t) && final(self).connect@[t] == old(self).connect@[t], //@ob earlier_kept
{
    broadcast use vstd::std_specs::hash::group_hash_axioms;
    //@body file=src/network.rs impl=Network fn=connect part="region:/if infrom > self\.layers\.len\(\) \|\| into >= self\.layers\.len\(\) \|\| infrom > into \{/../panic!\(.Skip connection already exists/" rewrites=R14 loops=0
    //@endbody
    //@body file=src/network.rs impl=Network fn=connect part="region:/self\.connect\.insert\(into, infrom\);/../self\.connect\.insert\(into, infrom\);/" loops=0
    //@endbody
}
}
//@endunit
} // verus!
fn main() {}
