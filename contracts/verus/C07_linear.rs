//@include prelude.rs
verus! {
// The identity activation (`Linear`: forward = the input, backward = ones of the input's shape) and the WHOLE `Tensor::ones` it relies on (also the soft-max arm of
// `Dense::backward`, C01 `dense_delta`).  Real enums (R5: variants only); `Clone` of a tensor / shape returns an equal value (A: derived).
pub mod tensor {
    use vstd::prelude::*;
    pub enum Shape { Single(usize), Double(usize, usize), Triple(usize, usize, usize), Quadruple(usize, usize, usize, usize), Quintuple(usize, usize, usize, usize, usize), Nested(usize) }
    pub enum Data { Single(Vec<f32>), Double(Vec<Vec<f32>>), Triple(Vec<Vec<Vec<f32>>>), Quadruple(Vec<Vec<Vec<Vec<f32>>>>), Quintuple(Vec<Vec<Vec<Vec<Vec<(usize, usize)>>>>>) }
    pub struct Tensor { pub shape: Shape, pub data: Data }
    impl Clone for Shape { #[verifier::external_body] fn clone(&self) -> (r: Self) ensures r == *self { unimplemented!() } }
    impl Clone for Tensor { #[verifier::external_body] fn clone(&self) -> (r: Self) ensures r == *self { unimplemented!() } }
    /// every entry is 1.0, the extents are the requested ones at every nesting level
    pub open spec fn row_1(r: Seq<f32>, n: usize) -> bool { r.len() == n && forall|k: int| 0 <= k < r.len() ==> #[trigger] r[k] == 1.0f32 }
    pub open spec fn mat_1(r: Seq<Vec<f32>>, a: usize, b: usize) -> bool { r.len() == a && forall|j: int| 0 <= j < r.len() ==> #[trigger] row_1(r[j]@, b) }
    pub open spec fn cube_1(r: Seq<Vec<Vec<f32>>>, a: usize, b: usize, c: usize) -> bool { r.len() == a && forall|i: int| 0 <= i < r.len() ==> #[trigger] mat_1(r[i]@, b, c) }
    pub open spec fn quad_1(r: Seq<Vec<Vec<Vec<f32>>>>, a: usize, b: usize, c: usize, d: usize) -> bool { r.len() == a && forall|i: int| 0 <= i < r.len() ==> #[trigger] cube_1(r[i]@, b, c, d) }
    pub open spec fn all_ones(r: Tensor, shape: Shape) -> bool {
        &&& r.shape == shape
        &&& shape is Single ==> r.data is Single && row_1(r.data->Single_0@, shape->Single_0)
        &&& shape is Double ==> r.data is Double && mat_1(r.data->Double_0@, shape->Double_0, shape->Double_1)
        &&& shape is Triple ==> r.data is Triple && cube_1(r.data->Triple_0@, shape->Triple_0, shape->Triple_1, shape->Triple_2)
        &&& shape is Quadruple ==> r.data is Quadruple && quad_1(r.data->Quadruple_0@, shape->Quadruple_0, shape->Quadruple_1, shape->Quadruple_2, shape->Quadruple_3)
    }

}
use tensor::*;
pub struct Linear {}

//@unit tensor.ones prop=C07,C01
impl Tensor {
pub fn ones(shape: Shape) -> (r: Self)
    requires
        // (`Quintuple` - max-pool indices - and `Nested` reach `panic!`)
        shape is Single || shape is Double || shape is Triple || shape is Quadruple,
        //@requires-extra
    ensures
        r.shape == shape, //@ob requested_shape_recorded
        shape is Single ==> r.data is Single && row_1(r.data->Single_0@, shape->Single_0), //@ob flat_all_ones
        shape is Double ==> r.data is Double && mat_1(r.data->Double_0@, shape->Double_0, shape->Double_1), //@ob matrix_all_ones
        shape is Triple ==> r.data is Triple && cube_1(r.data->Triple_0@, shape->Triple_0, shape->Triple_1, shape->Triple_2), //@ob cube_all_ones
        shape is Quadruple ==> r.data is Quadruple && quad_1(r.data->Quadruple_0@, shape->Quadruple_0, shape->Quadruple_1, shape->Quadruple_2, shape->Quadruple_3), //@ob quadruple_all_ones
{
    //@body file=src/tensor.rs impl=Tensor fn=ones part=whole rewrites=R1,R60 loops=6
    //@loop 1
            invariant __n_1@.len() == __r_1, forall|j: int| 0 <= j < __r_1 ==> #[trigger] row_1(__n_1@[j]@, columns), //@ob rows_so_far.inv
    //@end
    //@loop 2
            invariant __n_2@.len() == __r_2, forall|j: int| 0 <= j < __r_2 ==> #[trigger] mat_1(__n_2@[j]@, rows, columns), //@ob channels_so_far.inv
    //@end
    //@loop 3
            invariant __n_1@.len() == __r_1, forall|j: int| 0 <= j < __r_1 ==> #[trigger] row_1(__n_1@[j]@, columns), //@ob rows_so_far.inv
    //@end
    //@loop 4
            invariant __n_3@.len() == __r_3, forall|j: int| 0 <= j < __r_3 ==> #[trigger] cube_1(__n_3@[j]@, filters, rows, columns), //@ob outer_so_far.inv
    //@end
    //@loop 5
            invariant __n_2@.len() == __r_2, forall|j: int| 0 <= j < __r_2 ==> #[trigger] mat_1(__n_2@[j]@, rows, columns), //@ob channels_so_far.inv
    //@end
    //@loop 6
            invariant __n_1@.len() == __r_1, forall|j: int| 0 <= j < __r_1 ==> #[trigger] row_1(__n_1@[j]@, columns), //@ob rows_so_far.inv
    //@end
    //@endbody
}
}
//@endunit

//@unit linear.forward.whole prop=C07
impl Linear {
pub fn forward(&self, input: &tensor::Tensor) -> (r: tensor::Tensor)
    requires true,
        //@requires-extra
    ensures r == *input, //@ob identity
{
    //@body file=src/activation.rs impl=Linear fn=forward part=whole loops=0
    //@endbody
}
}
//@endunit

//@unit linear.backward.whole prop=C07
impl Linear {
pub fn backward(&self, input: &tensor::Tensor) -> (r: tensor::Tensor)
    requires
        input.shape is Single || input.shape is Double || input.shape is Triple || input.shape is Quadruple,
        //@requires-extra
    ensures all_ones(r, input.shape), //@ob derivative_of_the_identity_is_one_at_every_position_of_the_inputs_shape
{
    //@body file=src/activation.rs impl=Linear fn=backward part=whole loops=0
    //@endbody
}
}
//@endunit
} // verus!
fn main() {}
