//@include prelude.rs
verus! {
// ---- zero padding (property C02: "zero-padded ... cross-correlation"): the input is placed centred in a field of zeros ----
pub open spec fn pad_off(into: int, have: int) -> int { if into > have { (into - have) / 2 } else { 0 } }
pub open spec fn imin(a: int, b: int) -> int { if a < b { a } else { b } }
pub open spec fn pad_cell(data: Seq<Vec<Vec<f32>>>, into: (usize, usize), c: int, y: int, x: int) -> f32 {
    let ih = data[0]@.len() as int;
    let iw = data[0]@[0]@.len() as int;
    let dh = pad_off(into.0 as int, ih);
    let dw = pad_off(into.1 as int, iw);
    if dh <= y < dh + imin(ih, into.0 as int) && dw <= x < dw + imin(iw, into.1 as int) { data[c]@[y - dh]@[x - dw] } else { 0.0f32 }
}

// channel c after `rows` input rows have been copied, the row in progress up to column `cols`
pub open spec fn part_cell(data: Seq<Vec<Vec<f32>>>, into: (usize, usize), c: int, y: int, x: int, rows: int, cols: int) -> f32 {
    let ih = data[0]@.len() as int;
    let iw = data[0]@[0]@.len() as int;
    let dh = pad_off(into.0 as int, ih);
    let dw = pad_off(into.1 as int, iw);
    if dh <= y < dh + rows && dw <= x < dw + imin(iw, into.1 as int) { data[c]@[y - dh]@[x - dw] }
    else if y == dh + rows && dw <= x < dw + cols { data[c]@[y - dh]@[x - dw] }
    else { 0.0f32 }
}

//@def BASE
            c < data@.len(), channel@ == data@[c as int]@,
            data@.len() >= 1, data@[0]@.len() >= 1, data@[0]@[0]@.len() >= 1,
            rect3(data@, data@.len() as int, data@[0]@.len() as int, data@[0]@[0]@.len() as int),
            dh == pad_off(into.0 as int, data@[0]@.len() as int), dw == pad_off(into.1 as int, data@[0]@[0]@.len() as int),
            rect3(padded@, data@.len() as int, into.0 as int, into.1 as int),
            forall|cc: int, y: int, x: int| 0 <= cc < c && 0 <= y < into.0 && 0 <= x < into.1 ==> #[trigger] padded@[cc]@[y]@[x] == pad_cell(data@, into, cc, y, x),
            forall|cc: int, y: int, x: int| c < cc < data@.len() && 0 <= y < into.0 && 0 <= x < into.1 ==> #[trigger] padded@[cc]@[y]@[x] == 0.0f32,
//@end

//@unit pad3d prop=C02,C08
fn pad3d(data: &Vec<Vec<Vec<f32>>>, into: (usize, usize)) -> (padded: Vec<Vec<Vec<f32>>>)
    requires
        data@.len() >= 1, data@[0]@.len() >= 1, data@[0]@[0]@.len() >= 1,
        rect3(data@, data@.len() as int, data@[0]@.len() as int, data@[0]@[0]@.len() as int),
        //@requires-extra
    ensures
        rect3(padded@, data@.len() as int, into.0 as int, into.1 as int), //@ob shape
        forall|c: int, y: int, x: int| 0 <= c < data@.len() && 0 <= y < into.0 && 0 <= x < into.1 ==> #[trigger] padded@[c]@[y]@[x] == pad_cell(data@, into, c, y, x), //@ob centred_zero_padding
{
    //@body file=src/tensor.rs fn=pad3d part=whole rewrites=R12 loops=3
    //@loop 1
        invariant
            data@.len() >= 1, data@[0]@.len() >= 1, data@[0]@[0]@.len() >= 1,
            rect3(data@, data@.len() as int, data@[0]@.len() as int, data@[0]@[0]@.len() as int),
            dh == pad_off(into.0 as int, data@[0]@.len() as int), dw == pad_off(into.1 as int, data@[0]@[0]@.len() as int),
            rect3(padded@, data@.len() as int, into.0 as int, into.1 as int),
            forall|cc: int, y: int, x: int| 0 <= cc < c && 0 <= y < into.0 && 0 <= x < into.1 ==> #[trigger] padded@[cc]@[y]@[x] == pad_cell(data@, into, cc, y, x),
            forall|cc: int, y: int, x: int| c <= cc < data@.len() && 0 <= y < into.0 && 0 <= x < into.1 ==> #[trigger] padded@[cc]@[y]@[x] == 0.0f32,
    //@end
    //@loop 2
        invariant_except_break
            h <= into.0,
            forall|y: int, x: int| 0 <= y < into.0 && 0 <= x < into.1 ==> #[trigger] padded@[c as int]@[y]@[x] == part_cell(data@, into, c as int, y, x, h as int, 0),
        invariant
            ${BASE}
        ensures
            forall|y: int, x: int| 0 <= y < into.0 && 0 <= x < into.1 ==> #[trigger] padded@[c as int]@[y]@[x] == pad_cell(data@, into, c as int, y, x),
    //@end
    //@loop 3
        invariant_except_break
            w <= into.1,
            forall|y: int, x: int| 0 <= y < into.0 && 0 <= x < into.1 ==> #[trigger] padded@[c as int]@[y]@[x] == part_cell(data@, into, c as int, y, x, h as int, w as int),
        invariant
            ${BASE}
            h < data@[0]@.len(), h < into.0, height@ == data@[c as int]@[h as int]@,
        ensures
            forall|y: int, x: int| 0 <= y < into.0 && 0 <= x < into.1 ==> #[trigger] padded@[c as int]@[y]@[x] == part_cell(data@, into, c as int, y, x, h as int + 1, 0),
    //@end
    //@endbody
}
//@endunit
} // verus!
fn main() {}
