//@include prelude.rs
verus! {
// The free function `hadamard3d` (src/tensor.rs; used by the spatial backward passes for delta = f'(out) (.) gradient * scale): whole function, every size.
pub open spec fn mn(a: nat, b: nat) -> nat { if a < b { a } else { b } }
pub open spec fn h_row(r: Seq<f32>, a: Seq<f32>, b: Seq<f32>, s: f32) -> bool {
    r.len() == mn(a.len(), b.len()) && forall|k: int| 0 <= k < r.len() ==> #[trigger] r[k] == fmul(fmul(a[k], b[k]), s) }
pub open spec fn h_mat(r: Seq<Vec<f32>>, a: Seq<Vec<f32>>, b: Seq<Vec<f32>>, s: f32) -> bool {
    r.len() == mn(a.len(), b.len()) && forall|j: int| 0 <= j < r.len() ==> #[trigger] h_row(r[j]@, a[j]@, b[j]@, s) }
pub open spec fn h_cube(r: Seq<Vec<Vec<f32>>>, a: Seq<Vec<Vec<f32>>>, b: Seq<Vec<Vec<f32>>>, s: f32) -> bool {
    r.len() == mn(a.len(), b.len()) && forall|i: int| 0 <= i < r.len() ==> #[trigger] h_mat(r[i]@, a[i]@, b[i]@, s) }
pub broadcast axiom fn f32_mul_total_ref(a: &f32, b: &f32) ensures #[trigger] a.mul_req(b);
pub axiom fn f32_obeys_ref() ensures <&f32 as MulSpec<&f32>>::obeys_mul_spec();

//@unit hadamard3d.whole prop=C15,C01
pub fn hadamard3d(
    ten1: &Vec<Vec<Vec<f32>>>,
    ten2: &Vec<Vec<Vec<f32>>>,
    scalar: f32,
) -> (r: Vec<Vec<Vec<f32>>>)
    requires true,
        //@requires-extra
    ensures h_cube(r@, ten1@, ten2@, scalar), //@ob every_cell_is_the_scaled_product_of_the_cells_at_the_same_nested_index
{
    //@body file=src/tensor.rs fn=hadamard3d part=whole rewrites=R1,R54 loops=3
    //@loop 1
            invariant
                __m_a@.len() == __q_a,
                forall|i: int| 0 <= i < __q_a ==> #[trigger] h_mat(__m_a@[i]@, ten1@[i]@, ten2@[i]@, scalar), //@ob channels_in_index_order.inv
    //@end
    //@loop 2
            invariant
                __m_c@.len() == __q_c,
                forall|j: int| 0 <= j < __q_c ==> #[trigger] h_row(__m_c@[j]@, a@[j]@, b@[j]@, scalar), //@ob rows_in_index_order.inv
    //@end
    //@loop 3
            invariant
                __m_e@.len() == __q_e,
                forall|k: int| 0 <= k < __q_e ==> #[trigger] __m_e@[k] == fmul(fmul(c@[k], d@[k]), scalar), //@ob cells_in_index_order.inv
    //@end
    //@inline-after /c\.len\(\) < d\.len\(\) \{ c\.len\(\) \} else \{ d\.len\(\) \}\) \{/
        broadcast use {f32_total}; broadcast use f32_mul_total_ref; proof { f32_obeys(); f32_obeys_ref(); }
    //@end
    //@endbody
}
//@endunit
} // verus!
fn main() {}
