//@include prelude.rs
verus! {
// `Feedback::parameters` (whole function): the reported count is the sum, over the FIRST `coupled.len()` layers, of each layer's own count.  With the coupling table proved for
// Feedback::create (unit feedback.coupled: one group per block layer, group l = { l + i*length }) layer l is the representative of group l, so every group of tied repetitions
// is counted exactly once.  R5: the layer structs are opaque, their own `parameters()` are functions of the layer (dense: weights + bias entries; convolution: kernel entries).
pub mod dense { use vstd::prelude::*; #[verifier::external_body] pub struct Dense { _p: u8 }
    pub uninterp spec fn count(d: Dense) -> usize;
    impl Dense { #[verifier::external_body] pub fn parameters(&self) -> (r: usize) ensures r == count(*self) { 0 } } }
pub mod convolution { use vstd::prelude::*; #[verifier::external_body] pub struct Convolution { _p: u8 }
    pub uninterp spec fn count(d: Convolution) -> usize;
    impl Convolution { #[verifier::external_body] pub fn parameters(&self) -> (r: usize) ensures r == count(*self) { 0 } } }
pub mod deconvolution { use vstd::prelude::*; #[verifier::external_body] pub struct Deconvolution { _p: u8 }
    pub uninterp spec fn count(d: Deconvolution) -> usize;
    impl Deconvolution { #[verifier::external_body] pub fn parameters(&self) -> (r: usize) ensures r == count(*self) { 0 } } }
pub mod maxpool { #[verifier::external_body] pub struct Maxpool { _p: u8 } }
pub mod network {
    pub enum Layer {
        Dense(super::dense::Dense),
        Convolution(super::convolution::Convolution),
        Deconvolution(super::deconvolution::Deconvolution),
        Maxpool(super::maxpool::Maxpool),
        Feedback(super::Feedback),
    }
}
pub struct Feedback { pub layers: Vec<network::Layer>, pub coupled: Vec<Vec<usize>> }
pub open spec fn own(l: network::Layer) -> int {
    match l {
        network::Layer::Dense(d) => dense::count(d) as int,
        network::Layer::Convolution(c) => convolution::count(c) as int,
        network::Layer::Deconvolution(c) => deconvolution::count(c) as int,
        _ => 0,
    }
}
/// the parameters of the first k layers (one per group of tied repetitions when k = number of groups)
pub open spec fn first(ls: Seq<network::Layer>, k: int) -> int decreases k { if k <= 0 { 0 } else { first(ls, k - 1) + own(ls[k - 1]) } }

//@unit feedback.parameters prop=C10
impl Feedback {
pub fn parameters(&self) -> (r: usize)
    requires
        self.coupled@.len() <= self.layers@.len(),
        forall|k: int| 0 <= k < self.coupled@.len() ==> !(#[trigger] self.layers@[k] is Feedback),     // (nested blocks reach `panic!`)
        first(self.layers@, self.coupled@.len() as int) <= usize::MAX,                                   // (a larger total overflows: debug panic / release wrap - not claimed)
        //@requires-extra
    ensures
        r == first(self.layers@, self.coupled@.len() as int), //@ob one_count_per_group_of_tied_repetitions
{
    //@body file=src/feedback.rs impl=Feedback fn=parameters part=whole loops=1
    //@loop 1
            invariant
                parameters == first(self.layers@, idx as int), //@ob running_total.inv
                first(self.layers@, self.coupled@.len() as int) <= usize::MAX, self.coupled@.len() <= self.layers@.len(),
                forall|k: int| 0 <= k < self.coupled@.len() ==> !(#[trigger] self.layers@[k] is Feedback),
    //@end
    //@inline-after /for idx in 0\.\.self\.coupled\.len\(\)[^{]*\{/
        proof { lemma_first_mono(self.layers@, idx as int + 1, self.coupled@.len() as int); }
    //@end
    //@endbody
}
}
//@endunit
pub proof fn lemma_first_mono(ls: Seq<network::Layer>, a: int, b: int)
    requires 0 <= a <= b ensures first(ls, a) <= first(ls, b), first(ls, a) >= 0 decreases b
{ if a < b { lemma_first_mono(ls, a, b - 1); } else if a > 0 { lemma_first_mono(ls, a - 1, a - 1); } }
} // verus!
fn main() {}
