//@include prelude.rs
verus! {
// R5: layer structs reduced to the training flag; a feedback block's flag state is abstract (`fb_mode`), set by its
// `training` method whose own body is the first unit below.
pub mod dense { pub struct Dense { pub training: bool } }
pub mod convolution { pub struct Convolution { pub training: bool } }
pub mod deconvolution { pub struct Deconvolution { pub training: bool } }
pub mod maxpool { pub struct Maxpool { pub flatten: bool } }
pub mod feedback {
    use vstd::prelude::*;
    pub struct Feedback { pub flatten: bool, pub mode: Ghost<bool> }
    pub uninterp spec fn fb_mode(f: Feedback) -> bool;
    impl Feedback {
        #[verifier::external_body]
        pub fn training(&mut self, train: bool) ensures fb_mode(*final(self)) == train { }
    }
}
pub mod network {
    pub enum Layer {
        Dense(super::dense::Dense),
        Convolution(super::convolution::Convolution),
        Deconvolution(super::deconvolution::Deconvolution),
        Maxpool(super::maxpool::Maxpool),
        Feedback(super::feedback::Feedback),
    }
}
use network::Layer;
pub struct Network {}
pub struct FeedbackBlock {}

/// does this layer apply dropout in its forward pass?  (max-pool has no dropout)
pub open spec fn trains(l: Layer) -> bool {
    match l {
        Layer::Dense(d) => d.training,
        Layer::Convolution(c) => c.training,
        Layer::Deconvolution(c) => c.training,
        Layer::Maxpool(_) => false,
        Layer::Feedback(f) => feedback::fb_mode(f),
    }
}
pub open spec fn has_flag(l: Layer) -> bool { !(l is Maxpool) }

//@unit feedback.training.elem prop=C09
// Feedback::training(train): body of the closure applied to every layer of the block
impl FeedbackBlock {
fn training_elem(layer: &mut network::Layer, train: bool)
    requires true,
        //@requires-extra
    ensures has_flag(*final(layer)) ==> trains(*final(layer)) == train, //@ob every_inner_flag_follows_the_argument
{
    //@body file=src/feedback.rs impl=Feedback fn=training part=closure:1 params="layer" rewrites=R13 loops=0
    //@endbody
}
}
//@endunit

//@unit learn.entry.elem prop=C09
impl Network {
fn learn_entry_elem(layer: &mut Layer)
    requires true,
        //@requires-extra
    ensures has_flag(*final(layer)) ==> trains(*final(layer)), //@ob training_mode_on_entry
{
    //@body file=src/network.rs impl=Network fn=learn part=closure:1 params="layer" loops=0
    //@endbody
}
}
//@endunit

//@unit learn.exit.elem prop=C09
impl Network {
fn learn_exit_elem(layer: &mut Layer)
    requires true,
        //@requires-extra
    ensures !trains(*final(layer)), //@ob prediction_mode_after_learn
{
    //@body file=src/network.rs impl=Network fn=learn part="region:/^            match layer \{/../^            match layer \{/" loops=0
    //@endbody
}
}
//@endunit

//@unit validate.prologue.elem prop=C09
impl Network {
fn validate_prologue_elem(layer: &mut Layer, training: bool) -> (r: bool)
    requires true,
        //@requires-extra
    ensures
        !trains(*final(layer)), //@ob no_dropout_while_validating
        r == (training || (*old(layer) is Dense && trains(*old(layer)))), //@ob remembers_training_state
{
    let mut training = training;
    //@body file=src/network.rs impl=Network fn=validate part="region:/^            match layer \{/../^            match layer \{/" loops=0
    //@endbody
    training
}
}
//@endunit

//@unit validate.epilogue.elem prop=C09
impl Network {
fn validate_epilogue_elem(layer: &mut Layer)
    requires true,
        //@requires-extra
    ensures has_flag(*final(layer)) ==> trains(*final(layer)), //@ob restored
{
    //@body file=src/network.rs impl=Network fn=validate part="region:/^                match layer \{/../^                match layer \{/" loops=0
    //@endbody
}
}
//@endunit
} // verus!
fn main() {}
