//@include prelude.rs
verus! {
// R5: layer structs reduced to the training flag; a feedback block's flag state is abstract (`fb_mode`), set by its
// `training` method whose own body is the first unit below.
#[verifier::external_body] pub struct Rest { _p: u8 }   // every other field of a layer (weights, shapes, dropout rate, ...)
pub mod dense { pub struct Dense { pub training: bool, pub rest: super::Rest } }
pub mod convolution { pub struct Convolution { pub training: bool, pub rest: super::Rest } }
pub mod deconvolution { pub struct Deconvolution { pub training: bool, pub rest: super::Rest } }
pub mod maxpool { pub struct Maxpool { pub flatten: bool, pub rest: super::Rest } }
pub mod feedback {
    use vstd::prelude::*;
    pub struct Feedback { pub flatten: bool, pub mode: Ghost<bool> }
    pub uninterp spec fn fb_mode(f: Feedback) -> bool;
    pub uninterp spec fn fb_rest(f: Feedback) -> int;    // everything of a block but its inner flags
    impl Feedback {
        // (proved on the real body: unit feedback.training.loop below)
        #[verifier::external_body]
        pub fn training(&mut self, train: bool) ensures fb_mode(*final(self)) == train, fb_rest(*final(self)) == fb_rest(*old(self)) { }
    }
}
pub mod network {
    pub enum Layer {
        Dense(super::dense::Dense),
        Convolution(super::convolution::Convolution),
        Deconvolution(super::deconvolution::Deconvolution),
        Maxpool(super::maxpool::Maxpool),
        Feedback(super::feedback::Feedback),
    }
}
use network::Layer;
pub struct Network { pub layers: Vec<Layer> }
pub struct FeedbackBlock { pub layers: Vec<Layer> }

/// does this layer apply dropout in its forward pass?  (max-pool has no dropout)
pub open spec fn trains(l: Layer) -> bool {
    match l {
        Layer::Dense(d) => d.training,
        Layer::Convolution(c) => c.training,
        Layer::Deconvolution(c) => c.training,
        Layer::Maxpool(_) => false,
        Layer::Feedback(f) => feedback::fb_mode(f),
    }
}
pub open spec fn has_flag(l: Layer) -> bool { !(l is Maxpool) }

//@unit feedback.training.elem prop=C09
// Feedback::training(train): body of the closure applied to every layer of the block
impl FeedbackBlock {
fn training_elem(layer: &mut network::Layer, train: bool)
    requires true,
        //@requires-extra
    ensures has_flag(*final(layer)) ==> trains(*final(layer)) == train, //@ob every_inner_flag_follows_the_argument
{
    //@body file=src/feedback.rs impl=Feedback fn=training part=closure:1 params="layer" rewrites=R13 loops=0
    //@endbody
}
}
//@endunit

//@unit learn.entry.elem prop=C09
impl Network {
fn learn_entry_elem(layer: &mut Layer)
    requires true,
        //@requires-extra
    ensures has_flag(*final(layer)) ==> trains(*final(layer)), //@ob training_mode_on_entry
{
    //@body file=src/network.rs impl=Network fn=learn part=closure:1 params="layer" loops=0
    //@endbody
}
}
//@endunit

//@unit learn.exit.elem prop=C09
impl Network {
fn learn_exit_elem(layer: &mut Layer)
    requires true,
        //@requires-extra
    ensures !trains(*final(layer)), //@ob prediction_mode_after_learn
{
    //@body file=src/network.rs impl=Network fn=learn part="region:/^            match layer \{/../^            match layer \{/" loops=0
    //@endbody
}
}
//@endunit

//@unit validate.prologue.elem prop=C09
impl Network {
fn validate_prologue_elem(layer: &mut Layer, training: bool) -> (r: bool)
    requires true,
        //@requires-extra
    ensures
        !trains(*final(layer)), //@ob no_dropout_while_validating
        r == (training || (*old(layer) is Dense && trains(*old(layer)))), //@ob remembers_training_state
{
    let mut training = training;
    //@body file=src/network.rs impl=Network fn=validate part="region:/^            match layer \{/../^            match layer \{/" loops=0
    //@endbody
    training
}
}
//@endunit

//@unit validate.epilogue.elem prop=C09
impl Network {
fn validate_epilogue_elem(layer: &mut Layer)
    requires true,
        //@requires-extra
    ensures has_flag(*final(layer)) ==> trains(*final(layer)), //@ob restored
{
    //@body file=src/network.rs impl=Network fn=validate part="region:/^                match layer \{/../^                match layer \{/" loops=0
    //@endbody
}
}
//@endunit

// ---- the whole flag loops, for every layer sequence ------------------------------------------------------------------------------
/// same layer, possibly with another training flag: kind and every other field unchanged
pub open spec fn same_but_flag(a: Layer, b: Layer) -> bool {
    match (a, b) {
        (Layer::Dense(x), Layer::Dense(y)) => x.rest == y.rest,
        (Layer::Convolution(x), Layer::Convolution(y)) => x.rest == y.rest,
        (Layer::Deconvolution(x), Layer::Deconvolution(y)) => x.rest == y.rest,
        (Layer::Maxpool(x), Layer::Maxpool(y)) => x == y,
        (Layer::Feedback(x), Layer::Feedback(y)) => feedback::fb_rest(x) == feedback::fb_rest(y),
        _ => false,
    }
}
pub open spec fn only_flags_differ(a: Seq<Layer>, b: Seq<Layer>) -> bool { a.len() == b.len() && forall|i: int| 0 <= i < a.len() ==> same_but_flag(#[trigger] a[i], b[i]) }
pub open spec fn dense_training(l: Layer) -> bool { l is Dense && trains(l) }

//@unit validate.prologue.loop prop=C09
impl Network {
fn validate_prologue(&mut self) -> (r: bool)
    requires true,
        //@requires-extra
    ensures
        forall|i: int| 0 <= i < final(self).layers@.len() ==> !trains(#[trigger] final(self).layers@[i]), //@ob no_layer_applies_dropout_while_validating
        only_flags_differ(old(self).layers@, final(self).layers@), //@ob nothing_but_flags_touched
        r == (exists|i: int| 0 <= i < old(self).layers@.len() && dense_training(#[trigger] old(self).layers@[i])), //@ob remembers_whether_training
{
    //@body file=src/network.rs impl=Network fn=validate part="region:/let mut training: bool = false;/../for layer in &mut self\.layers \{/" rewrites=R40 loops=1
    //@loop 1
            invariant
                self.layers@.len() == old(self).layers@.len(),
                forall|i: int| 0 <= i < __i ==> !trains(#[trigger] self.layers@[i]), //@ob no_layer_applies_dropout_while_validating.inv
                forall|i: int| 0 <= i < self.layers@.len() ==> same_but_flag(#[trigger] old(self).layers@[i], self.layers@[i]), //@ob nothing_but_flags_touched.inv
                forall|i: int| __i <= i < self.layers@.len() ==> #[trigger] self.layers@[i] == old(self).layers@[i],
                training == (exists|i: int| 0 <= i < __i && dense_training(#[trigger] old(self).layers@[i])), //@ob remembers_whether_training.inv
    //@end
    //@endbody
    training
}
}
//@endunit

//@unit validate.epilogue.loop prop=C09
impl Network {
fn validate_epilogue(&mut self, training: bool)
    requires true,
        //@requires-extra
    ensures
        training ==> forall|i: int| 0 <= i < final(self).layers@.len() ==> (has_flag(#[trigger] final(self).layers@[i]) ==> trains(final(self).layers@[i])), //@ob training_mode_restored
        !training ==> final(self).layers@ == old(self).layers@, //@ob untouched_when_not_training
        only_flags_differ(old(self).layers@, final(self).layers@), //@ob nothing_but_flags_touched
{
    //@body file=src/network.rs impl=Network fn=validate part="region:/if training \{/../if training \{/" rewrites=R40 loops=1
    //@loop 1
            invariant
                training, self.layers@.len() == old(self).layers@.len(),
                forall|i: int| 0 <= i < __i ==> (has_flag(#[trigger] self.layers@[i]) ==> trains(self.layers@[i])), //@ob training_mode_restored.inv
                forall|i: int| 0 <= i < self.layers@.len() ==> same_but_flag(#[trigger] old(self).layers@[i], self.layers@[i]), //@ob nothing_but_flags_touched.inv
                forall|i: int| __i <= i < self.layers@.len() ==> #[trigger] self.layers@[i] == old(self).layers@[i],
    //@end
    //@endbody
}
}
//@endunit

//@unit learn.entry.loop prop=C09
impl Network {
fn learn_entry(&mut self)
    requires true,
        //@requires-extra
    ensures
        forall|i: int| 0 <= i < final(self).layers@.len() ==> (has_flag(#[trigger] final(self).layers@[i]) ==> trains(final(self).layers@[i])), //@ob every_layer_in_training_mode
        only_flags_differ(old(self).layers@, final(self).layers@), //@ob nothing_but_flags_touched
{
    //@body file=src/network.rs impl=Network fn=learn part="region:/self\.layers\.iter_mut\(\)\.for_each\(\|layer\| match layer \{/../\}\);/" rewrites=R41 loops=1
    //@loop 1
            invariant
                self.layers@.len() == old(self).layers@.len(),
                forall|i: int| 0 <= i < __i ==> (has_flag(#[trigger] self.layers@[i]) ==> trains(self.layers@[i])), //@ob every_layer_in_training_mode.inv
                forall|i: int| 0 <= i < self.layers@.len() ==> same_but_flag(#[trigger] old(self).layers@[i], self.layers@[i]), //@ob nothing_but_flags_touched.inv
                forall|i: int| __i <= i < self.layers@.len() ==> #[trigger] self.layers@[i] == old(self).layers@[i],
    //@end
    //@endbody
}
}
//@endunit

//@unit learn.exit.loop prop=C09
impl Network {
fn learn_exit(&mut self)
    requires true,
        //@requires-extra
    ensures
        // after learn() returns no layer applies dropout: the network predicts like one configured without dropout
        forall|i: int| 0 <= i < final(self).layers@.len() ==> !trains(#[trigger] final(self).layers@[i]), //@ob no_layer_applies_dropout_after_training
        only_flags_differ(old(self).layers@, final(self).layers@), //@ob nothing_but_flags_touched
{
    //@body file=src/network.rs impl=Network fn=learn part="region:/for layer in &mut self\.layers \{/../for layer in &mut self\.layers \{/" rewrites=R40 loops=1
    //@loop 1
            invariant
                self.layers@.len() == old(self).layers@.len(),
                forall|i: int| 0 <= i < __i ==> !trains(#[trigger] self.layers@[i]), //@ob no_layer_applies_dropout_after_training.inv
                forall|i: int| 0 <= i < self.layers@.len() ==> same_but_flag(#[trigger] old(self).layers@[i], self.layers@[i]), //@ob nothing_but_flags_touched.inv
                forall|i: int| __i <= i < self.layers@.len() ==> #[trigger] self.layers@[i] == old(self).layers@[i],
    //@end
    //@endbody
}
}
//@endunit

//@unit feedback.training.loop prop=C09
impl FeedbackBlock {
fn training(&mut self, train: bool)
    requires true,
        //@requires-extra
    ensures
        forall|i: int| 0 <= i < final(self).layers@.len() ==> (has_flag(#[trigger] final(self).layers@[i]) ==> trains(final(self).layers@[i]) == train), //@ob every_inner_flag_follows_the_argument
        only_flags_differ(old(self).layers@, final(self).layers@), //@ob nothing_but_flags_touched
{
    //@body file=src/feedback.rs impl=Feedback fn=training part=whole rewrites=R13,R41 loops=1
    //@loop 1
            invariant
                self.layers@.len() == old(self).layers@.len(),
                forall|i: int| 0 <= i < __i ==> (has_flag(#[trigger] self.layers@[i]) ==> trains(self.layers@[i]) == train), //@ob every_inner_flag_follows_the_argument.inv
                forall|i: int| 0 <= i < self.layers@.len() ==> same_but_flag(#[trigger] old(self).layers@[i], self.layers@[i]), //@ob nothing_but_flags_touched.inv
                forall|i: int| __i <= i < self.layers@.len() ==> #[trigger] self.layers@[i] == old(self).layers@[i],
    //@end
    //@endbody
}
}
//@endunit
} // verus!
fn main() {}
