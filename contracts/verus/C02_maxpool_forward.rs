//@include prelude.rs
verus! {
// order laws of f32 `>` used by this unit (they hold for ALL floats, NaN included; each is also put to CBMC over all bit patterns)
pub broadcast axiom fn fgt_trans(a: f32, b: f32, c: f32) requires #[trigger] fgt(a, b), #[trigger] fgt(b, c) ensures fgt(a, c);
pub broadcast axiom fn fgt_irrefl(a: f32) ensures !(#[trigger] fgt(a, a));

pub struct Maxpool { pub kernel: (usize, usize), pub stride: (usize, usize) }
pub open spec fn rect3i(x: Seq<Vec<Vec<Vec<(usize, usize)>>>>, c: int, h: int, w: int) -> bool {
    x.len() == c && forall|i: int| 0 <= i < c ==> (#[trigger] x[i]).len() == h
        && forall|j: int| 0 <= j < h ==> (#[trigger] x[i][j]).len() == w
}
pub open spec fn pool_out(i: int, k: int, s: int) -> int { (i - k) / s + 1 }

// ---- the operator (property C02): every output is the maximum of its window, and the recorded index is where it is attained ----
// window of output (a, b): rows a*s0 .. a*s0+k0, columns b*s1 .. b*s1+k1
pub open spec fn is_window_max(x: Seq<Vec<Vec<f32>>>, s: Maxpool, c: int, a: int, b: int, v: f32, at: (usize, usize)) -> bool {
    &&& a * s.stride.0 <= at.0 < a * s.stride.0 + s.kernel.0
    &&& b * s.stride.1 <= at.1 < b * s.stride.1 + s.kernel.1
    &&& x[c]@[at.0 as int]@[at.1 as int] == v                                   // attained (and the index says where)
    &&& forall|y0: int, x0: int| a * s.stride.0 <= y0 < a * s.stride.0 + s.kernel.0 && b * s.stride.1 <= x0 < b * s.stride.1 + s.kernel.1
            ==> !fgt(#[trigger] x[c]@[y0]@[x0], v)                              // no element of the window is greater
}

//@def BASE
                ih == x@[0]@.len(), iw == x@[0]@[0]@.len(), oc == x@.len(), rect3(x@, oc as int, ih as int, iw as int),
                self.stride.0 >= 1, self.stride.1 >= 1, self.kernel.0 >= 1, self.kernel.1 >= 1, self.kernel.0 <= ih, self.kernel.1 <= iw,
                ih < 0x8000_0000, iw < 0x8000_0000, self.stride.0 < 0x8000_0000, self.stride.1 < 0x8000_0000,
                oh == pool_out(ih as int, self.kernel.0 as int, self.stride.0 as int), ow == pool_out(iw as int, self.kernel.1 as int, self.stride.1 as int),
                forall|cc: int, y0: int, x0: int| 0 <= cc < oc && 0 <= y0 < ih && 0 <= x0 < iw ==> fgt(#[trigger] x@[cc]@[y0]@[x0], f32_min_spec()),
//@end
//@def OUT
                rect3(y@, oc as int, oh as int, ow as int), rect3i(max@, oc as int, oh as int, ow as int),
                forall|cc: int, a: int, b: int| 0 <= cc < c && 0 <= a < oh && 0 <= b < ow ==>
                    (#[trigger] max@[cc]@[a]@[b])@.len() == 1 && is_window_max(x@, *self, cc, a, b, y@[cc]@[a]@[b], max@[cc]@[a]@[b]@[0]), //@ob window_max.inv
//@end
//@def ROWS
                forall|a: int, b: int| 0 <= a < ga && 0 <= b < ow ==>
                    (#[trigger] max@[c as int]@[a]@[b])@.len() == 1 && is_window_max(x@, *self, c as int, a, b, y@[c as int]@[a]@[b], max@[c as int]@[a]@[b]@[0]), //@ob window_max.inv
//@end

//@unit maxpool.forward prop=C02,C08 search=pool.forward
impl Maxpool {
fn forward_nest(&self, x: &Vec<Vec<Vec<f32>>>, ih: usize, iw: usize, oc: usize, oh: usize, ow: usize) -> (r: (Vec<Vec<Vec<f32>>>, Vec<Vec<Vec<Vec<(usize, usize)>>>>))
    requires
        x@.len() >= 1, x@[0]@.len() >= 1, x@[0]@[0]@.len() >= 1,
        rect3(x@, x@.len() as int, x@[0]@.len() as int, x@[0]@[0]@.len() as int),
        ih == x@[0]@.len(), iw == x@[0]@[0]@.len(), oc == x@.len(),
        // valid configuration: stride >= 1 and the window fits
        self.stride.0 >= 1, self.stride.1 >= 1, self.kernel.0 >= 1, self.kernel.1 >= 1,
        self.kernel.0 <= x@[0]@.len(), self.kernel.1 <= x@[0]@[0]@.len(),
        x@[0]@.len() < 0x8000_0000, x@[0]@[0]@.len() < 0x8000_0000, self.stride.0 < 0x8000_0000, self.stride.1 < 0x8000_0000,
        // the announced output extents (standard formula)
        oh == pool_out(ih as int, self.kernel.0 as int, self.stride.0 as int),
        ow == pool_out(iw as int, self.kernel.1 as int, self.stride.1 as int),
        // inputs are above the scan's start value f32::MIN (finite inputs other than the most negative float)
        forall|cc: int, y0: int, x0: int| 0 <= cc < x@.len() && 0 <= y0 < x@[0]@.len() && 0 <= x0 < x@[0]@[0]@.len() ==> fgt(#[trigger] x@[cc]@[y0]@[x0], f32_min_spec()),
        //@requires-extra
    ensures
        rect3(r.0@, oc as int, oh as int, ow as int), //@ob shape
        rect3i(r.1@, oc as int, oh as int, ow as int), //@ob shape_index
        forall|c: int, a: int, b: int| 0 <= c < oc && 0 <= a < oh && 0 <= b < ow ==>
            (#[trigger] r.1@[c]@[a]@[b])@.len() == 1 && is_window_max(x@, *self, c, a, b, r.0@[c]@[a]@[b], r.1@[c]@[a]@[b]@[0]), //@ob window_max
{
    //@body file=src/maxpool.rs impl=Maxpool fn=forward part="region:/let mut y = vec!/../for c in 0\.\.oc \{/" rewrites=R8,R9 loops=5
    //@loop 1
            invariant
                ${BASE}
                ${OUT}
    //@end
    //@before /let mut h: usize = 0; while h < ih - self\.kernel\.0 \+ 1/
            let ghost mut ga: int = 0;
    //@end
    //@loop 2
            invariant
                ${BASE}
                c < oc,
                ${OUT}
                h == ga * self.stride.0, 0 <= ga <= oh, h < 0x1_0000_0000,
                ${ROWS}
            decreases 0x2_0000_0000 - h,
    //@end
    //@before /let mut w: usize = 0; while w < iw - self\.kernel\.1 \+ 1/
                proof {
                    assert(ga <= (ih - self.kernel.0) / (self.stride.0 as int)) by (nonlinear_arith)
                        requires ga * self.stride.0 <= ih - self.kernel.0, self.stride.0 >= 1, ga >= 0;
                }
                let ghost mut gb: int = 0;
    //@end
    //@loop 3
            invariant
                ${BASE}
                c < oc,
                ${OUT}
                h == ga * self.stride.0, 0 <= ga < oh, h <= ih - self.kernel.0,
                w == gb * self.stride.1, 0 <= gb <= ow, w < 0x1_0000_0000,
                ${ROWS}
                forall|b: int| 0 <= b < gb ==>
                    (#[trigger] max@[c as int]@[ga]@[b])@.len() == 1 && is_window_max(x@, *self, c as int, ga, b, y@[c as int]@[ga]@[b], max@[c as int]@[ga]@[b]@[0]), //@ob window_max.inv
            decreases 0x2_0000_0000 - w,
    //@end
    //@before /let mut value = f32_min_const\(\);/
                    proof {
                        assert(gb <= (iw - self.kernel.1) / (self.stride.1 as int)) by (nonlinear_arith)
                            requires gb * self.stride.1 <= iw - self.kernel.1, self.stride.1 >= 1, gb >= 0;
                    }
    //@end
    //@loop 4
            invariant
                ${BASE}
                c < oc, h <= ih - self.kernel.0, w <= iw - self.kernel.1,
                k == 0 ==> value == f32_min_spec(),
                k > 0 ==> h <= index.0 < h + k && w <= index.1 < w + self.kernel.1 && x@[c as int]@[index.0 as int]@[index.1 as int] == value,
                forall|y0: int, x0: int| h <= y0 < h + k && w <= x0 < w + self.kernel.1 ==> !fgt(#[trigger] x@[c as int]@[y0]@[x0], value),
    //@end
    //@loop 5
            invariant
                ${BASE}
                c < oc, h <= ih - self.kernel.0, w <= iw - self.kernel.1, k < self.kernel.0,
                (k == 0 && l == 0) ==> value == f32_min_spec(),
                (k > 0 || l > 0) ==> h <= index.0 <= h + k && w <= index.1 < w + self.kernel.1 && x@[c as int]@[index.0 as int]@[index.1 as int] == value
                    && (index.0 == h + k ==> index.1 < w + l),
                forall|y0: int, x0: int| h <= y0 < h + k && w <= x0 < w + self.kernel.1 ==> !fgt(#[trigger] x@[c as int]@[y0]@[x0], value),
                forall|x0: int| w <= x0 < w + l ==> !fgt(#[trigger] x@[c as int]@[h + k]@[x0], value),
    //@end
    //@before /let _dh = h \+ k;/
                            broadcast use {fgt_trans, fgt_irrefl};
                            proof { f32_obeys(); }
    //@end
    //@before /if _x > value \{/
                                let ghost v_old = value;
    //@end
    //@after /index = \(_dh, _dw\);/
                                    proof {
                                        assert(fgt(_x, v_old));
                                        assert forall|y0: int, x0: int| h <= y0 < h + k && w <= x0 < w + self.kernel.1 implies !fgt(#[trigger] x@[c as int]@[y0]@[x0], value) by {
                                            if fgt(x@[c as int]@[y0]@[x0], value) { fgt_trans(x@[c as int]@[y0]@[x0], value, v_old); }
                                        }
                                        assert forall|x0: int| w <= x0 < w + l implies !fgt(#[trigger] x@[c as int]@[h + k]@[x0], value) by {
                                            if fgt(x@[c as int]@[h + k]@[x0], value) { fgt_trans(x@[c as int]@[h + k]@[x0], value, v_old); }
                                        }
                                        fgt_irrefl(value);
                                    }
    //@end
    //@before /let h = h \//
                    let ghost h0 = h; let ghost w0 = w; let ghost b0 = gb;
                    proof {
                        assert((ga * self.stride.0) / (self.stride.0 as int) == ga) by (nonlinear_arith) requires self.stride.0 >= 1;
                        assert((gb * self.stride.1) / (self.stride.1 as int) == gb) by (nonlinear_arith) requires self.stride.1 >= 1;
                        gb = gb + 1;
                        assert(gb * self.stride.1 == w0 + self.stride.1) by (nonlinear_arith) requires w0 == (gb - 1) * self.stride.1;
                    }
    //@end
    //@after /max\[c\]\[h\]\[w\] = vec!\[index\];/
                    proof {
                        assert(h == ga && w == b0);
                        assert(is_window_max(x@, *self, c as int, ga, b0, value, index));
                    }
    //@end
    //@after /^\s*\} w = w \+ self\.stride\.1; \}/
                proof {
                    assert(gb >= ow) by (nonlinear_arith)
                        requires gb * self.stride.1 >= iw - self.kernel.1 + 1, ow == (iw - self.kernel.1) / (self.stride.1 as int) + 1, self.stride.1 >= 1, iw - self.kernel.1 >= 0, gb >= 0;
                    ga = ga + 1;
                    assert(ga * self.stride.0 == h + self.stride.0) by (nonlinear_arith) requires h == (ga - 1) * self.stride.0;
                }
    //@end
    //@after /^\s*\} h = h \+ self\.stride\.0; \}/
            proof {
                assert(ga >= oh) by (nonlinear_arith)
                    requires ga * self.stride.0 >= ih - self.kernel.0 + 1, oh == (ih - self.kernel.0) / (self.stride.0 as int) + 1, self.stride.0 >= 1, ih - self.kernel.0 >= 0, ga >= 0;
            }
    //@end
    //@endbody
    (y, max)
}
}
//@endunit
} // verus!
fn main() {}
