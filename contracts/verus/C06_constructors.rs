//@include prelude.rs
verus! {
// `Tensor::single` / `Tensor::triple` (src/tensor.rs): the contracts the whole-`loss()` units (C06_loss_whole.rs) use for the two constructors, discharged on the real bodies.
// Real enums (R5: variants only).
pub enum Shape { Single(usize), Double(usize, usize), Triple(usize, usize, usize), Quadruple(usize, usize, usize, usize), Quintuple(usize, usize, usize, usize, usize), Nested(usize) }
pub enum Data { Single(Vec<f32>), Double(Vec<Vec<f32>>), Triple(Vec<Vec<Vec<f32>>>), Quadruple(Vec<Vec<Vec<Vec<f32>>>>), Quintuple(Vec<Vec<Vec<Vec<Vec<(usize, usize)>>>>>) }
pub struct Tensor { pub shape: Shape, pub data: Data }

//@unit tensor.single prop=C06
impl Tensor {
pub fn single(data: Vec<f32>) -> (r: Self)
    requires true,
        //@requires-extra
    ensures r.data == Data::Single(data), r.shape == Shape::Single(data@.len() as usize), //@ob data_kept_shape_is_its_length
{
    //@body file=src/tensor.rs impl=Tensor fn=single part=whole loops=0
    //@endbody
}
}
//@endunit

//@unit tensor.triple prop=C06
impl Tensor {
pub fn triple(data: Vec<Vec<Vec<f32>>>) -> (r: Self)
    requires
        // (reads data[0][0]: an empty outer or middle level panics)
        data@.len() > 0, data@[0]@.len() > 0,
        //@requires-extra
    ensures r.data == Data::Triple(data), r.shape == Shape::Triple(data@.len() as usize, data@[0]@.len() as usize, data@[0]@[0]@.len() as usize), //@ob data_kept_shape_is_the_lengths_of_the_first_channel_and_row
{
    //@body file=src/tensor.rs impl=Tensor fn=triple part=whole loops=0
    //@endbody
}
}
//@endunit
} // verus!
fn main() {}
