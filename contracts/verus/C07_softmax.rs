//@include prelude.rs
verus! {
// Soft-max forward, whole function, every length: the formula y[i] = exp(x[i] - max(x)) / sum_j exp(x[j] - max(x)), with the maximum taken by
// `f32::max` from -inf in index order and the sum accumulated from 0.0 in index order.  Formula identity (F1): the VALUE claims of C07 (non-negative,
// sums to one, finite) are decided by the bounded Kani harness on the real function; this unit pins which expression is computed for all n.
pub mod tensor {
    use vstd::prelude::*;
    #[verifier::external_body] pub struct Shape { _p: u8 }
    #[verifier::external_body] pub struct Data { _p: u8 }
    pub struct Tensor { pub shape: Shape, pub data: Data }
    pub uninterp spec fn t_flat(a: Tensor) -> Seq<f32>;
    pub uninterp spec fn t_single(v: Seq<f32>) -> Tensor;
    pub uninterp spec fn t_reshape(a: Tensor, s: Shape) -> Tensor;
    impl Clone for Shape { #[verifier::external_body] fn clone(&self) -> (r: Self) ensures r == *self { unimplemented!() } }
    impl Tensor {
        #[verifier::external_body] pub fn get_flat(&self) -> (r: Vec<f32>) ensures r@ == t_flat(*self) { unimplemented!() }
        #[verifier::external_body] pub fn single(v: Vec<f32>) -> (r: Tensor) ensures r == t_single(v@) { unimplemented!() }
        #[verifier::external_body] pub fn reshape(self, shape: Shape) -> (r: Tensor) ensures r == t_reshape(self, shape) { unimplemented!() }
    }
}
use tensor::*;
pub struct Softmax {}

pub open spec fn max_of(x: Seq<f32>, n: int) -> f32
    decreases n
{ if n <= 0 { f32_neg_inf_spec() } else { f32_max_spec(max_of(x, n - 1), x[n - 1]) } }
pub open spec fn e_at(x: Seq<f32>, i: int) -> f32 { f32_exp_spec(fsub(x[i], max_of(x, x.len() as int))) }
pub open spec fn e_sum(x: Seq<f32>, n: int) -> f32
    decreases n
{ if n <= 0 { 0.0f32 } else { fadd(e_sum(x, n - 1), e_at(x, n - 1)) } }
pub open spec fn softmax_of(x: Seq<f32>) -> Seq<f32> { Seq::new(x.len(), |i: int| fdiv(e_at(x, i), e_sum(x, x.len() as int))) }

//@unit softmax.forward prop=C07
impl Softmax {
pub fn forward(&self, input: &tensor::Tensor) -> (r: tensor::Tensor)
    requires true,
        //@requires-extra
    ensures
        r == t_reshape(t_single(softmax_of(t_flat(*input))), input.shape), //@ob shifted_exponentials_over_their_sum_in_the_input_shape
{
    broadcast use {f32_total};
    proof { f32_obeys(); }
    //@body file=src/activation.rs impl=Softmax fn=forward part=whole rewrites=R1,R9,R15,R22,R48 loops=3
    //@type exps = Vec<f32>
    //@loop 1
            invariant
                __m == max_of(x@, __t as int), //@ob running_maximum.inv
    //@end
    //@loop 2
            invariant
                max == max_of(x@, x@.len() as int),
                exps@.len() == __ix1,
                forall|i: int| 0 <= i < __ix1 ==> #[trigger] exps@[i] == e_at(x@, i), //@ob shifted_exponentials.inv
                sum == e_sum(x@, __ix1 as int), //@ob sum_in_index_order.inv
    //@end
    //@inline-after /let v = x\[__ix1\];/
        broadcast use {f32_total}; proof { f32_obeys(); }
    //@end
    //@loop 3
            invariant
                exps@.len() == x@.len(), forall|i: int| 0 <= i < exps@.len() ==> #[trigger] exps@[i] == e_at(x@, i),
                sum == e_sum(x@, x@.len() as int),
                y@.len() == __k,
                forall|i: int| 0 <= i < __k ==> #[trigger] y@[i] == fdiv(e_at(x@, i), e_sum(x@, x@.len() as int)), //@ob quotient.inv
    //@end
    //@inline-after /let v = exps\[__k\];/
        broadcast use {f32_total}; proof { f32_obeys(); }
    //@end
    //@before /tensor::Tensor::single\(y\)/
        proof { assert(y@ =~= softmax_of(x@)); }
    //@end
    //@endbody
}
}
//@endunit
} // verus!
fn main() {}
