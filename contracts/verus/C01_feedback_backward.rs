//@include prelude.rs
use std::collections::HashMap;
verus! {
// R5: Tensor and the layers are opaque; a layer's backward pass is an uninterpreted function (that it is the layer's derivative: the other C01
// units).  This unit decides the reverse step of Feedback::backward for blocks WITHOUT internal skip connections (the class C01 names):
// which gradient and which recorded input / pre-activation each unrolled layer is differentiated at, and what is handed on.
pub mod tensor {
    use vstd::prelude::*;
    #[verifier::external_body] pub struct Data { _p: u8 }
    pub struct Tensor { pub data: Data }
    impl Clone for Tensor { #[verifier::external_body] fn clone(&self) -> (r: Self) ensures r == *self { unimplemented!() } }
}
use tensor::*;
pub mod dense {
    use vstd::prelude::*; use super::tensor::*;
    pub struct Dense { pub params: Data }
    pub uninterp spec fn bwd(l: Dense, g: Tensor, x: Tensor, out: Tensor) -> (Tensor, Tensor, Option<Tensor>);
    impl Dense { #[verifier::external_body] pub fn backward(&self, gradient: &Tensor, input: &Tensor, output: &Tensor) -> (r: (Tensor, Tensor, Option<Tensor>)) ensures r == bwd(*self, *gradient, *input, *output) { unimplemented!() } }
}
pub mod convolution {
    use vstd::prelude::*; use super::tensor::*;
    pub struct Convolution { pub params: Data }
    pub uninterp spec fn bwd(l: Convolution, g: Tensor, x: Tensor, out: Tensor) -> (Tensor, Tensor, Option<Tensor>);
    impl Convolution { #[verifier::external_body] pub fn backward(&self, gradient: &Tensor, input: &Tensor, output: &Tensor) -> (r: (Tensor, Tensor, Option<Tensor>)) ensures r == bwd(*self, *gradient, *input, *output) { unimplemented!() } }
}
pub mod deconvolution {
    use vstd::prelude::*; use super::tensor::*;
    pub struct Deconvolution { pub params: Data }
    pub uninterp spec fn bwd(l: Deconvolution, g: Tensor, x: Tensor, out: Tensor) -> (Tensor, Tensor, Option<Tensor>);
    impl Deconvolution { #[verifier::external_body] pub fn backward(&self, gradient: &Tensor, input: &Tensor, output: &Tensor) -> (r: (Tensor, Tensor, Option<Tensor>)) ensures r == bwd(*self, *gradient, *input, *output) { unimplemented!() } }
}
pub mod network {
    pub struct Opaque { pub _p: u8 }
    pub enum Layer { Dense(super::dense::Dense), Convolution(super::convolution::Convolution), Deconvolution(super::deconvolution::Deconvolution), Maxpool(Opaque), Feedback(Opaque) }
}
pub struct Feedback { pub layers: Vec<network::Layer> }
pub open spec fn layer_bwd(l: network::Layer, g: Tensor, x: Tensor, out: Tensor) -> (Tensor, Tensor, Option<Tensor>) {
    match l {
        network::Layer::Dense(d) => dense::bwd(d, g, x, out),
        network::Layer::Convolution(d) => convolution::bwd(d, g, x, out),
        network::Layer::Deconvolution(d) => deconvolution::bwd(d, g, x, out),
        _ => (g, g, None),   // (rejected by the code)
    }
}

//@unit feedback.backward.walk prop=C01
impl Feedback {
fn backward_step(&self, i: usize, layer: &network::Layer, connect: &HashMap<usize, Vec<usize>>,
    gradients: &mut Vec<tensor::Tensor>, weight_gradients: &mut Vec<tensor::Tensor>, bias_gradients: &mut Vec<Option<tensor::Tensor>>,
    unactivated: &Vec<tensor::Tensor>, activated: &Vec<tensor::Tensor>)
    requires
        // the i-th step of `self.layers.iter().rev().enumerate()`
        i < self.layers@.len(), *layer == self.layers@[self.layers@.len() - 1 - i],
        old(gradients)@.len() == i + 1, unactivated@.len() >= self.layers@.len(), activated@.len() >= self.layers@.len(),
        // the class C01 names: a block WITHOUT internal skip connections (empty reversed table)
        forall|k: usize| !connect@.contains_key(k),
        //@requires-extra
    ensures
        ({ let idx = self.layers@.len() - 1 - i;
           let r = layer_bwd(*layer, old(gradients)@[i as int], activated@[idx], unactivated@[idx]);
           &&& final(gradients)@ == old(gradients)@.push(r.0)
           &&& final(weight_gradients)@ == old(weight_gradients)@.push(r.1)
           &&& final(bias_gradients)@ == old(bias_gradients)@.push(r.2) }), //@ob each_repetition_differentiated_at_its_recorded_input_with_the_gradient_handed_on
{
    broadcast use vstd::std_specs::hash::group_hash_axioms;
    //@body file=src/feedback.rs impl=Feedback fn=backward part=closure:1 params="(i, layer)" rewrites=R13,R19 loops=0
    //@unreachable-block /if connect\.contains_key\(&idx\) \{/
    //@endbody
}
}
//@endunit
} // verus!
fn main() {}
