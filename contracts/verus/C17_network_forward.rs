//@include prelude.rs
use std::collections::HashMap;
verus! {
// R5: Tensor, Shape and Layer are opaque.  A layer's forward pass is an uninterpreted function of (layer, input) (C02 decides
// what each layer computes), the element-wise tensor operations are the abstract algebra C15 ties to IEEE arithmetic per cell,
// and reshape is C14's.  This file decides WHICH tensors the loop-back block of `Network::forward` feeds through WHICH layers
// HOW OFTEN and how it accumulates them -- for every network, range, iteration count, accumulation and input.
pub mod tensor {
    use vstd::prelude::*;
    #[verifier::external_body] pub struct Shape { _p: u8 }
    #[verifier::external_body] pub struct Data { _p: u8 }
    pub struct Tensor { pub shape: Shape, pub data: Data }
    pub uninterp spec fn t_add(a: Tensor, b: Tensor) -> Tensor;
    pub uninterp spec fn t_sub(a: Tensor, b: Tensor) -> Tensor;
    pub uninterp spec fn t_mul(a: Tensor, b: Tensor) -> Tensor;
    pub uninterp spec fn t_mean(a: Tensor, others: Seq<Tensor>) -> Tensor;   // element-wise mean of a and all of `others`
    pub uninterp spec fn t_mean1(a: Tensor, b: Tensor) -> Tensor;            // mean of a and ONE other tensor: (a + b) / 2
    pub uninterp spec fn t_reshape(a: Tensor, s: Shape) -> Tensor;           // same row-major element sequence, shape s
    // reshape to the shape a tensor already has is the identity (C14)
    pub broadcast axiom fn reshape_same(a: Tensor, s: Shape) requires shape_eq(a.shape, s) ensures #[trigger] t_reshape(a, s) == a;
    pub uninterp spec fn shape_eq(a: Shape, b: Shape) -> bool;
    impl Clone for Shape { #[verifier::external_body] fn clone(&self) -> (r: Self) ensures r == *self { Shape { _p: self._p } } }
    impl Clone for Tensor { #[verifier::external_body] fn clone(&self) -> (r: Self) ensures r == *self { Tensor { shape: Shape { _p: 0 }, data: Data { _p: 0 } } } }
    // `&Shape != &Shape` (as written in the repository) resolves through vstd's PartialEq specification trait
    impl vstd::std_specs::cmp::PartialEqSpecImpl for Shape {
        open spec fn obeys_eq_spec() -> bool { true }
        open spec fn eq_spec(&self, other: &Shape) -> bool { shape_eq(*self, *other) }
    }
    impl PartialEq for Shape {
        #[verifier::external_body] fn eq(&self, other: &Self) -> (r: bool) ensures r == shape_eq(*self, *other) { true }
    }
    pub open spec fn derefs(v: Seq<&Tensor>) -> Seq<Tensor> { Seq::new(v.len(), |t: int| *v[t]) }
    impl Tensor {
        #[verifier::external_body] pub fn reshape(self, shape: Shape) -> (r: Tensor) ensures r == t_reshape(self, shape) { self }
        #[verifier::external_body] pub fn add_inplace(&mut self, other: &Tensor) ensures *final(self) == t_add(*old(self), *other) { }
        #[verifier::external_body] pub fn sub_inplace(&mut self, other: &Tensor) ensures *final(self) == t_sub(*old(self), *other) { }
        #[verifier::external_body] pub fn mul_inplace(&mut self, other: &Tensor) ensures *final(self) == t_mul(*old(self), *other) { }
        #[verifier::external_body] pub fn mean_inplace(&mut self, others: &Vec<&Tensor>) ensures *final(self) == t_mean(*old(self), derefs(others@)), others@.len() == 1 ==> *final(self) == t_mean1(*old(self), *others@[0]) { }
    }
}
pub mod dense {
    use vstd::prelude::*; use super::tensor::*;
    pub struct Dense { pub inputs: Shape, pub outputs: Shape, pub params: Data }
    pub uninterp spec fn fwd(l: Dense, x: Tensor) -> (Tensor, Tensor);
    impl Dense { #[verifier::external_body] pub fn forward(&self, x: &Tensor) -> (r: (Tensor, Tensor)) ensures r == fwd(*self, *x) { (x.clone(), x.clone()) } }
}
pub mod convolution {
    use vstd::prelude::*; use super::tensor::*;
    pub struct Convolution { pub inputs: Shape, pub outputs: Shape, pub params: Data }
    pub uninterp spec fn fwd(l: Convolution, x: Tensor) -> (Tensor, Tensor);
    impl Convolution { #[verifier::external_body] pub fn forward(&self, x: &Tensor) -> (r: (Tensor, Tensor)) ensures r == fwd(*self, *x) { (x.clone(), x.clone()) } }
}
pub mod deconvolution {
    use vstd::prelude::*; use super::tensor::*;
    pub struct Deconvolution { pub inputs: Shape, pub outputs: Shape, pub params: Data }
    pub uninterp spec fn fwd(l: Deconvolution, x: Tensor) -> (Tensor, Tensor);
    impl Deconvolution { #[verifier::external_body] pub fn forward(&self, x: &Tensor) -> (r: (Tensor, Tensor)) ensures r == fwd(*self, *x) { (x.clone(), x.clone()) } }
}
pub mod maxpool {
    use vstd::prelude::*; use super::tensor::*;
    pub struct Maxpool { pub inputs: Shape, pub outputs: Shape, pub params: Data }
    pub uninterp spec fn fwd(l: Maxpool, x: Tensor) -> (Tensor, Tensor, Tensor);
    impl Maxpool { #[verifier::external_body] pub fn forward(&self, x: &Tensor) -> (r: (Tensor, Tensor, Tensor)) ensures r == fwd(*self, *x) { (x.clone(), x.clone(), x.clone()) } }
}
pub mod feedback {
    use vstd::prelude::*; use super::tensor::*;
    pub enum Accumulation { Add, Subtract, Multiply, Overwrite, Mean }
    pub struct Feedback { pub inputs: Shape, pub outputs: Shape, pub params: Data }
    // (pre, post, max-pool indices, inner pre-activations, inner activations): what a block computes is C11's
    pub uninterp spec fn fwd(l: Feedback, x: Tensor) -> (Tensor, Tensor, Tensor, Tensor, Tensor);
    impl Feedback { #[verifier::external_body] pub fn forward(&self, x: &Tensor) -> (r: (Tensor, Tensor, Tensor, Tensor, Tensor)) ensures r == fwd(*self, *x) { (x.clone(), x.clone(), x.clone(), x.clone(), x.clone()) } }
}
use tensor::*;
pub enum Layer {
    Dense(dense::Dense),
    Convolution(convolution::Convolution),
    Deconvolution(deconvolution::Deconvolution),
    Maxpool(maxpool::Maxpool),
    Feedback(feedback::Feedback),
}
pub open spec fn l_inputs(l: Layer) -> Shape {
    match l { Layer::Dense(d) => d.inputs, Layer::Convolution(d) => d.inputs, Layer::Deconvolution(d) => d.inputs, Layer::Maxpool(d) => d.inputs, Layer::Feedback(d) => d.inputs }
}
pub open spec fn l_outputs(l: Layer) -> Shape {
    match l { Layer::Dense(d) => d.outputs, Layer::Convolution(d) => d.outputs, Layer::Deconvolution(d) => d.outputs, Layer::Maxpool(d) => d.outputs, Layer::Feedback(d) => d.outputs }
}
/// (pre-activation, post-activation, max-pool indices) of one layer on input x
pub open spec fn layer_fwd(l: Layer, x: Tensor) -> (Tensor, Tensor, Option<Tensor>) {
    match l {
        Layer::Dense(d) => (dense::fwd(d, x).0, dense::fwd(d, x).1, None),
        Layer::Convolution(d) => (convolution::fwd(d, x).0, convolution::fwd(d, x).1, None),
        Layer::Deconvolution(d) => (deconvolution::fwd(d, x).0, deconvolution::fwd(d, x).1, None),
        Layer::Maxpool(d) => (maxpool::fwd(d, x).0, maxpool::fwd(d, x).1, Some(maxpool::fwd(d, x).2)),
        Layer::Feedback(d) => (feedback::fwd(d, x).0, feedback::fwd(d, x).1, Some(feedback::fwd(d, x).2)),
    }
}
pub struct Network {
    pub layers: Vec<Layer>,
    pub connect: HashMap<usize, usize>, pub skipaccumulation: feedback::Accumulation,
    pub loopbacks: HashMap<usize, (usize, usize, bool)>, pub loopaccumulation: feedback::Accumulation,
}

// ---- running a range of layers: layer from+t processes the output of layer from+t-1 (layer `from` processes x) ------------
pub open spec fn run(ls: Seq<Layer>, x: Tensor, from: int, n: int) -> Seq<(Tensor, Tensor, Option<Tensor>)>
    decreases n
{
    if n <= 0 { Seq::empty() } else {
        let p = run(ls, x, from, n - 1);
        p.push(layer_fwd(ls[from + n - 1], if n == 1 { x } else { p[n - 2].1 }))
    }
}
pub proof fn lemma_run_len(ls: Seq<Layer>, x: Tensor, from: int, n: int)
    ensures run(ls, x, from, n).len() == (if n <= 0 { 0 } else { n })
    decreases n
{ if n > 0 { lemma_run_len(ls, x, from, n - 1); } }
pub proof fn lemma_run_prefix(ls: Seq<Layer>, x: Tensor, from: int, n: int, m: int, t: int)
    requires 0 <= t < n <= m
    ensures run(ls, x, from, m)[t] == run(ls, x, from, n)[t]
    decreases m
{
    if m > n { lemma_run_prefix(ls, x, from, n, m - 1, t); lemma_run_len(ls, x, from, m - 1); }
}

//@unit layer.inputs prop=C17
impl Layer {
fn inputs(&self) -> (r: &tensor::Shape)
    ensures *r == l_inputs(*self), //@ob declared_input_shape
{
    //@body file=src/network.rs impl=Layer fn=inputs part=whole loops=0
    //@endbody
}
}
//@endunit
//@unit layer.outputs prop=C17
impl Layer {
fn outputs(&self) -> (r: &tensor::Shape)
    ensures *r == l_outputs(*self), //@ob declared_output_shape
{
    //@body file=src/network.rs impl=Layer fn=outputs part=whole loops=0
    //@endbody
}
}
//@endunit
//@unit network._forward prop=C17,C02 search=loopback.forward
impl Network {
fn _forward(
    &self,
    input: &tensor::Tensor,
    from: usize,
    to: usize,
) -> (r: (
    Vec<tensor::Tensor>,
    Vec<tensor::Tensor>,
    Vec<Option<tensor::Tensor>>,
    Vec<Vec<tensor::Tensor>>,
))
    requires
        from <= to <= self.layers@.len(),
        //@requires-extra
    ensures
        r.0@.len() == to - from, r.1@.len() == to - from, r.2@.len() == to - from, //@ob one_entry_per_layer
        // layer from+t processes the output of layer from+t-1 (the given input for t = 0); nothing else is applied
        forall|t: int| 0 <= t < to - from ==> #[trigger] r.0@[t] == run(self.layers@, *input, from as int, to - from)[t].0, //@ob range_preactivations
        forall|t: int| 0 <= t < to - from ==> #[trigger] r.1@[t] == run(self.layers@, *input, from as int, to - from)[t].1, //@ob range_activations
        forall|t: int| 0 <= t < to - from ==> #[trigger] r.2@[t] == run(self.layers@, *input, from as int, to - from)[t].2, //@ob range_maxpool_indices
{
    //@body file=src/network.rs impl=Network fn=_forward part=whole rewrites=R19,R23 loops=1
    //@loop 1
            invariant
                from <= __i <= to, to <= self.layers@.len(),
                preactivated@.len() == __i - from, activated@.len() == __i - from + 1, maxpools@.len() == __i - from,
                activated@[0] == *input,
                forall|t: int| 0 <= t < __i - from ==> #[trigger] preactivated@[t] == run(self.layers@, *input, from as int, __i - from)[t].0, //@ob range_preactivations.inv
                forall|p: int| 1 <= p <= __i - from ==> #[trigger] activated@[p] == run(self.layers@, *input, from as int, __i - from)[p - 1].1, //@ob range_activations.inv
                forall|t: int| 0 <= t < __i - from ==> #[trigger] maxpools@[t] == run(self.layers@, *input, from as int, __i - from)[t].2, //@ob range_maxpool_indices.inv
    //@end
    //@before /let x = /
            let ghost n = __i - from;
            let ghost xin = if n == 0 { *input } else { run(self.layers@, *input, from as int, n)[n - 1].1 };
            proof {
                lemma_run_len(self.layers@, *input, from as int, n);
                assert forall|t: int| 0 <= t < n implies run(self.layers@, *input, from as int, n + 1)[t] == run(self.layers@, *input, from as int, n)[t] by {
                    lemma_run_prefix(self.layers@, *input, from as int, n, n + 1, t);
                }
                assert(run(self.layers@, *input, from as int, n + 1)[n] == layer_fwd(self.layers@[__i as int], xin));
            }
    //@end
    //@after /let x = /
            assert(*x == xin);
    //@end
    //@endbody
}
}
//@endunit

// ---- property C16 (forward clause): the input processed by layer i is the configured accumulation of its ordinary input x with the
// input that was fed to the source layer (activated[source]), brought to x's shape
pub open spec fn combined(acc: feedback::Accumulation, x: Tensor, src: Tensor) -> Tensor {
    let s = t_reshape(src, x.shape);
    match acc {
        feedback::Accumulation::Add => t_add(x, s),
        feedback::Accumulation::Subtract => t_sub(x, s),
        feedback::Accumulation::Multiply => t_mul(x, s),
        feedback::Accumulation::Overwrite => s,
        feedback::Accumulation::Mean => t_mean1(x, s),
    }
}

//@unit network.forward.skip prop=C16
impl Network {
fn forward_skip_region(&self, i: usize, x: Tensor, activated: &Vec<Tensor>) -> (r: Tensor)
    requires
        self.connect@.contains_key(i) ==> self.connect@[i] < activated@.len(),
        //@requires-extra
    ensures
        !self.connect@.contains_key(i) ==> r == x, //@ob untouched_without_connection
        self.connect@.contains_key(i) ==> r == combined(self.skipaccumulation, x, activated@[self.connect@[i] as int]), //@ob configured_accumulation_of_x_and_source_input
{
    broadcast use vstd::std_specs::hash::group_hash_axioms;
    broadcast use reshape_same;
    let mut x = x;
    //@body file=src/network.rs impl=Network fn=forward part="region:/if self\.connect\.contains_key\(&i\) \{/../if self\.connect\.contains_key\(&i\) \{/" rewrites=R13,R16 loops=0
    //@endbody
    x
}
}
//@endunit

// ---- property C17 ------------------------------------------------------------------------------------------------------------
/// the tensor layer `into` processes in a loop pass, given the previous output y of layer i: y brought to the input shape of
/// layer `into` (the identity when the declared shapes agree), plus the ORIGINAL input of layer `into` when input skips are on
pub open spec fn fed_back(net: Network, a: Seq<Tensor>, i: int, y: Tensor) -> Tensor {
    let (into, k, inskips) = net.loopbacks@[i as usize];
    let c = if shape_eq(l_inputs(net.layers@[into as int]), l_outputs(net.layers@[i])) { y } else { t_reshape(y, l_inputs(net.layers@[into as int])) };
    if inskips { t_add(c, a[into as int]) } else { c }
}
/// pass t (t = 0 is the first RE-run) of layers into..=i: (pre, post) per layer; it starts from the output of pass t-1
/// (from the ordinary output a[i+1] of layer i for t = 0)
pub open spec fn pass(net: Network, a: Seq<Tensor>, i: int, t: int) -> Seq<(Tensor, Tensor, Option<Tensor>)>
    decreases t
{
    let (into, k, inskips) = net.loopbacks@[i as usize];
    let y = if t <= 0 { a[i + 1] } else { pass(net, a, i, t - 1)[i - into].1 };
    run(net.layers@, fed_back(net, a, i, y), into as int, i + 1 - into)
}
pub open spec fn fold_op(acc: feedback::Accumulation, x: Tensor, srcs: Seq<Tensor>, n: int) -> Tensor
    decreases n
{
    if n <= 0 { x } else {
        let p = fold_op(acc, x, srcs, n - 1);
        match acc { feedback::Accumulation::Add => t_add(p, srcs[n - 1]), feedback::Accumulation::Subtract => t_sub(p, srcs[n - 1]), _ => t_mul(p, srcs[n - 1]) }
    }
}
/// the configured accumulation of x (the ordinary value) with the k successive re-run values, in order
pub open spec fn accumulated(acc: feedback::Accumulation, x: Tensor, srcs: Seq<Tensor>) -> Tensor {
    match acc {
        feedback::Accumulation::Overwrite => if srcs.len() == 0 { x } else { srcs[srcs.len() - 1] },
        feedback::Accumulation::Mean => t_mean(x, srcs),
        _ => fold_op(acc, x, srcs, srcs.len() as int),
    }
}
pub open spec fn posts_at(net: Network, a: Seq<Tensor>, i: int, k: int, idx: int) -> Seq<Tensor> { Seq::new(k as nat, |t: int| pass(net, a, i, t)[idx].1) }
pub open spec fn pres_at(net: Network, a: Seq<Tensor>, i: int, k: int, idx: int) -> Seq<Tensor> { Seq::new(k as nat, |t: int| pass(net, a, i, t)[idx].0) }

proof fn lemma_pass_len(net: Network, a: Seq<Tensor>, i: int, t: int)
    requires net.loopbacks@[i as usize].0 <= i
    ensures pass(net, a, i, t).len() == i + 1 - net.loopbacks@[i as usize].0
{
    let (into, k, inskips) = net.loopbacks@[i as usize];
    let y = if t <= 0 { a[i + 1] } else { pass(net, a, i, t - 1)[i - into].1 };
    lemma_run_len(net.layers@, fed_back(net, a, i, y), into as int, i + 1 - into);
}

//@def CTX
                self.loopbacks@.contains_key(i), (into, iterations, inskips) == self.loopbacks@[i], into <= i, i < self.layers@.len(),
                preactivated@.len() == i + 1, activated@.len() == i + 2, i + 2 <= usize::MAX,
//@end
//@def DONE
                forall|p: int| into < p <= into + idx ==> #[trigger] activated@[p] == accumulated(self.loopaccumulation, a[p], posts_at(*self, a, i as int, iterations as int, p - 1 - into)), //@ob accumulated_posts.inv
                forall|p: int| into <= p < into + idx ==> #[trigger] preactivated@[p] == accumulated(self.loopaccumulation, u[p], pres_at(*self, a, i as int, iterations as int, p - into)), //@ob accumulated_pres.inv
                forall|p: int| 0 <= p <= into ==> #[trigger] activated@[p] == a[p], //@ob frame.inv
                forall|p: int| 0 <= p < into ==> #[trigger] preactivated@[p] == u[p], //@ob frame.inv
//@end
//@def TODO_OUTER
                forall|p: int| into + idx < p <= i + 1 ==> #[trigger] activated@[p] == a[p],
                forall|p: int| into + idx <= p <= i ==> #[trigger] preactivated@[p] == u[p],
//@end
//@def TODO_INNER
                forall|p: int| into + idx + 1 < p <= i + 1 ==> #[trigger] activated@[p] == a[p],
                forall|p: int| into + idx < p <= i ==> #[trigger] preactivated@[p] == u[p],
//@end
//@def PASSES
                fposts@.len() == iterations, fpres@.len() == iterations,
                forall|s: int| 0 <= s < iterations ==> (#[trigger] fposts@[s])@.len() == i + 1 - into,
                forall|s: int| 0 <= s < iterations ==> (#[trigger] fpres@[s])@.len() == i + 1 - into,
                forall|s: int, t: int| 0 <= s < iterations && 0 <= t < i + 1 - into ==> #[trigger] fposts@[s]@[t] == pass(*self, a, i as int, s)[t].1, //@ob successive_outputs.inv
                forall|s: int, t: int| 0 <= s < iterations && 0 <= t < i + 1 - into ==> #[trigger] fpres@[s]@[t] == pass(*self, a, i as int, s)[t].0, //@ob successive_outputs.inv
//@end

//@unit network.forward.loopback prop=C17 search=loopback.forward
impl Network {
fn forward_loopback_region(&self, i: usize, preactivated: &mut Vec<Tensor>, activated: &mut Vec<Tensor>, maxpools: &mut Vec<Option<Tensor>>)
    requires
        // where the block sits in `Network::forward`: layers 0..=i have run
        i < self.layers@.len(), old(preactivated)@.len() == i + 1, old(activated)@.len() == i + 2,
        // what `Network::loopback` validated when the connection was made: into <= outof
        self.loopbacks@.contains_key(i) ==> self.loopbacks@[i].0 <= i,
        //@requires-extra
    ensures
        final(activated)@.len() == old(activated)@.len(), final(preactivated)@.len() == old(preactivated)@.len(), //@ob lengths
        !self.loopbacks@.contains_key(i) ==> final(activated)@ == old(activated)@ && final(preactivated)@ == old(preactivated)@, //@ob untouched_without_loop
        // the value passed on after layer i (and likewise what is recorded for every layer of the range): the configured
        // accumulation of the ordinary output with the k successive re-run outputs
        self.loopbacks@.contains_key(i) ==> forall|p: int| self.loopbacks@[i].0 < p <= i + 1 ==> #[trigger] final(activated)@[p]
            == accumulated(self.loopaccumulation, old(activated)@[p],
                posts_at(*self, old(activated)@, i as int, self.loopbacks@[i].1 as int, p - 1 - self.loopbacks@[i].0)), //@ob accumulation_of_k_plus_1_successive_outputs
        self.loopbacks@.contains_key(i) ==> forall|j: int| self.loopbacks@[i].0 <= j <= i ==> #[trigger] final(preactivated)@[j]
            == accumulated(self.loopaccumulation, old(preactivated)@[j],
                pres_at(*self, old(activated)@, i as int, self.loopbacks@[i].1 as int, j - self.loopbacks@[i].0)), //@ob accumulation_of_preactivations
        // nothing before the range is touched
        self.loopbacks@.contains_key(i) ==> forall|j: int| 0 <= j <= self.loopbacks@[i].0 ==> #[trigger] final(activated)@[j] == old(activated)@[j], //@ob frame_activated
        self.loopbacks@.contains_key(i) ==> forall|j: int| 0 <= j < self.loopbacks@[i].0 ==> #[trigger] final(preactivated)@[j] == old(preactivated)@[j], //@ob frame_preactivated
{
    broadcast use vstd::std_specs::hash::group_hash_axioms;
    let ghost a = activated@;
    let ghost u = preactivated@;
    let _n = activated.len();   // (brings `activated@.len() <= usize::MAX` into scope; no effect)
    //@body file=src/network.rs impl=Network fn=forward part="region:/if self\.loopbacks\.contains_key\(&i\) \{/../if self\.loopbacks\.contains_key\(&i\) \{/" rewrites=R13,R16,R19,R20,R21,R22,R24 loops=8 protect=preactivated,activated,fpres,fposts,current
    //@skip /if let Some\(Some\(max\)\) = maxpools\.get_mut\(j\) \{/../get_mut/ #1
    //@skip /if let Some\(Some\(max\)\) = maxpools\.get_mut\(j\) \{/../get_mut/ #2
    //@skip /if let Some\(Some\(max\)\) = maxpools\.get_mut\(j\) \{/../get_mut/ #3
    //@skip /if let Some\(Some\(max\)\) = maxpools\.get_mut\(j\) \{/../get_mut/ #4
    //@skip /if let Some\(Some\(max\)\) = maxpools\.get_mut\(j\) \{/../get_mut/ #5
    //@skip /let fmax: Vec<&Option<tensor::Tensor>> =/../collect\(\);/
    //@loop 1
            invariant
                self.loopbacks@.contains_key(i), (into, iterations, inskips) == self.loopbacks@[i], into <= i, i < self.layers@.len(),
                activated@ == a, preactivated@ == u, activated@.len() == i + 2, i + 2 <= usize::MAX,
                fposts@.len() == __it + 1, fpres@.len() == __it,
                fposts@[0]@ =~= seq![a[i + 1]],
                forall|s: int| 1 <= s <= __it ==> (#[trigger] fposts@[s])@.len() == i + 1 - into,
                forall|s: int| 0 <= s < __it ==> (#[trigger] fpres@[s])@.len() == i + 1 - into,
                forall|s: int, t: int| 1 <= s <= __it && 0 <= t < i + 1 - into ==> #[trigger] fposts@[s]@[t] == pass(*self, a, i as int, s - 1)[t].1, //@ob successive_outputs.inv
                forall|s: int, t: int| 0 <= s < __it && 0 <= t < i + 1 - into ==> #[trigger] fpres@[s]@[t] == pass(*self, a, i as int, s)[t].0, //@ob successive_outputs.inv
    //@end
    //@before /let \(fpre, fpost, fmax, _\) = self\._forward/
                    proof {
                        lemma_pass_len(*self, a, i as int, __it as int);
                        if __it > 0 { lemma_pass_len(*self, a, i as int, __it - 1); }
                        assert(current == fed_back(*self, a, i as int, if __it == 0 { a[i + 1] } else { pass(*self, a, i as int, __it - 1)[i - into].1 })); //@ob fed_back_is_previous_output_plus_original_input
                    }
    //@end
    //@loop 2
            invariant
                ${CTX}
                ${PASSES}
                idx <= i + 1 - into,
                ${DONE}
                ${TODO_OUTER}
    //@end
    //@loop 3
            invariant
                ${CTX}
                ${PASSES}
                idx < i + 1 - into, j == into + idx, self.loopaccumulation is Add,
                ${DONE}
                ${TODO_INNER}
                activated@[j + 1] == fold_op(self.loopaccumulation, a[j + 1], posts_at(*self, a, i as int, iterations as int, idx as int), iteration as int), //@ob fold.inv
                preactivated@[j as int] == fold_op(self.loopaccumulation, u[j as int], pres_at(*self, a, i as int, iterations as int, idx as int), iteration as int), //@ob fold.inv
    //@end
    //@loop 4
            invariant
                ${CTX}
                ${PASSES}
                idx < i + 1 - into, j == into + idx, self.loopaccumulation is Subtract,
                ${DONE}
                ${TODO_INNER}
                activated@[j + 1] == fold_op(self.loopaccumulation, a[j + 1], posts_at(*self, a, i as int, iterations as int, idx as int), iteration as int), //@ob fold.inv
                preactivated@[j as int] == fold_op(self.loopaccumulation, u[j as int], pres_at(*self, a, i as int, iterations as int, idx as int), iteration as int), //@ob fold.inv
    //@end
    //@loop 5
            invariant
                ${CTX}
                ${PASSES}
                idx < i + 1 - into, j == into + idx, self.loopaccumulation is Multiply,
                ${DONE}
                ${TODO_INNER}
                activated@[j + 1] == fold_op(self.loopaccumulation, a[j + 1], posts_at(*self, a, i as int, iterations as int, idx as int), iteration as int), //@ob fold.inv
                preactivated@[j as int] == fold_op(self.loopaccumulation, u[j as int], pres_at(*self, a, i as int, iterations as int, idx as int), iteration as int), //@ob fold.inv
    //@end
    //@loop 6
            invariant
                ${CTX}
                ${PASSES}
                idx < i + 1 - into, j == into + idx, self.loopaccumulation is Overwrite,
                ${DONE}
                ${TODO_INNER}
                activated@[j + 1] == (if iteration == 0 { a[j + 1] } else { pass(*self, a, i as int, iteration - 1)[idx as int].1 }), //@ob last_pass.inv
                preactivated@[j as int] == (if iteration == 0 { u[j as int] } else { pass(*self, a, i as int, iteration - 1)[idx as int].0 }), //@ob last_pass.inv
    //@end
    //@loop 7
            invariant
                ${CTX}
                ${PASSES}
                idx < i + 1 - into, j == into + idx,
                fpre@.len() == __k,
                forall|t: int| 0 <= t < __k ==> *(#[trigger] fpre@[t]) == pass(*self, a, i as int, t)[idx as int].0, //@ob mean_operands.inv
    //@end
    //@loop 8
            invariant
                ${CTX}
                ${PASSES}
                idx < i + 1 - into, j == into + idx,
                fpost@.len() == __k,
                forall|t: int| 0 <= t < __k ==> *(#[trigger] fpost@[t]) == pass(*self, a, i as int, t)[idx as int].1, //@ob mean_operands.inv
    //@end
    //@before /preactivated\[j\]\.mean_inplace\(&fpre\);/
                            proof {
                                assert(derefs(fpre@) =~= pres_at(*self, a, i as int, iterations as int, idx as int));
                                assert(derefs(fpost@) =~= posts_at(*self, a, i as int, iterations as int, idx as int));
                            }
    //@end
    //@endbody
}
}
//@endunit

// ---- the whole forward pass: fold over the layers of (skip-combine; apply the layer; loop-accumulate) ---------------------------
/// the input layer j processes, given the activations recorded so far
pub open spec fn processed_input(net: Network, a: Seq<Tensor>, j: int) -> Tensor {
    if net.connect@.contains_key(j as usize) { combined(net.skipaccumulation, a[j], a[net.connect@[j as usize] as int]) } else { a[j] }
}
/// what a loop connection out of layer i does to the recorded (pre-activations, activations): exactly the postcondition of unit
/// network.forward.loopback, as a function
pub open spec fn loop_update(net: Network, u: Seq<Tensor>, a: Seq<Tensor>, i: int) -> (Seq<Tensor>, Seq<Tensor>) {
    if !net.loopbacks@.contains_key(i as usize) { (u, a) } else {
        let (into, k, inskips) = net.loopbacks@[i as usize];
        (Seq::new(u.len(), |p: int| if into <= p <= i { accumulated(net.loopaccumulation, u[p], pres_at(net, a, i, k as int, p - into)) } else { u[p] }),
         Seq::new(a.len(), |p: int| if into < p <= i + 1 { accumulated(net.loopaccumulation, a[p], posts_at(net, a, i, k as int, p - 1 - into)) } else { a[p] }))
    }
}
/// recorded (pre-activations, activations) after layers 0..i
pub open spec fn state(net: Network, input: Tensor, i: int) -> (Seq<Tensor>, Seq<Tensor>)
    decreases i
{
    if i <= 0 { (Seq::empty(), seq![input]) } else {
        let (u, a) = state(net, input, i - 1);
        let r = layer_fwd(net.layers@[i - 1], processed_input(net, a, i - 1));
        loop_update(net, u.push(r.0), a.push(r.1), i - 1)
    }
}
pub proof fn lemma_state_len(net: Network, input: Tensor, i: int)
    requires i >= 0
    ensures state(net, input, i).0.len() == i, state(net, input, i).1.len() == i + 1
    decreases i
{ if i > 0 { lemma_state_len(net, input, i - 1); } }

//@unit network.forward prop=C02,C16,C17 search=loopback.forward
impl Network {
pub fn forward(
    &self,
    input: &tensor::Tensor,
) -> (r: (
    Vec<tensor::Tensor>,
    Vec<tensor::Tensor>,
    Vec<Option<tensor::Tensor>>,
    Vec<Vec<tensor::Tensor>>,
))
    requires
        // what Network::connect / Network::loopback validated when the connections were made: source <= target, into <= outof
        forall|t: usize| #[trigger] self.connect@.contains_key(t) ==> self.connect@[t] <= t,
        forall|t: usize| #[trigger] self.loopbacks@.contains_key(t) ==> self.loopbacks@[t].0 <= t,
        //@requires-extra
    ensures
        r.0@.len() == self.layers@.len(), r.1@.len() == self.layers@.len() + 1, //@ob one_entry_per_layer
        r.0@ == state(*self, *input, self.layers@.len() as int).0, //@ob preactivations_are_the_fold_over_the_layers
        // in particular the prediction (the last activation): every layer applied in order to its skip-combined input, loop
        // connections accumulated
        r.1@ == state(*self, *input, self.layers@.len() as int).1, //@ob activations_are_the_fold_over_the_layers
{
    broadcast use vstd::std_specs::hash::group_hash_axioms;
    //@body file=src/network.rs impl=Network fn=forward part=whole rewrites=R19 loops=1 protect=preactivated,activated,x
    //@outline unit=network.forward.skip call="x = self.forward_skip_region(i, x, &activated);"
    //@outline unit=network.forward.loopback call="self.forward_loopback_region(i, &mut preactivated, &mut activated, &mut maxpools);"
    //@skip /feedbacks\.extend\(fbs\);/../feedbacks\.extend\(fbs\);/
    //@loop 1
            invariant
                forall|t: usize| #[trigger] self.connect@.contains_key(t) ==> self.connect@[t] <= t,
                forall|t: usize| #[trigger] self.loopbacks@.contains_key(t) ==> self.loopbacks@[t].0 <= t,
                preactivated@.len() == i, activated@.len() == i + 1,
                preactivated@ == state(*self, *input, i as int).0, //@ob preactivations_are_the_fold_over_the_layers.inv
                activated@ == state(*self, *input, i as int).1, //@ob activations_are_the_fold_over_the_layers.inv
    //@end
    //@before /self\.forward_loopback_region\(/
            proof {
                lemma_run_len(self.layers@, x, i as int, 1);
                assert(run(self.layers@, x, i as int, 1)[0] == layer_fwd(self.layers@[i as int], x));
                assert(x == processed_input(*self, state(*self, *input, i as int).1, i as int)); //@ob layer_receives_its_skip_combined_input
                assert(preactivated@ =~= state(*self, *input, i as int).0.push(layer_fwd(self.layers@[i as int], x).0)); //@ob layer_output_recorded
                assert(activated@ =~= state(*self, *input, i as int).1.push(layer_fwd(self.layers@[i as int], x).1)); //@ob layer_output_recorded
            }
            let ghost u0 = preactivated@;
            let ghost a0 = activated@;
    //@end
    //@after /self\.forward_loopback_region\(/
            proof {
                assert(preactivated@ =~= loop_update(*self, u0, a0, i as int).0);
                assert(activated@ =~= loop_update(*self, u0, a0, i as int).1);
            }
    //@end
    //@endbody
}
}
//@endunit

//@unit network.predict prop=C12,C02
impl Network {
pub fn predict(&self, input: &tensor::Tensor) -> (r: tensor::Tensor)
    requires
        forall|t: usize| #[trigger] self.connect@.contains_key(t) ==> self.connect@[t] <= t,
        forall|t: usize| #[trigger] self.loopbacks@.contains_key(t) ==> self.loopbacks@[t].0 <= t,
        //@requires-extra
    ensures
        // the prediction is the last activation of the forward pass
        r == state(*self, *input, self.layers@.len() as int).1[self.layers@.len() as int], //@ob predict_is_the_final_activation_of_forward
{
    //@body file=src/network.rs impl=Network fn=predict part=whole rewrites=R19 loops=0
    //@endbody
}
}
//@endunit
} // verus!
fn main() {}
