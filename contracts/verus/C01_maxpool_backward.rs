//@include prelude.rs
verus! {
// F1 law used here: x * (1.0 / 1.0) == x   (exact in IEEE-754; put to CBMC over all bit patterns)
pub broadcast axiom fn fmul_one_over_one(x: f32) ensures #[trigger] fmul(x, fdiv(1.0f32, 1.0f32)) == x;

pub struct Maxpool { pub loops: f32, pub _verus_pad: Option<f32> }
pub open spec fn rect3i1(m: Seq<Vec<Vec<Vec<(usize, usize)>>>>, c: int, h: int, w: int, ih: int, iw: int) -> bool {
    m.len() == c && forall|i: int| 0 <= i < c ==> (#[trigger] m[i]).len() == h
        && forall|j: int| 0 <= j < h ==> (#[trigger] m[i][j]).len() == w
            && forall|k: int| 0 <= k < w ==> (#[trigger] m[i][j][k]).len() == 1 && m[i][j][k][0].0 < ih && m[i][j][k][0].1 < iw
}

// ---- routing (property C01): the derivative of a window maximum w.r.t. an input cell is 1 if that cell is the recorded
// arg-max of the window and 0 otherwise (away from ties), so the input gradient of cell (y, x) is the sum of the upstream
// gradients of the windows whose recorded index is (y, x) - accumulated in (h, w) order, each step scaled by 1/loops.
pub struct Ctx { pub og: Seq<Vec<Vec<f32>>>, pub max: Seq<Vec<Vec<Vec<(usize, usize)>>>>, pub scale: f32, pub ow: int }
pub open spec fn step(g: Ctx, c: int, h: int, w: int, y: int, x: int, sum: f32) -> f32 {
    if g.max[c]@[h]@[w]@[0].0 == y && g.max[c]@[h]@[w]@[0].1 == x { fmul(fadd(sum, g.og[c]@[h]@[w]), g.scale) } else { sum }
}
pub open spec fn r2(g: Ctx, c: int, h: int, n: int, y: int, x: int, init: f32) -> f32
    decreases n
{ if n <= 0 { init } else { step(g, c, h, n - 1, y, x, r2(g, c, h, n - 1, y, x, init)) } }
pub open spec fn r1(g: Ctx, c: int, n: int, y: int, x: int, init: f32) -> f32
    decreases n
{ if n <= 0 { init } else { r2(g, c, n - 1, g.ow, y, x, r1(g, c, n - 1, y, x, init)) } }

// for a layer outside any loop-back (loops == 1.0) the scaling is the identity (F1 law above): plain routed sum
proof fn lemma_unit_scale(g: Ctx, c: int, h: int, w: int, y: int, x: int, sum: f32)
    requires g.scale == fdiv(1.0f32, 1.0f32)
    ensures step(g, c, h, w, y, x, sum) == (if g.max[c]@[h]@[w]@[0].0 == y && g.max[c]@[h]@[w]@[0].1 == x { fadd(sum, g.og[c]@[h]@[w]) } else { sum })
{
    broadcast use fmul_one_over_one;
}

//@def BASE
                ic == ogradient@.len(), oh == ogradient@[0]@.len(), ow == ogradient@[0]@[0]@.len(),
                rect3(ogradient@, ic as int, oh as int, ow as int), rect3i1(max@, ic as int, oh as int, ow as int, ih as int, iw as int),
                rect3(igradient@, ic as int, ih as int, iw as int),
                g == (Ctx { og: ogradient@, max: max@, scale: fdiv(1.0f32, self.loops), ow: ow as int }),
                forall|cc: int, y: int, x: int| 0 <= cc < c && 0 <= y < ih && 0 <= x < iw ==> #[trigger] igradient@[cc]@[y]@[x] == r1(g, cc, oh as int, y, x, 0.0f32), //@ob routing.inv
//@end
//@def ZERO_GT
                forall|cc: int, y: int, x: int| c < cc < ic && 0 <= y < ih && 0 <= x < iw ==> #[trigger] igradient@[cc]@[y]@[x] == 0.0f32,
//@end

//@unit maxpool.backward prop=C01 search=pool.backward
impl Maxpool {
fn backward_nest(&self, ogradient: &Vec<Vec<Vec<f32>>>, max: &Vec<Vec<Vec<Vec<(usize, usize)>>>>, ic: usize, ih: usize, iw: usize) -> (igradient: Vec<Vec<Vec<f32>>>)
    requires
        ic >= 1, ogradient@.len() == ic, ogradient@[0]@.len() >= 1, ogradient@[0]@[0]@.len() >= 1,
        rect3(ogradient@, ic as int, ogradient@[0]@.len() as int, ogradient@[0]@[0]@.len() as int),
        // the index tensor recorded by the forward pass: one in-range index per output cell
        rect3i1(max@, ic as int, ogradient@[0]@.len() as int, ogradient@[0]@[0]@.len() as int, ih as int, iw as int),
        //@requires-extra
    ensures
        rect3(igradient@, ic as int, ih as int, iw as int), //@ob shape
        forall|c: int, y: int, x: int| 0 <= c < ic && 0 <= y < ih && 0 <= x < iw ==>
            #[trigger] igradient@[c]@[y]@[x] == r1(Ctx { og: ogradient@, max: max@, scale: fdiv(1.0f32, self.loops), ow: ogradient@[0]@[0]@.len() as int }, c, ogradient@[0]@.len() as int, y, x, 0.0f32), //@ob routing
{
    //@body file=src/maxpool.rs impl=Maxpool fn=backward part="region:/let mut igradient = vec!/../for c in 0\.\.ic \{/" rewrites=R1,R15 loops=4
    //@after /let \(oh, ow\) = \(ogradient\[0\]\.len\(\), ogradient\[0\]\[0\]\.len\(\)\);/
        let ghost g = Ctx { og: ogradient@, max: max@, scale: fdiv(1.0f32, self.loops), ow: ow as int };
    //@end
    //@loop 1
            invariant
                ${BASE}
                forall|cc: int, y: int, x: int| c <= cc < ic && 0 <= y < ih && 0 <= x < iw ==> #[trigger] igradient@[cc]@[y]@[x] == 0.0f32,
    //@end
    //@loop 2
            invariant
                ${BASE}
                ${ZERO_GT}
                c < ic,
                forall|y: int, x: int| 0 <= y < ih && 0 <= x < iw ==> #[trigger] igradient@[c as int]@[y]@[x] == r1(g, c as int, h as int, y, x, 0.0f32), //@ob routing.inv
    //@end
    //@loop 3
            invariant
                ${BASE}
                ${ZERO_GT}
                c < ic, h < oh,
                forall|y: int, x: int| 0 <= y < ih && 0 <= x < iw ==> #[trigger] igradient@[c as int]@[y]@[x] == r2(g, c as int, h as int, w as int, y, x, r1(g, c as int, h as int, y, x, 0.0f32)), //@ob routing.inv
    //@end
    //@loop 4
            invariant
                ${BASE}
                ${ZERO_GT}
                c < ic, h < oh, w < ow, __ix1 <= 1,
                forall|y: int, x: int| 0 <= y < ih && 0 <= x < iw ==> #[trigger] igradient@[c as int]@[y]@[x] ==
                    (if __ix1 == 0 { r2(g, c as int, h as int, w as int, y, x, r1(g, c as int, h as int, y, x, 0.0f32)) }
                     else { r2(g, c as int, h as int, w as int + 1, y, x, r1(g, c as int, h as int, y, x, 0.0f32)) }), //@ob routing.inv
    //@end
    //@before /igradient\[c\]\[\*mh\]\[\*mw\] = /
                        broadcast use {f32_total};
                        proof { f32_obeys(); }
    //@end
    //@endbody
    igradient
}
}
//@endunit
} // verus!
fn main() {}
