//@include prelude.rs
verus! {
// R5: Deconvolution reduced to the fields the forward / backward nests mention.
pub struct Deconvolution {
    pub stride: (usize, usize),
    pub padding: (usize, usize),
}

// ---- the operator (property C02): strided transposed convolution, cropped by the padding ----
//   full[f][i*s0 + ki][j*s1 + kj] += x[c][i][j] * k[f][c][ki][kj];   y[f][a][b] = full[f][a + p0][b + p1]
// i.e. y[f][a][b] is the sum of x[c][i][j]*k[f][c][ki][kj] over all taps with i*s0 + ki - p0 == a and j*s1 + kj - p1 == b,
// accumulated from 0.0 in (c, i, j, ki, kj) order (only that order is pinned beyond the definition, F1).
pub struct Ctx<'a> {
    pub s: Deconvolution,
    pub x: Seq<Vec<Vec<f32>>>,
    pub k: Seq<&'a Vec<Vec<Vec<f32>>>>,
    pub ih: int, pub iw: int, pub kh: int, pub kw: int,
}
pub open spec fn tap(g: Ctx<'_>, f: int, c: int, i: int, j: int, ki: int, kj: int, a: int, b: int) -> Option<f32> {
    if i * g.s.stride.0 + ki - g.s.padding.0 == a && j * g.s.stride.1 + kj - g.s.padding.1 == b {
        Some(fmul(g.x[c]@[i]@[j], g.k[f]@[c]@[ki]@[kj]))
    } else { None }
}
pub open spec fn acc(sum: f32, t: Option<f32>) -> f32 { match t { Some(v) => fadd(sum, v), None => sum } }
pub open spec fn f5(g: Ctx<'_>, f: int, c: int, i: int, j: int, ki: int, n: int, a: int, b: int, init: f32) -> f32
    decreases n
{ if n <= 0 { init } else { acc(f5(g, f, c, i, j, ki, n - 1, a, b, init), tap(g, f, c, i, j, ki, n - 1, a, b)) } }
pub open spec fn f4(g: Ctx<'_>, f: int, c: int, i: int, j: int, n: int, a: int, b: int, init: f32) -> f32
    decreases n
{ if n <= 0 { init } else { f5(g, f, c, i, j, n - 1, g.kw, a, b, f4(g, f, c, i, j, n - 1, a, b, init)) } }
pub open spec fn f3(g: Ctx<'_>, f: int, c: int, i: int, n: int, a: int, b: int, init: f32) -> f32
    decreases n
{ if n <= 0 { init } else { f4(g, f, c, i, n - 1, g.kh, a, b, f3(g, f, c, i, n - 1, a, b, init)) } }
pub open spec fn f2(g: Ctx<'_>, f: int, c: int, n: int, a: int, b: int, init: f32) -> f32
    decreases n
{ if n <= 0 { init } else { f3(g, f, c, n - 1, g.iw, a, b, f2(g, f, c, n - 1, a, b, init)) } }
pub open spec fn f1(g: Ctx<'_>, f: int, n: int, a: int, b: int, init: f32) -> f32
    decreases n
{ if n <= 0 { init } else { f2(g, f, n - 1, g.ih, a, b, f1(g, f, n - 1, a, b, init)) } }
pub open spec fn tconv(g: Ctx<'_>, kc: int, f: int, a: int, b: int) -> f32 { f1(g, f, kc, a, b, 0.0f32) }
pub open spec fn zeros_from(y: Seq<Vec<Vec<f32>>>, from: int, oh: int, ow: int) -> bool {
    forall|f: int, a: int, b: int| from <= f < y.len() && 0 <= a < oh && 0 <= b < ow ==> (#[trigger] y[f]@[a]@[b]) == 0.0f32
}
// standard output size of a transposed convolution: (i-1)*s - 2p + k
pub open spec fn deconv_out(i: int, k: int, s: int, p: int) -> int { (i - 1) * s + k - 2 * p }

//@def COMMON
                ih == x@[0]@.len(), iw == x@[0]@[0]@.len(), kf == kernels@.len(), kc == kernels@[0]@.len(), kh == kernels@[0]@[0]@.len(), kw == kernels@[0]@[0]@[0]@.len(),
                rect3(x@, x@.len() as int, ih as int, iw as int), rect4r(kernels@, kf as int, kc as int, kh as int, kw as int), kc <= x@.len(),
                ih < 0x8000_0000, iw < 0x8000_0000, kh < 0x8000_0000, kw < 0x8000_0000,
                self.stride.0 < 0x8000_0000, self.stride.1 < 0x8000_0000, self.padding.0 < 0x8000_0000, self.padding.1 < 0x8000_0000,
                g == (Ctx { s: *self, x: x@, k: kernels@, ih: ih as int, iw: iw as int, kh: kh as int, kw: kw as int }),
                rect3(y@, kf as int, oh as int, ow as int),
//@end
//@def DONE_F
                forall|f: int, a: int, b: int| 0 <= f < k && 0 <= a < oh && 0 <= b < ow ==> #[trigger] y@[f]@[a]@[b] == f1(g, f, kc as int, a, b, 0.0f32), //@ob tconv.inv
//@end

//@unit deconv.forward prop=C02,C08 search=deconv.forward
impl Deconvolution {
fn forward_nest(
    &self,
    x: &Vec<Vec<Vec<f32>>>,
    kernels: &Vec<&Vec<Vec<Vec<f32>>>>,
) -> (y: Vec<Vec<Vec<f32>>>)
    requires
        x@.len() >= 1, x@[0]@.len() >= 1, x@[0]@[0]@.len() >= 1,
        rect3(x@, x@.len() as int, x@[0]@.len() as int, x@[0]@[0]@.len() as int),
        kernels@.len() >= 1, kernels@[0]@.len() >= 1, kernels@[0]@[0]@.len() >= 1, kernels@[0]@[0]@[0]@.len() >= 1,
        rect4r(kernels@, kernels@.len() as int, kernels@[0]@.len() as int, kernels@[0]@[0]@.len() as int, kernels@[0]@[0]@[0]@.len() as int),
        kernels@[0]@.len() <= x@.len(),
        x@[0]@.len() < 0x8000_0000, x@[0]@[0]@.len() < 0x8000_0000,
        self.stride.0 < 0x8000_0000, self.stride.1 < 0x8000_0000,
        self.padding.0 < 0x8000_0000, self.padding.1 < 0x8000_0000,
        kernels@[0]@[0]@.len() < 0x8000_0000, kernels@[0]@[0]@[0]@.len() < 0x8000_0000,
        // valid configuration (C08 quantifier): the announced output size is positive
        deconv_out(x@[0]@.len() as int, kernels@[0]@[0]@.len() as int, self.stride.0 as int, self.padding.0 as int) >= 1,
        deconv_out(x@[0]@[0]@.len() as int, kernels@[0]@[0]@[0]@.len() as int, self.stride.1 as int, self.padding.1 as int) >= 1,
        //@requires-extra
    ensures
        rect3(y@, kernels@.len() as int,
            deconv_out(x@[0]@.len() as int, kernels@[0]@[0]@.len() as int, self.stride.0 as int, self.padding.0 as int),
            deconv_out(x@[0]@[0]@.len() as int, kernels@[0]@[0]@[0]@.len() as int, self.stride.1 as int, self.padding.1 as int)), //@ob shape
        forall|f: int, a: int, b: int| 0 <= f < y@.len() && 0 <= a < y@[f]@.len() && 0 <= b < y@[f]@[a]@.len()
            ==> #[trigger] y@[f]@[a]@[b] == tconv(Ctx { s: *self, x: x@, k: kernels@, ih: x@[0]@.len() as int, iw: x@[0]@[0]@.len() as int, kh: kernels@[0]@[0]@.len() as int, kw: kernels@[0]@[0]@[0]@.len() as int }, kernels@[0]@.len() as int, f, a, b), //@ob tconv
{
    //@body file=src/deconvolution.rs impl=Deconvolution fn=forward part="region:/let \(ih, iw\) = \(x\[0\]\.len\(\), x\[0\]\[0\]\.len\(\)\);/../for k in 0\.\.kf \{/" rewrites=R1,R6 loops=6
    //@before /\/\/ Defining the output dimensions and vector\./
        proof {
            assert((ih - 1) * self.stride.0 < 0x4000_0000_0000_0000) by (nonlinear_arith) requires 0 <= ih - 1 < 0x8000_0000, 0 <= self.stride.0 < 0x8000_0000;
            assert((iw - 1) * self.stride.1 < 0x4000_0000_0000_0000) by (nonlinear_arith) requires 0 <= iw - 1 < 0x8000_0000, 0 <= self.stride.1 < 0x8000_0000;
        }
    //@end
    //@after /let mut y = vec!/
        let ghost g = Ctx { s: *self, x: x@, k: kernels@, ih: ih as int, iw: iw as int, kh: kh as int, kw: kw as int };
        assert(zeros_from(y@, 0, oh as int, ow as int));
    //@end
    //@loop 1
            invariant
                ${COMMON}
                zeros_from(y@, k as int, oh as int, ow as int),
                ${DONE_F}
    //@end
    //@loop 2
            invariant
                ${COMMON}
                k < kf,
                zeros_from(y@, k as int + 1, oh as int, ow as int),
                ${DONE_F}
                forall|a: int, b: int| 0 <= a < oh && 0 <= b < ow ==> #[trigger] y@[k as int]@[a]@[b] == f1(g, k as int, c as int, a, b, 0.0f32), //@ob tconv.inv
    //@end
    //@loop 3
            invariant
                ${COMMON}
                k < kf, c < kc,
                zeros_from(y@, k as int + 1, oh as int, ow as int),
                ${DONE_F}
                forall|a: int, b: int| 0 <= a < oh && 0 <= b < ow ==> #[trigger] y@[k as int]@[a]@[b] == f2(g, k as int, c as int, i as int, a, b, f1(g, k as int, c as int, a, b, 0.0f32)), //@ob tconv.inv
    //@end
    //@loop 4
            invariant
                ${COMMON}
                k < kf, c < kc, i < ih,
                zeros_from(y@, k as int + 1, oh as int, ow as int),
                ${DONE_F}
                forall|a: int, b: int| 0 <= a < oh && 0 <= b < ow ==> #[trigger] y@[k as int]@[a]@[b] == f3(g, k as int, c as int, i as int, j as int, a, b, f2(g, k as int, c as int, i as int, a, b, f1(g, k as int, c as int, a, b, 0.0f32))), //@ob tconv.inv
    //@end
    //@loop 5
            invariant
                ${COMMON}
                k < kf, c < kc, i < ih, j < iw,
                zeros_from(y@, k as int + 1, oh as int, ow as int),
                ${DONE_F}
                forall|a: int, b: int| 0 <= a < oh && 0 <= b < ow ==> #[trigger] y@[k as int]@[a]@[b] == f4(g, k as int, c as int, i as int, j as int, ki as int, a, b, f3(g, k as int, c as int, i as int, j as int, a, b, f2(g, k as int, c as int, i as int, a, b, f1(g, k as int, c as int, a, b, 0.0f32)))), //@ob tconv.inv
    //@end
    //@loop 6
            invariant
                __it1 <= kw,
                ${COMMON}
                k < kf, c < kc, i < ih, j < iw, ki < kh,
                zeros_from(y@, k as int + 1, oh as int, ow as int),
                ${DONE_F}
                forall|a: int, b: int| 0 <= a < oh && 0 <= b < ow ==> #[trigger] y@[k as int]@[a]@[b] == f5(g, k as int, c as int, i as int, j as int, ki as int, __it1 as int, a, b, f4(g, k as int, c as int, i as int, j as int, ki as int, a, b, f3(g, k as int, c as int, i as int, j as int, a, b, f2(g, k as int, c as int, i as int, a, b, f1(g, k as int, c as int, a, b, 0.0f32))))), //@ob tconv.inv
            decreases kw - __it1,
    //@end
    //@before /let oi = /
                                broadcast use {f32_total};
                                proof {
                                    f32_obeys();
                                    assert(i * self.stride.0 < 0x4000_0000_0000_0000) by (nonlinear_arith) requires 0 <= i < 0x8000_0000, 0 <= self.stride.0 < 0x8000_0000;
                                    assert(j * self.stride.1 < 0x4000_0000_0000_0000) by (nonlinear_arith) requires 0 <= j < 0x8000_0000, 0 <= self.stride.1 < 0x8000_0000;
                                }
    //@end
    //@endbody
    y
}
}
//@endunit
} // verus!
fn main() {}
