//@include prelude.rs
verus! {
// The three spatial builders of Network (whole functions): the new layer is created from the shape the previous layer ANNOUNCES (the network's
// input shape for the first layer), with the caller's configuration in order, and appended; nothing else changes.  (What `create` makes of a flat
// shape and of the configuration: units *.flat_accept / *.flat_reject / *.calculate_output_size.)
pub mod tensor {
    use vstd::prelude::*;
    pub enum Shape { Single(usize), Double(usize, usize), Triple(usize, usize, usize), Quadruple(usize, usize, usize, usize), Quintuple(usize, usize, usize, usize, usize), Nested(usize) }
    impl Clone for Shape { #[verifier::external_body] fn clone(&self) -> (r: Self) ensures r == *self { unimplemented!() } }
}
pub mod activation { pub struct Activation { pub kind: u8 } }
#[verifier::external_body] pub struct Rest { _p: u8 }
pub mod dense { pub struct Dense { pub outputs: super::tensor::Shape, pub rest: super::Rest } }
pub mod feedback { pub struct Feedback { pub outputs: super::tensor::Shape, pub rest: super::Rest } }
pub mod convolution {
    use vstd::prelude::*; use super::tensor::Shape; use super::activation::Activation;
    pub struct Convolution { pub outputs: Shape, pub rest: super::Rest }
    pub uninterp spec fn created(inputs: Shape, filters: usize, a: Activation, kernel: (usize, usize), stride: (usize, usize), padding: (usize, usize), dilation: (usize, usize), dropout: Option<f32>) -> Convolution;
    impl Convolution {
        #[verifier::external_body]
        pub fn create(inputs: Shape, filters: usize, activation: &Activation, kernel: (usize, usize), stride: (usize, usize), padding: (usize, usize), dilation: (usize, usize), dropout: Option<f32>) -> (r: Self)
            ensures r == created(inputs, filters, *activation, kernel, stride, padding, dilation, dropout) { unimplemented!() }
    }
}
pub mod deconvolution {
    use vstd::prelude::*; use super::tensor::Shape; use super::activation::Activation;
    pub struct Deconvolution { pub outputs: Shape, pub rest: super::Rest }
    pub uninterp spec fn created(inputs: Shape, filters: usize, a: Activation, kernel: (usize, usize), stride: (usize, usize), padding: (usize, usize), dropout: Option<f32>) -> Deconvolution;
    impl Deconvolution {
        #[verifier::external_body]
        pub fn create(inputs: Shape, filters: usize, activation: &Activation, kernel: (usize, usize), stride: (usize, usize), padding: (usize, usize), dropout: Option<f32>) -> (r: Self)
            ensures r == created(inputs, filters, *activation, kernel, stride, padding, dropout) { unimplemented!() }
    }
}
pub mod maxpool {
    use vstd::prelude::*; use super::tensor::Shape;
    pub struct Maxpool { pub outputs: Shape, pub rest: super::Rest }
    pub uninterp spec fn created(inputs: Shape, kernel: (usize, usize), stride: (usize, usize)) -> Maxpool;
    impl Maxpool {
        #[verifier::external_body]
        pub fn create(inputs: Shape, kernel: (usize, usize), stride: (usize, usize)) -> (r: Self) ensures r == created(inputs, kernel, stride) { unimplemented!() }
    }
}
pub enum Layer { Dense(dense::Dense), Convolution(convolution::Convolution), Deconvolution(deconvolution::Deconvolution), Maxpool(maxpool::Maxpool), Feedback(feedback::Feedback) }
pub struct Network { pub input: tensor::Shape, pub layers: Vec<Layer> }
pub open spec fn outputs_of(l: Layer) -> tensor::Shape {
    match l { Layer::Dense(d) => d.outputs, Layer::Convolution(d) => d.outputs, Layer::Deconvolution(d) => d.outputs, Layer::Maxpool(d) => d.outputs, Layer::Feedback(d) => d.outputs }
}
/// the shape the next layer is built from: what the last layer announces, or the network input
pub open spec fn next_inputs(n: Network) -> tensor::Shape { if n.layers@.len() == 0 { n.input } else { outputs_of(n.layers@[n.layers@.len() - 1]) } }

//@unit network.convolution prop=C08
impl Network {
pub fn convolution(
    &mut self,
    filters: usize,
    kernel: (usize, usize),
    stride: (usize, usize),
    padding: (usize, usize),
    dilation: (usize, usize),
    activation: activation::Activation,
    dropout: Option<f32>,
)
    requires true,
        //@requires-extra
    ensures
        final(self).layers@ == old(self).layers@.push(Layer::Convolution(convolution::created(next_inputs(*old(self)), filters, activation, kernel, stride, padding, dilation, dropout))), //@ob built_from_the_shape_the_previous_layer_announces
        final(self).input == old(self).input,
{
    //@body file=src/network.rs impl=Network fn=convolution part=whole rewrites=R13,R19 loops=0
    //@endbody
}
}
//@endunit

//@unit network.deconvolution prop=C08
impl Network {
pub fn deconvolution(
    &mut self,
    filters: usize,
    kernel: (usize, usize),
    stride: (usize, usize),
    padding: (usize, usize),
    activation: activation::Activation,
    dropout: Option<f32>,
)
    requires true,
        //@requires-extra
    ensures
        final(self).layers@ == old(self).layers@.push(Layer::Deconvolution(deconvolution::created(next_inputs(*old(self)), filters, activation, kernel, stride, padding, dropout))), //@ob built_from_the_shape_the_previous_layer_announces
        final(self).input == old(self).input,
{
    //@body file=src/network.rs impl=Network fn=deconvolution part=whole rewrites=R13,R19 loops=0
    //@endbody
}
}
//@endunit

//@unit network.maxpool prop=C08
impl Network {
pub fn maxpool(&mut self, kernel: (usize, usize), stride: (usize, usize))
    requires true,
        //@requires-extra
    ensures
        final(self).layers@ == old(self).layers@.push(Layer::Maxpool(maxpool::created(next_inputs(*old(self)), kernel, stride))), //@ob built_from_the_shape_the_previous_layer_announces
        final(self).input == old(self).input,
{
    //@body file=src/network.rs impl=Network fn=maxpool part=whole rewrites=R13,R19 loops=0
    //@endbody
}
}
//@endunit
} // verus!
fn main() {}
