//@include prelude.rs
//@include rowmajor.rs
verus! {
// Real `Shape` / `Data` enums and `Tensor` struct (R5: nothing dropped but derives).  These units decide, for EVERY shape, that
// flatten / get_flat / get_triple / reshape keep the row-major element sequence and record a shape that matches the data.
pub enum Shape { Single(usize), Double(usize, usize), Triple(usize, usize, usize), Quadruple(usize, usize, usize, usize), Quintuple(usize, usize, usize, usize, usize), Nested(usize) }
pub enum Data {
    Single(Vec<f32>), Double(Vec<Vec<f32>>), Triple(Vec<Vec<Vec<f32>>>), Quadruple(Vec<Vec<Vec<Vec<f32>>>>),
    Quintuple(Vec<Vec<Vec<Vec<Vec<(usize, usize)>>>>>), Nested(Vec<Tensor>), NestedOptional(Vec<Option<Tensor>>),
}
pub struct Tensor { pub shape: Shape, pub data: Data }

/// type invariant assumed of inputs: the recorded shape matches the data; spatial tensors are non-empty and their element count fits
pub open spec fn wf(t: Tensor) -> bool {
    match (t.shape, t.data) {
        (Shape::Single(n), Data::Single(v)) => v@.len() == n,
        (Shape::Triple(c, h, w), Data::Triple(d)) => rect3(d@, c as int, h as int, w as int) && c >= 1 && h >= 1 && w >= 1 && c * h * w < 0x4000_0000_0000_0000,
        (Shape::Single(_), _) | (Shape::Triple(_, _, _), _) | (_, Data::Single(_)) | (_, Data::Triple(_)) => false,
        _ => true,
    }
}
// algebraic identities of the layout (no range conditions)
//@def FLAT_CTX
                rect3(data@, cc, hh, ww), cc >= 1, hh >= 1, ww >= 1, cc * hh * ww < 0x4000_0000_0000_0000,
//@end
//@def FLAT_DONE
                forall|c: int, h: int, w: int| 0 <= c < ${C} && 0 <= h < hh && 0 <= w < ww ==> ${F}@[rm(c, h, w, hh, ww)] == #[trigger] data@[c]@[h]@[w], //@ob row_major.inv
//@end
//@def FLAT_ROWS
                forall|h: int, w: int| 0 <= h < ${H} && 0 <= w < ww ==> ${F}@[rm(${C} as int, h, w, hh, ww)] == #[trigger] data@[${C} as int]@[h]@[w], //@ob row_major.inv
//@end

//@unit tensor.flatten prop=C14 search=reshape.rowmajor
impl Tensor {
pub fn flatten(&self) -> (r: Self)
    requires wf(*self),
        //@requires-extra
    ensures
        self.data is Triple ==> r.data is Single && r.shape == Shape::Single(r.data->Single_0@.len() as usize)
            && is_row_major(r.data->Single_0@, self.data->Triple_0@, self.shape->Triple_0 as int, self.shape->Triple_1 as int, self.shape->Triple_2 as int), //@ob spatial_to_flat_keeps_the_row_major_sequence
        self.data is Single ==> r.data is Single && r.data->Single_0@ == self.data->Single_0@ && r.shape == Shape::Single(self.data->Single_0@.len() as usize), //@ob flat_stays_as_it_is
        wf(r), //@ob recorded_shape_matches_the_data
{
    let ghost cc = self.shape->Triple_0 as int;
    let ghost hh = self.shape->Triple_1 as int;
    let ghost ww = self.shape->Triple_2 as int;
    //@body file=src/tensor.rs impl=Tensor fn=flatten part=whole rewrites=R13,R36,R37 loops=3
    //@type flattened = Vec<f32>
    //@before /let size = /
                proof {
                    assert(data@[0]@.len() == hh && data@[0]@[0]@.len() == ww);
                    assert(cc * hh == (cc * hh)) by (nonlinear_arith);
                    assert(cc * hh <= cc * hh * ww) by (nonlinear_arith) requires cc >= 1, hh >= 1, ww >= 1;
                }
    //@end
    //@after /let mut flattened: /
                proof { assert(0 * hh * ww == 0) by (nonlinear_arith); }
    //@end
    //@after /let channel = &data\[__j1\];/
                    proof { lemma_rm_alg(__j1 as int, 0, 0, hh, ww); lemma_rm_alg(__j1 as int, hh, 0, hh, ww); }
    //@end
    //@after /let row = &channel\[__j2\];/
                        proof { lemma_rm_alg(__j1 as int, __j2 as int, 0, hh, ww); lemma_rm_alg(__j1 as int, __j2 as int, ww, hh, ww); }
    //@end
    //@inline-after /flattened\.push\([^;]*\);/
        proof {
            lemma_rm_alg(__j1 as int, __j2 as int, __e as int, hh, ww); lemma_rm_alg(__j1 as int, __j2 as int, __e as int + 1, hh, ww);
            assert forall|c: int, h: int, w: int| 0 <= c < __j1 && 0 <= h < hh && 0 <= w < ww implies rm(c, h, w, hh, ww) < rm(__j1 as int, __j2 as int, __e as int, hh, ww) by { lemma_rm_order(c, h, w, __j1 as int, __j2 as int, __e as int, cc, hh, ww); }
            assert forall|h: int, w: int| 0 <= h < __j2 && 0 <= w < ww implies rm(__j1 as int, h, w, hh, ww) < rm(__j1 as int, __j2 as int, __e as int, hh, ww) by { lemma_rm_order(__j1 as int, h, w, __j1 as int, __j2 as int, __e as int, cc, hh, ww); }
            assert forall|w: int| 0 <= w < __e implies rm(__j1 as int, __j2 as int, w, hh, ww) < rm(__j1 as int, __j2 as int, __e as int, hh, ww) by { lemma_rm_order(__j1 as int, __j2 as int, w, __j1 as int, __j2 as int, __e as int, cc, hh, ww); }
        }
    //@end
    //@loop 1
            invariant
                ${FLAT_CTX}
                flattened@.len() == __j1 * hh * ww,
                ${FLAT_DONE:C=__j1,F=flattened}
    //@end
    //@loop 2
            invariant
                ${FLAT_CTX}
                __j1 < cc, channel == &data@[__j1 as int],
                flattened@.len() == rm(__j1 as int, __j2 as int, 0, hh, ww),
                ${FLAT_DONE:C=__j1,F=flattened}
                ${FLAT_ROWS:C=__j1,H=__j2,F=flattened}
    //@end
    //@loop 3
            invariant
                ${FLAT_CTX}
                __j1 < cc, __j2 < hh, channel == &data@[__j1 as int], row == &data@[__j1 as int]@[__j2 as int],
                flattened@.len() == rm(__j1 as int, __j2 as int, __e as int, hh, ww),
                ${FLAT_DONE:C=__j1,F=flattened}
                ${FLAT_ROWS:C=__j1,H=__j2,F=flattened}
                forall|w: int| 0 <= w < __e ==> flattened@[rm(__j1 as int, __j2 as int, w, hh, ww)] == #[trigger] data@[__j1 as int]@[__j2 as int]@[w], //@ob row_major.inv
    //@end
    //@endbody
}
}
//@endunit

//@unit tensor.get_flat prop=C14 search=reshape.rowmajor
impl Tensor {
pub fn get_flat(&self) -> (r: Vec<f32>)
    requires wf(*self),
        //@requires-extra
    ensures
        self.data is Triple ==> is_row_major(r@, self.data->Triple_0@, self.shape->Triple_0 as int, self.shape->Triple_1 as int, self.shape->Triple_2 as int), //@ob spatial_to_flat_keeps_the_row_major_sequence
        self.data is Single ==> r@ == self.data->Single_0@, //@ob flat_stays_as_it_is
{
    let ghost cc = self.shape->Triple_0 as int;
    let ghost hh = self.shape->Triple_1 as int;
    let ghost ww = self.shape->Triple_2 as int;
    //@body file=src/tensor.rs impl=Tensor fn=get_flat part=whole rewrites=R13,R38 loops=3
    //@inline-after /let mut __f: Vec<f32> = Vec::new\(\);/
        proof { assert(0 * hh * ww == 0) by (nonlinear_arith); }
    //@end
    //@inline-after /let channel = &data\[__a\];/
        proof { lemma_rm_alg(__a as int, 0, 0, hh, ww); lemma_rm_alg(__a as int, hh, 0, hh, ww); }
    //@end
    //@inline-after /let row = &channel\[__b\];/
        proof { lemma_rm_alg(__a as int, __b as int, 0, hh, ww); lemma_rm_alg(__a as int, __b as int, ww, hh, ww); }
    //@end
    //@inline-after /__f\.push\([^;]*\);/
        proof {
            lemma_rm_alg(__a as int, __b as int, __c as int, hh, ww); lemma_rm_alg(__a as int, __b as int, __c as int + 1, hh, ww);
            assert forall|c: int, h: int, w: int| 0 <= c < __a && 0 <= h < hh && 0 <= w < ww implies rm(c, h, w, hh, ww) < rm(__a as int, __b as int, __c as int, hh, ww) by { lemma_rm_order(c, h, w, __a as int, __b as int, __c as int, cc, hh, ww); }
            assert forall|h: int, w: int| 0 <= h < __b && 0 <= w < ww implies rm(__a as int, h, w, hh, ww) < rm(__a as int, __b as int, __c as int, hh, ww) by { lemma_rm_order(__a as int, h, w, __a as int, __b as int, __c as int, cc, hh, ww); }
            assert forall|w: int| 0 <= w < __c implies rm(__a as int, __b as int, w, hh, ww) < rm(__a as int, __b as int, __c as int, hh, ww) by { lemma_rm_order(__a as int, __b as int, w, __a as int, __b as int, __c as int, cc, hh, ww); }
        }
    //@end
    //@loop 1
            invariant
                ${FLAT_CTX}
                __f@.len() == __a * hh * ww,
                ${FLAT_DONE:C=__a,F=__f}
    //@end
    //@loop 2
            invariant
                ${FLAT_CTX}
                __a < cc, channel == &data@[__a as int],
                __f@.len() == rm(__a as int, __b as int, 0, hh, ww),
                ${FLAT_DONE:C=__a,F=__f}
                ${FLAT_ROWS:C=__a,H=__b,F=__f}
    //@end
    //@loop 3
            invariant
                ${FLAT_CTX}
                __a < cc, __b < hh, channel == &data@[__a as int], row == &data@[__a as int]@[__b as int],
                __f@.len() == rm(__a as int, __b as int, __c as int, hh, ww),
                ${FLAT_DONE:C=__a,F=__f}
                ${FLAT_ROWS:C=__a,H=__b,F=__f}
                forall|w: int| 0 <= w < __c ==> __f@[rm(__a as int, __b as int, w, hh, ww)] == #[trigger] data@[__a as int]@[__b as int]@[w], //@ob row_major.inv
    //@end
    //@endbody
}
}
//@endunit

//@def UNFLAT_CTX
                cc >= 0, hh >= 0, ww >= 0, cc * hh * ww <= __src@.len(), cc * hh * ww < 0x4000_0000_0000_0000,
//@end
//@def UNFLAT_DONE
                rect3(__o3@, ${P} as int, hh, ww),
                forall|c: int, h: int, w: int| 0 <= c < ${P} && 0 <= h < hh && 0 <= w < ww ==> #[trigger] __o3@[c]@[h]@[w] == __src@[rm(c, h, w, hh, ww)], //@ob unflatten_row_major.inv
//@end
//@def UNFLAT_ROWS
                rect2(__o2@, ${Q} as int, ww),
                forall|h: int, w: int| 0 <= h < ${Q} && 0 <= w < ww ==> #[trigger] __o2@[h]@[w] == __src@[rm(${P} as int, h, w, hh, ww)], //@ob unflatten_row_major.inv
//@end
//@unit tensor.get_triple prop=C14 search=reshape.rowmajor
impl Tensor {
pub fn get_triple(&self, outputs: &Shape) -> (r: Vec<Vec<Vec<f32>>>)
    requires wf(*self),
        // the requested extents fit (a flat tensor shorter than the requested block panics in the code; a product that does not fit overflows)
        (self.data is Single && *outputs is Triple) ==> outputs->Triple_0 * outputs->Triple_1 * outputs->Triple_2 <= self.data->Single_0@.len()
            && outputs->Triple_0 * outputs->Triple_1 * outputs->Triple_2 < 0x4000_0000_0000_0000,
        //@requires-extra
    ensures
        self.data is Single ==> rect3(r@, outputs->Triple_0 as int, outputs->Triple_1 as int, outputs->Triple_2 as int)
            && forall|c: int, h: int, w: int| 0 <= c < outputs->Triple_0 && 0 <= h < outputs->Triple_1 && 0 <= w < outputs->Triple_2
                ==> #[trigger] r@[c]@[h]@[w] == self.data->Single_0@[rm(c, h, w, outputs->Triple_1 as int, outputs->Triple_2 as int)], //@ob flat_to_spatial_keeps_the_row_major_sequence
        self.data is Triple ==> r@.len() == self.data->Triple_0@.len() && forall|c: int, h: int, w: int| 0 <= c < r@.len() && 0 <= h < r@[c]@.len() && 0 <= w < r@[c]@[h]@.len()
            ==> #[trigger] r@[c]@[h]@[w] == self.data->Triple_0@[c]@[h]@[w], //@ob spatial_stays_as_it_is
{
    let ghost cc = outputs->Triple_0 as int;
    let ghost hh = outputs->Triple_1 as int;
    let ghost ww = outputs->Triple_2 as int;
    //@body file=src/tensor.rs impl=Tensor fn=get_triple part=whole rewrites=R13,R39 loops=3
    //@inline-after /let mut __o2: Vec<Vec<f32>> = Vec::new\(\);/ #1
        proof { lemma_rm_alg(__p as int, 0, 0, hh, ww); lemma_rm_alg(__p as int, hh, 0, hh, ww); }
    //@end
    //@inline-after /let mut __o1: Vec<f32> = Vec::new\(\);/ #1
        proof { lemma_rm_alg(__p as int, __q as int, 0, hh, ww); lemma_rm_alg(__p as int, __q as int, ww, hh, ww); }
    //@end
    //@inline-after /for __r in 0\.\.\*?\w+\s*\{/ #1
        proof { lemma_rm_alg(__p as int, __q as int, __r as int, hh, ww); lemma_rm_alg(__p as int, __q as int, __r as int + 1, hh, ww); lemma_rm(__p as int, __q as int, __r as int, cc, hh, ww); }
    //@end
    //@inline-after /let mut __it: usize = 0;/
        proof { assert(0 * hh * ww == 0) by (nonlinear_arith); }
    //@end
    //@loop 1
            invariant
                ${UNFLAT_CTX}
                oc == cc, oh == hh, ow == ww, __it == __p * hh * ww,
                ${UNFLAT_DONE:P=__p}
    //@end
    //@loop 2
            invariant
                ${UNFLAT_CTX}
                oc == cc, oh == hh, ow == ww, __p < cc, __it == rm(__p as int, __q as int, 0, hh, ww),
                ${UNFLAT_DONE:P=__p}
                ${UNFLAT_ROWS:P=__p,Q=__q}
    //@end
    //@loop 3
            invariant
                ${UNFLAT_CTX}
                oc == cc, oh == hh, ow == ww, __p < cc, __q < hh, __it == rm(__p as int, __q as int, __r as int, hh, ww),
                ${UNFLAT_DONE:P=__p}
                ${UNFLAT_ROWS:P=__p,Q=__q}
                __o1@.len() == __r,
                forall|w: int| 0 <= w < __r ==> #[trigger] __o1@[w] == __src@[rm(__p as int, __q as int, w, hh, ww)], //@ob unflatten_row_major.inv
    //@end
    //@endbody
}
}
//@endunit

/// the row-major element sequence of a well-formed flat or spatial tensor
pub open spec fn seq_of(t: Tensor, f: Seq<f32>) -> bool {
    match (t.shape, t.data) {
        (Shape::Single(_), Data::Single(v)) => f == v@,
        (Shape::Triple(c, h, w), Data::Triple(d)) => is_row_major(f, d@, c as int, h as int, w as int),
        _ => false,
    }
}

//@unit tensor.reshape prop=C14 search=reshape.rowmajor
impl Tensor {
pub fn reshape(self, shape: Shape) -> (r: Self)
    requires wf(self),
        // the requested element count fits the machine word (its product would overflow otherwise) and the target is not empty
        shape is Triple ==> shape->Triple_0 * shape->Triple_1 * shape->Triple_2 < 0x4000_0000_0000_0000 && shape->Triple_0 >= 1 && shape->Triple_1 >= 1 && shape->Triple_2 >= 1,
        //@requires-extra
    ensures
        // whenever the call returns (a different element count is refused): same row-major sequence, recorded shape = requested shape = shape of the data
        (self.shape is Single && shape is Single) ==> r == self, //@ob flat_to_flat_is_the_identity
        !(self.shape is Single && shape is Single) ==> r.shape == shape, //@ob records_the_requested_shape
        wf(r), //@ob recorded_shape_matches_the_data
        exists|f: Seq<f32>| #[trigger] seq_of(self, f) && seq_of(r, f), //@ob same_row_major_sequence
{
    let ghost cc = shape->Triple_0 as int;
    let ghost hh = shape->Triple_1 as int;
    let ghost ww = shape->Triple_2 as int;
    let mut this = self;
    let ghost mut gsrc: Seq<f32> = Seq::empty();
    proof {
        if shape is Triple { lemma_prod_fits(cc, hh, ww); }
        if self.shape is Single { assert(seq_of(self, self.data->Single_0@)); }
        if self.shape is Triple { lemma_prod_fits(self.shape->Triple_0 as int, self.shape->Triple_1 as int, self.shape->Triple_2 as int); }
    }
    //@body file=src/tensor.rs impl=Tensor fn=reshape part=whole rewrites=R13,R39,R42,R43,R44 loops=6
    //@inline-after /let mut __it: usize = 0;/ #1
        proof { gsrc = __src@; assert(0 * hh * ww == 0) by (nonlinear_arith); }
    //@end
    //@inline-after /let mut __it: usize = 0;/ #2
        proof { gsrc = __src@; assert(0 * hh * ww == 0) by (nonlinear_arith); }
    //@end
    //@before /^\s+this\s*$/ #1
                proof { assert(seq_of(self, gsrc) && seq_of(this, gsrc)); }
    //@end
    //@before /^\s+this\s*$/ #2
                proof { assert(seq_of(self, gsrc) && seq_of(this, gsrc)); }
    //@end
    //@inline-after /let __r4 = this\.flatten\(\);/
        proof { assert(seq_of(self, __r4.data->Single_0@) && seq_of(__r4, __r4.data->Single_0@)); }
    //@end
    //@before /\(Shape::Single\(_\), Shape::Single\(_\)\) => this,/
            // (flat -> flat: the tensor itself)
    //@end
    //@inline-after /let mut __o2: Vec<Vec<f32>> = Vec::new\(\);/ #1
        proof { lemma_rm_alg(__p as int, 0, 0, hh, ww); lemma_rm_alg(__p as int, hh, 0, hh, ww); }
    //@end
    //@inline-after /let mut __o1: Vec<f32> = Vec::new\(\);/ #1
        proof { lemma_rm_alg(__p as int, __q as int, 0, hh, ww); lemma_rm_alg(__p as int, __q as int, ww, hh, ww); }
    //@end
    //@inline-after /for __r in 0\.\.\*?\w+\s*\{/ #1
        proof { lemma_rm_alg(__p as int, __q as int, __r as int, hh, ww); lemma_rm_alg(__p as int, __q as int, __r as int + 1, hh, ww); lemma_rm(__p as int, __q as int, __r as int, cc, hh, ww); }
    //@end
    //@inline-after /let mut __o2: Vec<Vec<f32>> = Vec::new\(\);/ #2
        proof { lemma_rm_alg(__p as int, 0, 0, hh, ww); lemma_rm_alg(__p as int, hh, 0, hh, ww); }
    //@end
    //@inline-after /let mut __o1: Vec<f32> = Vec::new\(\);/ #2
        proof { lemma_rm_alg(__p as int, __q as int, 0, hh, ww); lemma_rm_alg(__p as int, __q as int, ww, hh, ww); }
    //@end
    //@inline-after /for __r in 0\.\.\*?\w+\s*\{/ #2
        proof { lemma_rm_alg(__p as int, __q as int, __r as int, hh, ww); lemma_rm_alg(__p as int, __q as int, __r as int + 1, hh, ww); lemma_rm(__p as int, __q as int, __r as int, cc, hh, ww); }
    //@end
    //@loop 1
            invariant
                ${UNFLAT_CTX}
                *new_channels == cc, *new_rows == hh, *new_columns == ww, __it == __p * hh * ww,
                ${UNFLAT_DONE:P=__p}
    //@end
    //@loop 2
            invariant
                ${UNFLAT_CTX}
                *new_channels == cc, *new_rows == hh, *new_columns == ww, __p < cc, __it == rm(__p as int, __q as int, 0, hh, ww),
                ${UNFLAT_DONE:P=__p}
                ${UNFLAT_ROWS:P=__p,Q=__q}
    //@end
    //@loop 3
            invariant
                ${UNFLAT_CTX}
                *new_channels == cc, *new_rows == hh, *new_columns == ww, __p < cc, __q < hh, __it == rm(__p as int, __q as int, __r as int, hh, ww),
                ${UNFLAT_DONE:P=__p}
                ${UNFLAT_ROWS:P=__p,Q=__q}
                __o1@.len() == __r,
                forall|w: int| 0 <= w < __r ==> #[trigger] __o1@[w] == __src@[rm(__p as int, __q as int, w, hh, ww)], //@ob unflatten_row_major.inv
    //@end
    //@loop 4
            invariant
                ${UNFLAT_CTX}
                *new_channels == cc, *new_rows == hh, *new_columns == ww, __it == __p * hh * ww,
                ${UNFLAT_DONE:P=__p}
    //@end
    //@loop 5
            invariant
                ${UNFLAT_CTX}
                *new_channels == cc, *new_rows == hh, *new_columns == ww, __p < cc, __it == rm(__p as int, __q as int, 0, hh, ww),
                ${UNFLAT_DONE:P=__p}
                ${UNFLAT_ROWS:P=__p,Q=__q}
    //@end
    //@loop 6
            invariant
                ${UNFLAT_CTX}
                *new_channels == cc, *new_rows == hh, *new_columns == ww, __p < cc, __q < hh, __it == rm(__p as int, __q as int, __r as int, hh, ww),
                ${UNFLAT_DONE:P=__p}
                ${UNFLAT_ROWS:P=__p,Q=__q}
                __o1@.len() == __r,
                forall|w: int| 0 <= w < __r ==> #[trigger] __o1@[w] == __src@[rm(__p as int, __q as int, w, hh, ww)], //@ob unflatten_row_major.inv
    //@end
    //@endbody
}
}
//@endunit
} // verus!
fn main() {}
