//@include prelude.rs
verus! {
//@unit transpose.nest prop=C15
#[verifier::loop_isolation(false)]
fn transpose_nest(data: &Vec<Vec<f32>>) -> (transposed: Vec<Vec<f32>>)
    requires
        data@.len() >= 1, rect2(data@, data@.len() as int, data@[0]@.len() as int),
        //@requires-extra
    ensures
        rect2(transposed@, data@[0]@.len() as int, data@.len() as int), //@ob shape
        forall|i: int, j: int| 0 <= i < data@.len() && 0 <= j < data@[0]@.len() ==> #[trigger] transposed@[j]@[i] == data@[i]@[j], //@ob definition
{
    //@body file=src/tensor.rs impl=Tensor fn=transpose part="region:/let mut transposed = vec!/../for \(i, row\) in data\.iter\(\)\.enumerate\(\) \{/" rewrites=R12 loops=2
    //@loop 1
        invariant
            rect2(transposed@, data@[0]@.len() as int, data@.len() as int),
            forall|a: int, b: int| 0 <= a < i && 0 <= b < data@[0]@.len() ==> #[trigger] transposed@[b]@[a] == data@[a]@[b],
    //@end
    //@loop 2
        invariant
            i < data@.len(), row@ == data@[i as int]@,
            rect2(transposed@, data@[0]@.len() as int, data@.len() as int),
            forall|a: int, b: int| 0 <= a < i && 0 <= b < data@[0]@.len() ==> #[trigger] transposed@[b]@[a] == data@[a]@[b],
            forall|b: int| 0 <= b < j ==> #[trigger] transposed@[b]@[i as int] == data@[i as int]@[b],
    //@end
    //@endbody
    transposed
}
//@endunit
} // verus!
fn main() {}
