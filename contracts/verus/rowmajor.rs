// ---- row-major layout of a C x H x W block: definitions and index arithmetic (shared by C14_reshape.rs and C02_flat_view.rs) ----
verus! {
/// position of cell (c, h, w) of a C x H x W block in the row-major sequence
pub open spec fn rm(c: int, h: int, w: int, hh: int, ww: int) -> int { (c * hh + h) * ww + w }
/// f is the row-major element sequence of the rectangular 3-D data d
pub open spec fn is_row_major(f: Seq<f32>, d: Seq<Vec<Vec<f32>>>, cc: int, hh: int, ww: int) -> bool {
    &&& rect3(d, cc, hh, ww)
    &&& f.len() == cc * hh * ww
    &&& forall|c: int, h: int, w: int| 0 <= c < cc && 0 <= h < hh && 0 <= w < ww ==> f[rm(c, h, w, hh, ww)] == #[trigger] d[c]@[h]@[w]
}
pub proof fn lemma_prod_fits(a: int, b: int, c: int)
    requires a >= 0, b >= 0, c >= 1
    ensures 0 <= a * b <= a * b * c
{ assert(0 <= a * b) by (nonlinear_arith) requires a >= 0, b >= 0; assert(a * b <= a * b * c) by (nonlinear_arith) requires a * b >= 0, c >= 1; }
pub proof fn lemma_rm_alg(c: int, h: int, w: int, hh: int, ww: int)
    ensures c * hh * ww == rm(c, 0, 0, hh, ww), rm(c, h, 0, hh, ww) + w == rm(c, h, w, hh, ww), rm(c, h, 0, hh, ww) + ww == rm(c, h + 1, 0, hh, ww),
        rm(c, hh, 0, hh, ww) == rm(c + 1, 0, 0, hh, ww), (c + 1) * hh * ww == c * hh * ww + hh * ww
{
    assert(c * hh * ww == (c * hh) * ww) by (nonlinear_arith);
    assert((c * hh + h + 1) * ww == (c * hh + h) * ww + ww) by (nonlinear_arith);
    assert((c * hh + hh) * ww == ((c + 1) * hh) * ww) by (nonlinear_arith);
    assert((c + 1) * hh * ww == c * hh * ww + hh * ww) by (nonlinear_arith);
}
// index arithmetic of the row-major layout
pub proof fn lemma_rm(c: int, h: int, w: int, cc: int, hh: int, ww: int)
    requires 0 <= c < cc, 0 <= h < hh, 0 <= w < ww
    ensures 0 <= c * hh * ww <= rm(c, h, w, hh, ww) < (c + 1) * hh * ww <= cc * hh * ww,
        c * hh * ww == rm(c, 0, 0, hh, ww), rm(c, h, 0, hh, ww) + w == rm(c, h, w, hh, ww), rm(c, h, 0, hh, ww) + ww == rm(c, h + 1, 0, hh, ww),
        rm(c, hh, 0, hh, ww) == rm(c + 1, 0, 0, hh, ww)
{
    assert(c * hh * ww == (c * hh) * ww) by (nonlinear_arith);
    assert((c * hh + h) * ww == (c * hh) * ww + h * ww) by (nonlinear_arith);
    assert((c * hh + h + 1) * ww == (c * hh + h) * ww + ww) by (nonlinear_arith);
    assert(h * ww + w < hh * ww) by (nonlinear_arith) requires 0 <= h < hh, 0 <= w < ww;
    assert((c + 1) * hh * ww == c * hh * ww + hh * ww) by (nonlinear_arith);
    assert((c * hh + hh) * ww == ((c + 1) * hh) * ww) by (nonlinear_arith);
    assert(((c + 1) * hh) * ww == (c + 1) * hh * ww) by (nonlinear_arith);
    assert((c + 1) * hh * ww <= cc * hh * ww) by (nonlinear_arith) requires c + 1 <= cc, hh >= 0, ww >= 0;
    assert(0 <= c * hh * ww) by (nonlinear_arith) requires c >= 0, hh >= 0, ww >= 0;
    assert(0 <= h * ww) by (nonlinear_arith) requires h >= 0, ww >= 0;
}
// two cells with the same position are the same cell (the layout is injective): used to show that pushes fill distinct positions
pub proof fn lemma_rm_order(c1: int, h1: int, w1: int, c2: int, h2: int, w2: int, cc: int, hh: int, ww: int)
    requires 0 <= c1 < cc, 0 <= h1 < hh, 0 <= w1 < ww, 0 <= c2 < cc, 0 <= h2 < hh, 0 <= w2 < ww,
        c1 < c2 || (c1 == c2 && h1 < h2) || (c1 == c2 && h1 == h2 && w1 < w2)
    ensures rm(c1, h1, w1, hh, ww) < rm(c2, h2, w2, hh, ww)
{
    lemma_rm(c1, h1, w1, cc, hh, ww);
    lemma_rm(c2, h2, w2, cc, hh, ww);
    if c1 < c2 {
        assert((c1 + 1) * hh * ww <= c2 * hh * ww) by (nonlinear_arith) requires c1 + 1 <= c2, hh >= 0, ww >= 0;
    } else if h1 < h2 {
        assert((c1 * hh + h1 + 1) * ww <= (c2 * hh + h2) * ww) by (nonlinear_arith) requires c1 == c2, h1 + 1 <= h2, ww >= 0;
        assert((c1 * hh + h1 + 1) * ww == (c1 * hh + h1) * ww + ww) by (nonlinear_arith);
    }
}

} // verus!
