//@include prelude.rs
verus! {
// Whole `Tensor::dot` and `Tensor::product` (outer product) against their index definitions, for every size.  Real enums (R5: variants only).
pub enum Shape { Single(usize), Double(usize, usize), Triple(usize, usize, usize), Quadruple(usize, usize, usize, usize), Quintuple(usize, usize, usize, usize, usize), Nested(usize) }
pub enum Data { Single(Vec<f32>), Double(Vec<Vec<f32>>), Triple(Vec<Vec<Vec<f32>>>), Quadruple(Vec<Vec<Vec<Vec<f32>>>>), Quintuple(Vec<Vec<Vec<Vec<Vec<(usize, usize)>>>>>) }
pub struct Tensor { pub shape: Shape, pub data: Data }
// R27: std's in-order float sum, and F1 for the by-reference product `&f32 * &f32`
pub uninterp spec fn f32_sum_spec(s: Seq<f32>) -> f32;
#[verifier::external_body] pub fn f32_sum(v: &Vec<f32>) -> (r: f32) ensures r == f32_sum_spec(v@) { v.iter().sum::<f32>() }
pub broadcast axiom fn f32_mul_total_ref(a: &f32, b: &f32) ensures #[trigger] a.mul_req(b);
pub axiom fn f32_obeys_ref() ensures <&f32 as MulSpec<&f32>>::obeys_mul_spec();

/// the products of a matrix row with the vector, in index order, over the shorter of the two (what `zip` yields)
pub open spec fn row_terms(row: Seq<f32>, x: Seq<f32>, n: int) -> Seq<f32> { Seq::new(n as nat, |q: int| fmul(row[q], x[q])) }
pub open spec fn min_len(a: Seq<f32>, b: Seq<f32>) -> int { if a.len() < b.len() { a.len() as int } else { b.len() as int } }

//@unit tensor.dot prop=C15
impl Tensor {
pub fn dot(&self, other: &Tensor) -> (r: Self)
    requires true,
        //@requires-extra
    ensures
        // (only a matrix times a vector returns) entry i is the in-order sum of row_i[q] * x[q]; the result is a vector with one entry per row
        r.data is Single && r.data->Single_0@.len() == self.data->Double_0@.len() && r.shape == Shape::Single(self.data->Double_0@.len() as usize), //@ob one_entry_per_row
        forall|i: int| 0 <= i < self.data->Double_0@.len() ==> #[trigger] r.data->Single_0@[i]
            == f32_sum_spec(row_terms(self.data->Double_0@[i]@, other.data->Single_0@, min_len(self.data->Double_0@[i]@, other.data->Single_0@))), //@ob entry_is_the_row_times_the_vector
{
    //@body file=src/tensor.rs impl=Tensor fn=dot part=whole rewrites=R13,R22,R31 loops=2
    //@loop 1
            invariant
                data@.len() == __k,
                forall|i: int| 0 <= i < __k ==> #[trigger] data@[i] == f32_sum_spec(row_terms(data1@[i]@, data2@, min_len(data1@[i]@, data2@))), //@ob entry_is_the_row_times_the_vector.inv
    //@end
    //@loop 2
            invariant
                row == &data1@[__k as int], __q <= row@.len(), __q <= data2@.len(),
                __m@ =~= row_terms(row@, data2@, __q as int), //@ob products_in_index_order.inv
    //@end
    //@inline-after /data2\.len\(\) \}\) \{/
        broadcast use {f32_total}; broadcast use f32_mul_total_ref; proof { f32_obeys(); f32_obeys_ref(); }
    //@end
    //@endbody
}
}
//@endunit

//@unit tensor.product prop=C15
impl Tensor {
pub fn product(&self, other: &Tensor) -> (r: Self)
    requires
        // (an empty left operand makes the code index `data[0]` of an empty matrix: it panics; not claimed)
        self.data is Single ==> self.data->Single_0@.len() >= 1,
        //@requires-extra
    ensures
        // (only two vectors return) entry (i, j) is a[i] * b[j]; the shape is len(a) x len(b)
        r.data is Double && r.data->Double_0@.len() == self.data->Single_0@.len()
            && r.shape == Shape::Double(self.data->Single_0@.len() as usize, other.data->Single_0@.len() as usize), //@ob shape_is_rows_of_a_by_columns_of_b
        forall|i: int, j: int| 0 <= i < self.data->Single_0@.len() && 0 <= j < other.data->Single_0@.len()
            ==> r.data->Double_0@[i]@.len() == other.data->Single_0@.len() && #[trigger] r.data->Double_0@[i]@[j] == fmul(self.data->Single_0@[i], other.data->Single_0@[j]), //@ob entry_is_the_product
{
    //@body file=src/tensor.rs impl=Tensor fn=product part=whole rewrites=R13,R22,R50 loops=2
    //@loop 1
            invariant
                data@.len() == __k,
                forall|i: int| 0 <= i < __k ==> (#[trigger] data@[i])@.len() == data2@.len(),
                forall|i: int, j: int| 0 <= i < __k && 0 <= j < data2@.len() ==> #[trigger] data@[i]@[j] == fmul(data1@[i], data2@[j]), //@ob entry_is_the_product.inv
    //@end
    //@loop 2
            invariant
                a == &data1@[__k as int], __c@.len() == __j,
                forall|j: int| 0 <= j < __j ==> #[trigger] __c@[j] == fmul(*a, data2@[j]), //@ob entry_is_the_product.inv
    //@end
    //@inline-after /for __j in 0\.\.data2\.len\(\) \{/
        broadcast use {f32_total}; broadcast use f32_mul_total_ref; proof { f32_obeys(); f32_obeys_ref(); }
    //@end
    //@endbody
}
}
//@endunit
} // verus!
fn main() {}
