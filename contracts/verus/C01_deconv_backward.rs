//@include prelude.rs
verus! {
// R5: Deconvolution reduced to the fields the backward nest mentions.
pub struct Deconvolution {
    pub stride: (usize, usize),
    pub padding: (usize, usize),
}

// ---- adjoint tap sums (property C01, F3) ----
// forward:  y[f][oi][oj] = sum over taps t=(f,c,h,w,i,j) with oi = h*s0+i-p0 in [0,oh), oj = w*s1+j-p1 in [0,ow) of x[c][h][w]*k[f][c][i][j]
// hence     dX[c][h][w]    = sum over the taps with that (c,h,w) of delta[f][oi][oj] * k[f][c][i][j]
//           dK[f][c][i][j] = sum over the taps with that (f,c,i,j) of delta[f][oi][oj] * x[c][h][w]
// Each is written as a fold over ALL iterations of the nest, in nest order (f,c,h,w,i,j), in which an iteration contributes
// iff its tap is valid and addresses the cell; only that order is pinned beyond the definition (F1).
pub struct Ctx<'a> {
    pub s: Deconvolution,
    pub d: Seq<Vec<Vec<f32>>>,          // delta  (kf x oh x ow)
    pub x: Seq<Vec<Vec<f32>>>,          // input  (>=kc x ih x iw)
    pub k: Seq<&'a Vec<Vec<Vec<f32>>>>, // kernels (kf x kc x kh x kw)
    pub kc: int, pub ih: int, pub iw: int, pub kh: int, pub kw: int, pub oh: int, pub ow: int,
}
pub open spec fn valid(g: Ctx<'_>, h: int, w: int, i: int, j: int) -> bool {
    0 <= h * g.s.stride.0 + i - g.s.padding.0 < g.oh && 0 <= w * g.s.stride.1 + j - g.s.padding.1 < g.ow
}
pub open spec fn dval(g: Ctx<'_>, f: int, h: int, w: int, i: int, j: int) -> f32 {
    g.d[f]@[h * g.s.stride.0 + i - g.s.padding.0]@[w * g.s.stride.1 + j - g.s.padding.1]
}
pub open spec fn acc(sum: f32, t: Option<f32>) -> f32 { match t { Some(v) => fadd(sum, v), None => sum } }
// cell selector: X(c0,h0,w0) for the input gradient, K(f0,c0,i0,j0) for the kernel gradient
pub enum Cell { X(int, int, int), K(int, int, int, int) }
pub open spec fn tap(g: Ctx<'_>, q: Cell, f: int, c: int, h: int, w: int, i: int, j: int) -> Option<f32> {
    match q {
        Cell::X(c0, h0, w0) => if c == c0 && h == h0 && w == w0 && valid(g, h, w, i, j) { Some(fmul(dval(g, f, h, w, i, j), g.k[f]@[c]@[i]@[j])) } else { None },
        Cell::K(f0, c0, i0, j0) => if f == f0 && c == c0 && i == i0 && j == j0 && valid(g, h, w, i, j) { Some(fmul(dval(g, f, h, w, i, j), g.x[c]@[h]@[w])) } else { None },
    }
}
pub open spec fn b6(g: Ctx<'_>, q: Cell, f: int, c: int, h: int, w: int, i: int, n: int, init: f32) -> f32
    decreases n
{ if n <= 0 { init } else { acc(b6(g, q, f, c, h, w, i, n - 1, init), tap(g, q, f, c, h, w, i, n - 1)) } }
pub open spec fn b5(g: Ctx<'_>, q: Cell, f: int, c: int, h: int, w: int, n: int, init: f32) -> f32
    decreases n
{ if n <= 0 { init } else { b6(g, q, f, c, h, w, n - 1, g.kw, b5(g, q, f, c, h, w, n - 1, init)) } }
pub open spec fn b4(g: Ctx<'_>, q: Cell, f: int, c: int, h: int, n: int, init: f32) -> f32
    decreases n
{ if n <= 0 { init } else { b5(g, q, f, c, h, n - 1, g.kh, b4(g, q, f, c, h, n - 1, init)) } }
pub open spec fn b3(g: Ctx<'_>, q: Cell, f: int, c: int, n: int, init: f32) -> f32
    decreases n
{ if n <= 0 { init } else { b4(g, q, f, c, n - 1, g.iw, b3(g, q, f, c, n - 1, init)) } }
pub open spec fn b2(g: Ctx<'_>, q: Cell, f: int, n: int, init: f32) -> f32
    decreases n
{ if n <= 0 { init } else { b3(g, q, f, n - 1, g.ih, b2(g, q, f, n - 1, init)) } }
pub open spec fn b1(g: Ctx<'_>, q: Cell, n: int, init: f32) -> f32
    decreases n
{ if n <= 0 { init } else { b2(g, q, n - 1, g.kc, b1(g, q, n - 1, init)) } }
pub open spec fn adjoint(g: Ctx<'_>, kf: int, q: Cell) -> f32 { b1(g, q, kf, 0.0f32) }
pub open spec fn deconv_out(i: int, k: int, s: int, p: int) -> int { (i - 1) * s + k - 2 * p }

//@def COMMON
                ih == input@[0]@.len(), iw == input@[0]@[0]@.len(), oh == delta@[0]@.len(), ow == delta@[0]@[0]@.len(),
                kf == kernels@.len(), kc == kernels@[0]@.len(), kh == kernels@[0]@[0]@.len(), kw == kernels@[0]@[0]@[0]@.len(),
                rect3(input@, input@.len() as int, ih as int, iw as int), rect3(delta@, kf as int, oh as int, ow as int),
                rect4r(kernels@, kf as int, kc as int, kh as int, kw as int), kc <= input@.len(),
                ih < 0x8000_0000, iw < 0x8000_0000, kh < 0x8000_0000, kw < 0x8000_0000,
                self.stride.0 < 0x8000_0000, self.stride.1 < 0x8000_0000, self.padding.0 < 0x8000_0000, self.padding.1 < 0x8000_0000,
                g == (Ctx { s: *self, d: delta@, x: input@, k: kernels@, kc: kc as int, ih: ih as int, iw: iw as int, kh: kh as int, kw: kw as int, oh: oh as int, ow: ow as int }),
                rect4(kgradient@, kf as int, kc as int, kh as int, kw as int), rect3(igradient@, kc as int, ih as int, iw as int),
//@end

//@unit deconv.backward prop=C01 search=deconv.backward
impl Deconvolution {
fn backward_nest(
    &self,
    delta: &Vec<Vec<Vec<f32>>>,
    input: &Vec<Vec<Vec<f32>>>,
    kernels: &Vec<&Vec<Vec<Vec<f32>>>>,
) -> (r: (Vec<Vec<Vec<f32>>>, Vec<Vec<Vec<Vec<f32>>>>))
    requires
        input@.len() >= 1, input@[0]@.len() >= 1, input@[0]@[0]@.len() >= 1,
        rect3(input@, input@.len() as int, input@[0]@.len() as int, input@[0]@[0]@.len() as int),
        kernels@.len() >= 1, kernels@[0]@.len() >= 1, kernels@[0]@[0]@.len() >= 1, kernels@[0]@[0]@[0]@.len() >= 1,
        rect4r(kernels@, kernels@.len() as int, kernels@[0]@.len() as int, kernels@[0]@[0]@.len() as int, kernels@[0]@[0]@[0]@.len() as int),
        kernels@[0]@.len() <= input@.len(),
        // delta has the shape the forward pass produces: one channel per filter, standard output extent
        delta@.len() == kernels@.len(), delta@[0]@.len() >= 1, delta@[0]@[0]@.len() >= 1,
        rect3(delta@, kernels@.len() as int, delta@[0]@.len() as int, delta@[0]@[0]@.len() as int),
        delta@[0]@.len() == deconv_out(input@[0]@.len() as int, kernels@[0]@[0]@.len() as int, self.stride.0 as int, self.padding.0 as int),
        delta@[0]@[0]@.len() == deconv_out(input@[0]@[0]@.len() as int, kernels@[0]@[0]@[0]@.len() as int, self.stride.1 as int, self.padding.1 as int),
        input@[0]@.len() < 0x8000_0000, input@[0]@[0]@.len() < 0x8000_0000,
        self.stride.0 < 0x8000_0000, self.stride.1 < 0x8000_0000, self.padding.0 < 0x8000_0000, self.padding.1 < 0x8000_0000,
        kernels@[0]@[0]@.len() < 0x8000_0000, kernels@[0]@[0]@[0]@.len() < 0x8000_0000,
        //@requires-extra
    ensures
        // gradient shapes are the shapes of what they belong to (C08)
        rect3(r.0@, kernels@[0]@.len() as int, input@[0]@.len() as int, input@[0]@[0]@.len() as int), //@ob shape_x
        rect4(r.1@, kernels@.len() as int, kernels@[0]@.len() as int, kernels@[0]@[0]@.len() as int, kernels@[0]@[0]@[0]@.len() as int), //@ob shape_k
        forall|c0: int, h0: int, w0: int| 0 <= c0 < kernels@[0]@.len() && 0 <= h0 < input@[0]@.len() && 0 <= w0 < input@[0]@[0]@.len() ==>
            #[trigger] r.0@[c0]@[h0]@[w0] == adjoint(Ctx { s: *self, d: delta@, x: input@, k: kernels@, kc: kernels@[0]@.len() as int, ih: input@[0]@.len() as int, iw: input@[0]@[0]@.len() as int, kh: kernels@[0]@[0]@.len() as int, kw: kernels@[0]@[0]@[0]@.len() as int, oh: delta@[0]@.len() as int, ow: delta@[0]@[0]@.len() as int }, kernels@.len() as int, Cell::X(c0, h0, w0)), //@ob adjoint_x
        forall|f0: int, c0: int, i0: int, j0: int| 0 <= f0 < kernels@.len() && 0 <= c0 < kernels@[0]@.len() && 0 <= i0 < kernels@[0]@[0]@.len() && 0 <= j0 < kernels@[0]@[0]@[0]@.len() ==>
            #[trigger] r.1@[f0]@[c0]@[i0]@[j0] == adjoint(Ctx { s: *self, d: delta@, x: input@, k: kernels@, kc: kernels@[0]@.len() as int, ih: input@[0]@.len() as int, iw: input@[0]@[0]@.len() as int, kh: kernels@[0]@[0]@.len() as int, kw: kernels@[0]@[0]@[0]@.len() as int, oh: delta@[0]@.len() as int, ow: delta@[0]@[0]@.len() as int }, kernels@.len() as int, Cell::K(f0, c0, i0, j0)), //@ob adjoint_k
{
    //@body file=src/deconvolution.rs impl=Deconvolution fn=backward part="region:/let \(ih, iw\) = \(input\[0\]\.len\(\), input\[0\]\[0\]\.len\(\)\);/../let \(oh, ow\) = \(delta\[0\]\.len\(\), delta\[0\]\[0\]\.len\(\)\);/" loops=0
    //@endbody
    //@body file=src/deconvolution.rs impl=Deconvolution fn=backward part="region:/let \(kf, kc, kh, kw\) = \(/../let \(kf, kc, kh, kw\) = \(/" loops=0
    //@endbody
    //@body file=src/deconvolution.rs impl=Deconvolution fn=backward part="region:/let mut kgradient = vec!/../for f in 0\.\.kf \{/" rewrites=R1,R6 loops=6
    //@after /let mut igradient = vec!/
        let ghost g = Ctx { s: *self, d: delta@, x: input@, k: kernels@, kc: kc as int, ih: ih as int, iw: iw as int, kh: kh as int, kw: kw as int, oh: oh as int, ow: ow as int };
    //@end
    //@loop 1
            invariant
                ${COMMON}
                forall|c0: int, h0: int, w0: int| 0 <= c0 < kc && 0 <= h0 < ih && 0 <= w0 < iw ==> #[trigger] igradient@[c0]@[h0]@[w0] == b1(g, Cell::X(c0, h0, w0), f as int, 0.0f32), //@ob adjoint_x.inv
                forall|f0: int, c0: int, i0: int, j0: int| 0 <= f0 < kf && 0 <= c0 < kc && 0 <= i0 < kh && 0 <= j0 < kw ==> #[trigger] kgradient@[f0]@[c0]@[i0]@[j0] == b1(g, Cell::K(f0, c0, i0, j0), f as int, 0.0f32), //@ob adjoint_k.inv
    //@end
    //@loop 2
            invariant
                ${COMMON}
                f < kf,
                forall|c0: int, h0: int, w0: int| 0 <= c0 < kc && 0 <= h0 < ih && 0 <= w0 < iw ==> #[trigger] igradient@[c0]@[h0]@[w0] == b2(g, Cell::X(c0, h0, w0), f as int, c as int, b1(g, Cell::X(c0, h0, w0), f as int, 0.0f32)), //@ob adjoint_x.inv
                forall|f0: int, c0: int, i0: int, j0: int| 0 <= f0 < kf && 0 <= c0 < kc && 0 <= i0 < kh && 0 <= j0 < kw ==> #[trigger] kgradient@[f0]@[c0]@[i0]@[j0] == b2(g, Cell::K(f0, c0, i0, j0), f as int, c as int, b1(g, Cell::K(f0, c0, i0, j0), f as int, 0.0f32)), //@ob adjoint_k.inv
    //@end
    //@loop 3
            invariant
                ${COMMON}
                f < kf, c < kc,
                forall|c0: int, h0: int, w0: int| 0 <= c0 < kc && 0 <= h0 < ih && 0 <= w0 < iw ==> #[trigger] igradient@[c0]@[h0]@[w0] == b3(g, Cell::X(c0, h0, w0), f as int, c as int, h as int, b2(g, Cell::X(c0, h0, w0), f as int, c as int, b1(g, Cell::X(c0, h0, w0), f as int, 0.0f32))), //@ob adjoint_x.inv
                forall|f0: int, c0: int, i0: int, j0: int| 0 <= f0 < kf && 0 <= c0 < kc && 0 <= i0 < kh && 0 <= j0 < kw ==> #[trigger] kgradient@[f0]@[c0]@[i0]@[j0] == b3(g, Cell::K(f0, c0, i0, j0), f as int, c as int, h as int, b2(g, Cell::K(f0, c0, i0, j0), f as int, c as int, b1(g, Cell::K(f0, c0, i0, j0), f as int, 0.0f32))), //@ob adjoint_k.inv
    //@end
    //@loop 4
            invariant
                ${COMMON}
                f < kf, c < kc, h < ih,
                forall|c0: int, h0: int, w0: int| 0 <= c0 < kc && 0 <= h0 < ih && 0 <= w0 < iw ==> #[trigger] igradient@[c0]@[h0]@[w0] == b4(g, Cell::X(c0, h0, w0), f as int, c as int, h as int, w as int, b3(g, Cell::X(c0, h0, w0), f as int, c as int, h as int, b2(g, Cell::X(c0, h0, w0), f as int, c as int, b1(g, Cell::X(c0, h0, w0), f as int, 0.0f32)))), //@ob adjoint_x.inv
                forall|f0: int, c0: int, i0: int, j0: int| 0 <= f0 < kf && 0 <= c0 < kc && 0 <= i0 < kh && 0 <= j0 < kw ==> #[trigger] kgradient@[f0]@[c0]@[i0]@[j0] == b4(g, Cell::K(f0, c0, i0, j0), f as int, c as int, h as int, w as int, b3(g, Cell::K(f0, c0, i0, j0), f as int, c as int, h as int, b2(g, Cell::K(f0, c0, i0, j0), f as int, c as int, b1(g, Cell::K(f0, c0, i0, j0), f as int, 0.0f32)))), //@ob adjoint_k.inv
    //@end
    //@loop 5
            invariant
                ${COMMON}
                f < kf, c < kc, h < ih, w < iw,
                forall|c0: int, h0: int, w0: int| 0 <= c0 < kc && 0 <= h0 < ih && 0 <= w0 < iw ==> #[trigger] igradient@[c0]@[h0]@[w0] == b5(g, Cell::X(c0, h0, w0), f as int, c as int, h as int, w as int, i as int, b4(g, Cell::X(c0, h0, w0), f as int, c as int, h as int, w as int, b3(g, Cell::X(c0, h0, w0), f as int, c as int, h as int, b2(g, Cell::X(c0, h0, w0), f as int, c as int, b1(g, Cell::X(c0, h0, w0), f as int, 0.0f32))))), //@ob adjoint_x.inv
                forall|f0: int, c0: int, i0: int, j0: int| 0 <= f0 < kf && 0 <= c0 < kc && 0 <= i0 < kh && 0 <= j0 < kw ==> #[trigger] kgradient@[f0]@[c0]@[i0]@[j0] == b5(g, Cell::K(f0, c0, i0, j0), f as int, c as int, h as int, w as int, i as int, b4(g, Cell::K(f0, c0, i0, j0), f as int, c as int, h as int, w as int, b3(g, Cell::K(f0, c0, i0, j0), f as int, c as int, h as int, b2(g, Cell::K(f0, c0, i0, j0), f as int, c as int, b1(g, Cell::K(f0, c0, i0, j0), f as int, 0.0f32))))), //@ob adjoint_k.inv
    //@end
    //@loop 6
            invariant
                ${COMMON}
                __it1 <= kw, f < kf, c < kc, h < ih, w < iw, i < kh,
                forall|c0: int, h0: int, w0: int| 0 <= c0 < kc && 0 <= h0 < ih && 0 <= w0 < iw ==> #[trigger] igradient@[c0]@[h0]@[w0] == b6(g, Cell::X(c0, h0, w0), f as int, c as int, h as int, w as int, i as int, __it1 as int, b5(g, Cell::X(c0, h0, w0), f as int, c as int, h as int, w as int, i as int, b4(g, Cell::X(c0, h0, w0), f as int, c as int, h as int, w as int, b3(g, Cell::X(c0, h0, w0), f as int, c as int, h as int, b2(g, Cell::X(c0, h0, w0), f as int, c as int, b1(g, Cell::X(c0, h0, w0), f as int, 0.0f32)))))), //@ob adjoint_x.inv
                forall|f0: int, c0: int, i0: int, j0: int| 0 <= f0 < kf && 0 <= c0 < kc && 0 <= i0 < kh && 0 <= j0 < kw ==> #[trigger] kgradient@[f0]@[c0]@[i0]@[j0] == b6(g, Cell::K(f0, c0, i0, j0), f as int, c as int, h as int, w as int, i as int, __it1 as int, b5(g, Cell::K(f0, c0, i0, j0), f as int, c as int, h as int, w as int, i as int, b4(g, Cell::K(f0, c0, i0, j0), f as int, c as int, h as int, w as int, b3(g, Cell::K(f0, c0, i0, j0), f as int, c as int, h as int, b2(g, Cell::K(f0, c0, i0, j0), f as int, c as int, b1(g, Cell::K(f0, c0, i0, j0), f as int, 0.0f32)))))), //@ob adjoint_k.inv
            decreases kw - __it1,
    //@end
    //@before /let oi = /
                                broadcast use {f32_total};
                                proof {
                                    f32_obeys();
                                    assert(h * self.stride.0 < 0x4000_0000_0000_0000) by (nonlinear_arith) requires 0 <= h < 0x8000_0000, 0 <= self.stride.0 < 0x8000_0000;
                                    assert(w * self.stride.1 < 0x4000_0000_0000_0000) by (nonlinear_arith) requires 0 <= w < 0x8000_0000, 0 <= self.stride.1 < 0x8000_0000;
                                }
    //@end
    //@endbody
    (igradient, kgradient)
}
}
//@endunit
} // verus!
fn main() {}
