//@include prelude.rs
verus! {
// R5: tensor::Shape as declared in src/tensor.rs (variants only; derives and impls dropped).
pub mod tensor {
    pub enum Shape {
        Single(usize),
        Double(usize, usize),
        Triple(usize, usize, usize),
        Quadruple(usize, usize, usize, usize),
        Quintuple(usize, usize, usize, usize, usize),
        Nested(usize),
    }
}
use tensor::Shape;
// R7: `(size as f32).sqrt() as usize` is opaque here; its value is decided over all usize by Kani (flat-size acceptance).
pub uninterp spec fn isqrt_spec(n: usize) -> usize;
#[verifier::external_body]
pub fn isqrt_f32(n: usize) -> (r: usize) ensures r == isqrt_spec(n) { (n as f32).sqrt() as usize }

pub struct Convolution {}
pub struct Deconvolution {}
pub struct Maxpool {}

// ---- the standard size formulas (property C08) ----
pub open spec fn conv_out(i: int, k: int, s: int, d: int) -> int { (i - (k - 1) * d - 1) / s + 1 }   // i = padded extent
pub open spec fn deconv_out(i: int, k: int, s: int, p: int) -> int { (i - 1) * s + k - 2 * p }
pub open spec fn pool_out(i: int, k: int, s: int) -> int { (i - k) / s + 1 }
pub open spec fn spatial(input: Shape) -> (int, int, int) {
    match input {
        Shape::Single(size) => (1, isqrt_spec(size) as int, isqrt_spec(size) as int),   // flat r*r is read as 1 x r x r
        Shape::Triple(c, h, w) => (c as int, h as int, w as int),
        _ => (0, 0, 0),
    }
}
pub open spec fn small(n: usize) -> bool { n < 0x8000_0000 }

//@unit conv.calculate_output_size prop=C08 search=conv.shape
impl Convolution {
fn calculate_output_size(
    input: &tensor::Shape,
    channels: &usize,
    kernel: &(usize, usize),
    stride: &(usize, usize),
    padding: &(usize, usize),
    dilation: &(usize, usize),
) -> (r: tensor::Shape)
    requires
        input is Single || input is Triple,
        stride.0 >= 1, stride.1 >= 1, kernel.0 >= 1, kernel.1 >= 1,
        small(kernel.0), small(kernel.1), small(padding.0), small(padding.1), small(dilation.0), small(dilation.1),
        spatial(*input).1 < 0x8000_0000, spatial(*input).2 < 0x8000_0000,
        // valid configuration: the effective kernel fits the padded input
        (kernel.0 - 1) * dilation.0 + 1 <= spatial(*input).1 + 2 * padding.0,
        (kernel.1 - 1) * dilation.1 + 1 <= spatial(*input).2 + 2 * padding.1,
        //@requires-extra
    ensures
        r == Shape::Triple(*channels,
            conv_out(spatial(*input).1 + 2 * padding.0, kernel.0 as int, stride.0 as int, dilation.0 as int) as usize,
            conv_out(spatial(*input).2 + 2 * padding.1, kernel.1 as int, stride.1 as int, dilation.1 as int) as usize), //@ob formula
        conv_out(spatial(*input).1 + 2 * padding.0, kernel.0 as int, stride.0 as int, dilation.0 as int) >= 1, //@ob positive
        conv_out(spatial(*input).2 + 2 * padding.1, kernel.1 as int, stride.1 as int, dilation.1 as int) >= 1, //@ob positive
{
    //@body file=src/convolution.rs impl=Convolution fn=calculate_output_size part=whole rewrites=R7 loops=0
    //@before /let height = /
        proof {
            assert(dilation.0 * (kernel.0 - 1) == (kernel.0 - 1) * dilation.0) by (nonlinear_arith);
            assert(dilation.1 * (kernel.1 - 1) == (kernel.1 - 1) * dilation.1) by (nonlinear_arith);
            assert((kernel.0 - 1) * dilation.0 < 0x4000_0000_0000_0000) by (nonlinear_arith) requires 0 <= kernel.0 - 1 < 0x8000_0000, 0 <= dilation.0 < 0x8000_0000;
            assert((kernel.1 - 1) * dilation.1 < 0x4000_0000_0000_0000) by (nonlinear_arith) requires 0 <= kernel.1 - 1 < 0x8000_0000, 0 <= dilation.1 < 0x8000_0000;
            assert((input.0 + 2 * padding.0 - (kernel.0 - 1) * dilation.0 - 1) / (stride.0 as int) >= 0) by (nonlinear_arith)
                requires input.0 + 2 * padding.0 - (kernel.0 - 1) * dilation.0 - 1 >= 0, stride.0 >= 1;
            assert((input.1 + 2 * padding.1 - (kernel.1 - 1) * dilation.1 - 1) / (stride.1 as int) >= 0) by (nonlinear_arith)
                requires input.1 + 2 * padding.1 - (kernel.1 - 1) * dilation.1 - 1 >= 0, stride.1 >= 1;
        }
    //@end
    //@endbody
}
}
//@endunit

//@unit deconv.calculate_output_size prop=C08 search=deconv.shape
impl Deconvolution {
fn calculate_output_size(
    input: &tensor::Shape,
    channels: &usize,
    kernel: &(usize, usize),
    stride: &(usize, usize),
    padding: &(usize, usize),
) -> (r: tensor::Shape)
    requires
        input is Single || input is Triple,
        small(kernel.0), small(kernel.1), small(padding.0), small(padding.1), small(stride.0), small(stride.1),
        1 <= spatial(*input).1 < 0x8000_0000, 1 <= spatial(*input).2 < 0x8000_0000,
        // valid configuration: the output size is positive
        deconv_out(spatial(*input).1, kernel.0 as int, stride.0 as int, padding.0 as int) >= 1,
        deconv_out(spatial(*input).2, kernel.1 as int, stride.1 as int, padding.1 as int) >= 1,
        //@requires-extra
    ensures
        r == Shape::Triple(*channels,
            deconv_out(spatial(*input).1, kernel.0 as int, stride.0 as int, padding.0 as int) as usize,
            deconv_out(spatial(*input).2, kernel.1 as int, stride.1 as int, padding.1 as int) as usize), //@ob formula
{
    //@body file=src/deconvolution.rs impl=Deconvolution fn=calculate_output_size part=whole rewrites=R7 loops=0
    //@before /let height = /
        proof {
            assert((input.1 - 1) * stride.0 < 0x4000_0000_0000_0000) by (nonlinear_arith) requires 0 <= input.1 - 1 < 0x8000_0000, 0 <= stride.0 < 0x8000_0000;
            assert((input.2 - 1) * stride.1 < 0x4000_0000_0000_0000) by (nonlinear_arith) requires 0 <= input.2 - 1 < 0x8000_0000, 0 <= stride.1 < 0x8000_0000;
        }
    //@end
    //@endbody
}
}
//@endunit

//@unit maxpool.calculate_output_size prop=C08 search=pool.shape
impl Maxpool {
fn calculate_output_size(
    input: &tensor::Shape,
    kernel: &(usize, usize),
    stride: &(usize, usize),
) -> (r: tensor::Shape)
    requires
        input is Single || input is Triple,
        stride.0 >= 1, stride.1 >= 1,
        // valid configuration: the window fits
        1 <= kernel.0 <= spatial(*input).1, 1 <= kernel.1 <= spatial(*input).2,
        //@requires-extra
    ensures
        r == Shape::Triple(spatial(*input).0 as usize,
            pool_out(spatial(*input).1, kernel.0 as int, stride.0 as int) as usize,
            pool_out(spatial(*input).2, kernel.1 as int, stride.1 as int) as usize), //@ob formula
{
    //@body file=src/maxpool.rs impl=Maxpool fn=calculate_output_size part=whole rewrites=R7 loops=0
    //@endbody
}
}
//@endunit
} // verus!
fn main() {}
