//@include prelude.rs
use std::collections::HashMap;
verus! {
// R5: Tensor, Shape and the layer structs are opaque; a layer's forward pass is an uninterpreted function of (layer, input)
// (what each layer computes is C02's business; that the repetitions of a block hold equal layers is C10's).
pub mod tensor {
    use vstd::prelude::*;
    #[verifier::external_body] pub struct Shape { _p: u8 }
    #[verifier::external_body] pub struct Data { _p: u8 }
    pub struct Tensor { pub shape: Shape, pub data: Data }
    pub uninterp spec fn t_add(a: Tensor, b: Tensor) -> Tensor;
    pub uninterp spec fn t_sub(a: Tensor, b: Tensor) -> Tensor;
    pub uninterp spec fn t_mul(a: Tensor, b: Tensor) -> Tensor;
    pub uninterp spec fn t_mean(a: Tensor, others: Seq<Tensor>) -> Tensor;
    pub uninterp spec fn t_flatten(a: Tensor) -> Tensor;
    pub uninterp spec fn shape_eq(a: Shape, b: Shape) -> bool;
    pub uninterp spec fn nested_parts(t: Tensor) -> Seq<Tensor>;
    pub uninterp spec fn nested_opts(t: Tensor) -> Seq<Option<Tensor>>;
    impl Clone for Shape { #[verifier::external_body] fn clone(&self) -> (r: Self) ensures r == *self { Shape { _p: self._p } } }
    impl Clone for Tensor { #[verifier::external_body] fn clone(&self) -> (r: Self) ensures r == *self { Tensor { shape: Shape { _p: 0 }, data: Data { _p: 0 } } } }
    impl PartialEq for Shape {
        #[verifier::external_body] fn eq(&self, other: &Self) -> (r: bool) ensures r == shape_eq(*self, *other) { true }
        #[verifier::external_body] fn ne(&self, other: &Self) -> (r: bool) ensures r == !shape_eq(*self, *other) { true }
    }
    pub open spec fn derefs(v: Seq<&Tensor>) -> Seq<Tensor> { Seq::new(v.len(), |t: int| *v[t]) }
    impl Tensor {
        #[verifier::external_body] pub fn add_inplace(&mut self, other: &Tensor) ensures *final(self) == t_add(*old(self), *other) { }
        #[verifier::external_body] pub fn sub_inplace(&mut self, other: &Tensor) ensures *final(self) == t_sub(*old(self), *other) { }
        #[verifier::external_body] pub fn mul_inplace(&mut self, other: &Tensor) ensures *final(self) == t_mul(*old(self), *other) { }
        #[verifier::external_body] pub fn mean_inplace(&mut self, others: &Vec<&Tensor>) ensures *final(self) == t_mean(*old(self), derefs(others@)) { }
        #[verifier::external_body] pub fn flatten(&self) -> (r: Tensor) ensures r == t_flatten(*self) { Tensor { shape: Shape { _p: 0 }, data: Data { _p: 0 } } }
        #[verifier::external_body] pub fn nested(tensors: Vec<Tensor>) -> (r: Tensor) ensures nested_parts(r) == tensors@ { Tensor { shape: Shape { _p: 0 }, data: Data { _p: 0 } } }
        #[verifier::external_body] pub fn nestedoptional(tensors: Vec<Option<Tensor>>) -> (r: Tensor) ensures nested_opts(r) == tensors@ { Tensor { shape: Shape { _p: 0 }, data: Data { _p: 0 } } }
    }
}
use tensor::*;
pub mod dense {
    use vstd::prelude::*; use super::tensor::*;
    pub struct Dense { pub inputs: Shape, pub params: Data }
    pub uninterp spec fn fwd(l: Dense, x: Tensor) -> (Tensor, Tensor);
    impl Dense { #[verifier::external_body] pub fn forward(&self, x: &Tensor) -> (r: (Tensor, Tensor)) ensures r == fwd(*self, *x) { (x.clone(), x.clone()) } }
}
pub mod convolution {
    use vstd::prelude::*; use super::tensor::*;
    pub struct Convolution { pub inputs: Shape, pub params: Data }
    pub uninterp spec fn fwd(l: Convolution, x: Tensor) -> (Tensor, Tensor);
    impl Convolution { #[verifier::external_body] pub fn forward(&self, x: &Tensor) -> (r: (Tensor, Tensor)) ensures r == fwd(*self, *x) { (x.clone(), x.clone()) } }
}
pub mod deconvolution {
    use vstd::prelude::*; use super::tensor::*;
    pub struct Deconvolution { pub inputs: Shape, pub params: Data }
    pub uninterp spec fn fwd(l: Deconvolution, x: Tensor) -> (Tensor, Tensor);
    impl Deconvolution { #[verifier::external_body] pub fn forward(&self, x: &Tensor) -> (r: (Tensor, Tensor)) ensures r == fwd(*self, *x) { (x.clone(), x.clone()) } }
}
pub mod maxpool {
    use vstd::prelude::*; use super::tensor::*;
    pub struct Maxpool { pub inputs: Shape, pub params: Data }
    pub uninterp spec fn fwd(l: Maxpool, x: Tensor) -> (Tensor, Tensor, Tensor);
    impl Maxpool { #[verifier::external_body] pub fn forward(&self, x: &Tensor) -> (r: (Tensor, Tensor, Tensor)) ensures r == fwd(*self, *x) { (x.clone(), x.clone(), x.clone()) } }
}
pub mod network {
    pub struct Nested { pub _p: u8 }
    pub enum Layer {
        Dense(super::dense::Dense),
        Convolution(super::convolution::Convolution),
        Deconvolution(super::deconvolution::Deconvolution),
        Maxpool(super::maxpool::Maxpool),
        Feedback(Nested),
    }
}
pub enum Accumulation { Add, Subtract, Multiply, Overwrite, Mean }
pub struct Feedback { pub layers: Vec<network::Layer>, pub connect: HashMap<usize, Vec<usize>>, pub accumulation: Accumulation, pub flatten: bool }

// ---- what the block computes (property C11), relationally over the recorded activations A[0..=n] -------------------------
/// (pre-activation, post-activation, max-pool indices) of one layer on input x
pub open spec fn layer_fwd(l: network::Layer, x: Tensor) -> (Tensor, Tensor, Option<Tensor>) {
    match l {
        network::Layer::Dense(d) => (dense::fwd(d, x).0, dense::fwd(d, x).1, None),
        network::Layer::Convolution(d) => (convolution::fwd(d, x).0, convolution::fwd(d, x).1, None),
        network::Layer::Deconvolution(d) => (deconvolution::fwd(d, x).0, deconvolution::fwd(d, x).1, None),
        network::Layer::Maxpool(d) => (maxpool::fwd(d, x).0, maxpool::fwd(d, x).1, Some(maxpool::fwd(d, x).2)),
        network::Layer::Feedback(_) => (x, x, None),
    }
}
pub open spec fn fold_op(acc: Accumulation, x: Tensor, srcs: Seq<Tensor>, n: int) -> Tensor
    decreases n
{
    if n <= 0 { x } else {
        let p = fold_op(acc, x, srcs, n - 1);
        match acc { Accumulation::Add => t_add(p, srcs[n - 1]), Accumulation::Subtract => t_sub(p, srcs[n - 1]), _ => t_mul(p, srcs[n - 1]) }
    }
}
/// 'combined' = the configured accumulation of x with the source activations, in table order
pub open spec fn combined(acc: Accumulation, x: Tensor, srcs: Seq<Tensor>) -> Tensor {
    match acc {
        Accumulation::Overwrite => srcs[srcs.len() - 1],
        Accumulation::Mean => t_mean(x, srcs),
        _ => fold_op(acc, x, srcs, srcs.len() as int),
    }
}
pub open spec fn srcs_of(a: Seq<Tensor>, idxs: Seq<usize>) -> Seq<Tensor> { Seq::new(idxs.len(), |t: int| a[idxs[t] as int]) }
/// the input layer i processes: the previous activation, combined with the activations the table lists for position i
pub open spec fn xin(f: Feedback, a: Seq<Tensor>, i: int, x: Tensor) -> Tensor {
    if f.connect@.contains_key(i as usize) { combined(f.accumulation, x, srcs_of(a, f.connect@[i as usize]@)) } else { x }
}
pub open spec fn table_ok(f: Feedback) -> bool {
    let n = f.layers@.len();
    forall|k: usize| #[trigger] f.connect@.contains_key(k) ==> f.connect@[k]@.len() >= 1
        && forall|t: int| 0 <= t < f.connect@[k]@.len() ==> (#[trigger] f.connect@[k]@[t]) <= k && f.connect@[k]@[t] < n
}

proof fn lemma_srcs_push(a: Seq<Tensor>, p: Tensor, idxs: Seq<usize>)
    requires forall|t: int| 0 <= t < idxs.len() ==> (#[trigger] idxs[t]) < a.len()
    ensures srcs_of(a.push(p), idxs) == srcs_of(a, idxs)
{
    assert(srcs_of(a.push(p), idxs) =~= srcs_of(a, idxs));
}
proof fn lemma_srcs_agree(a: Seq<Tensor>, b: Seq<Tensor>, idxs: Seq<usize>)
    requires forall|t: int| 0 <= t < idxs.len() ==> (#[trigger] idxs[t]) < a.len() && idxs[t] < b.len() && a[idxs[t] as int] == b[idxs[t] as int]
    ensures srcs_of(a, idxs) == srcs_of(b, idxs)
{
    assert(srcs_of(a, idxs) =~= srcs_of(b, idxs));
}
/// layer j maps its (skip-combined) input to (pre-activation u[j], activation a[j+1], max-pool indices m[j])
pub open spec fn rel(f: Feedback, a: Seq<Tensor>, u: Seq<Tensor>, m: Seq<Option<Tensor>>, j: int) -> bool {
    u[j] == layer_fwd(f.layers@[j], xin(f, a, j, a[j])).0 && a[j + 1] == layer_fwd(f.layers@[j], xin(f, a, j, a[j])).1
        && m[j] == layer_fwd(f.layers@[j], xin(f, a, j, a[j])).2
}
// the relation at position j only reads a[0 ..= j+1]: it survives any change of the sequences beyond that
proof fn lemma_rel_agree(f: Feedback, a: Seq<Tensor>, b: Seq<Tensor>, u: Seq<Tensor>, u2: Seq<Tensor>, m: Seq<Option<Tensor>>, m2: Seq<Option<Tensor>>, j: int)
    requires table_ok(f), 0 <= j < f.layers@.len(), j + 1 < a.len(), j + 1 < b.len(), j < u.len(), j < u2.len(), j < m.len(), j < m2.len(),
        forall|t: int| 0 <= t <= j + 1 ==> a[t] == b[t], u[j] == u2[j], m[j] == m2[j], rel(f, a, u, m, j)
    ensures rel(f, b, u2, m2, j)
{
    if f.connect@.contains_key(j as usize) { lemma_srcs_agree(a, b, f.connect@[j as usize]@); }
}
proof fn lemma_srcs_drop(a: Seq<Tensor>, idxs: Seq<usize>)
    requires a.len() >= 1, forall|t: int| 0 <= t < idxs.len() ==> (#[trigger] idxs[t]) < a.len() - 1
    ensures srcs_of(a.drop_last(), idxs) == srcs_of(a, idxs)
{
    assert(srcs_of(a.drop_last(), idxs) =~= srcs_of(a, idxs));
}

// reading of the two kinds of table entries (C11_skip_table.rs proves the table has exactly these):
// an in-skip entry [0] at the start of a repetition combines the previous repetition's output with a[0], the block input
proof fn lemma_inskip_entry(f: Feedback, a: Seq<Tensor>, k: int)
    requires a.len() >= 1, f.connect@.contains_key(k as usize), f.connect@[k as usize]@ == seq![0usize]
    ensures xin(f, a, k, a[k]) == combined(f.accumulation, a[k], seq![a[0]])
{
    assert(srcs_of(a, seq![0usize]) =~= seq![a[0]]);
}

//@def LOOPINV1
            x0 == activated@[i as int], activated@.len() == i + 1, i < self.layers@.len(), table_ok(*self),
            self.connect@.contains_key(i), __src1@ == self.connect@[i]@,
//@end
//@def LOOPINV2
            x0 == activated@[i as int], activated@.len() == i + 1, i < self.layers@.len(), table_ok(*self),
            self.connect@.contains_key(i), __src2@ == self.connect@[i]@,
//@end
//@def LOOPINV3
            x0 == activated@[i as int], activated@.len() == i + 1, i < self.layers@.len(), table_ok(*self),
            self.connect@.contains_key(i), __src3@ == self.connect@[i]@,
//@end
//@def LOOPINV4
            x0 == activated@[i as int], activated@.len() == i + 1, i < self.layers@.len(), table_ok(*self),
            self.connect@.contains_key(i), __src4@ == self.connect@[i]@,
//@end
//@def LASTINV5
            activated@.len() == n, n == self.layers@.len(), table_ok(*self), i == n, activated@ == a_full.drop_last(),
            self.connect@.contains_key(i), __src5@ == self.connect@[i]@,
//@end
//@def LASTINV6
            activated@.len() == n, n == self.layers@.len(), table_ok(*self), i == n, activated@ == a_full.drop_last(),
            self.connect@.contains_key(i), __src6@ == self.connect@[i]@,
//@end
//@def LASTINV7
            activated@.len() == n, n == self.layers@.len(), table_ok(*self), i == n, activated@ == a_full.drop_last(),
            self.connect@.contains_key(i), __src7@ == self.connect@[i]@,
//@end
//@def LASTINV8
            activated@.len() == n, n == self.layers@.len(), table_ok(*self), i == n, activated@ == a_full.drop_last(),
            self.connect@.contains_key(i), __src8@ == self.connect@[i]@,
//@end

//@unit feedback.forward prop=C11 search=feedback.forward
impl Feedback {
fn forward(&self, input: &tensor::Tensor) -> (r: (tensor::Tensor, tensor::Tensor, tensor::Tensor, tensor::Tensor, tensor::Tensor))
    requires
        self.layers@.len() >= 1, self.layers@.len() < 0x8000_0000, table_ok(*self),
        //@requires-extra
    ensures
        ({
            let n = self.layers@.len() as int;
            let a = nested_parts(r.4);
            let u = nested_parts(r.3);
            let m = nested_opts(r.2);
            &&& a.len() == n + 1 && u.len() == n && m.len() == n
            &&& a[0] == *input                                                                                       //@ob starts_from_the_block_input
            // every unrolled layer j is applied, in order, to the (skip-combined) previous activation
            &&& forall|j: int| 0 <= j < n - 1 ==> #[trigger] rel(*self, a, u, m, j)   //@ob each_layer_applied_in_order
            // the last layer likewise; its output is then combined with the table's entry for position n and flattened if asked
            &&& ({
                let last = layer_fwd(self.layers@[n - 1], xin(*self, a, n - 1, a[n - 1]));
                let out = xin(*self, a.drop_last(), n, last.1);
                u[n - 1] == last.0 && m[n - 1] == last.2 && a[n] == (if self.flatten { t_flatten(out) } else { out })
            })                                                                                                       //@ob block_output
            &&& r.1 == a[n] && r.0 == u[0]                                                                           //@ob returned_views
        }), //@ob relation
{
    broadcast use vstd::std_specs::hash::group_hash_axioms;
    //@body file=src/feedback.rs impl=Feedback fn=forward part=whole rewrites=R12,R13,R17,R18,R19 loops=9
    //@loop 1
        invariant
            table_ok(*self), self.layers@.len() >= 1, self.layers@.len() < 0x8000_0000,
            unactivated@.len() == i, activated@.len() == i + 1, maxpools@.len() == i,
            activated@[0] == *input,
            forall|j: int| 0 <= j < i ==> #[trigger] rel(*self, activated@, unactivated@, maxpools@, j), //@ob each_layer_applied_in_order.inv
    //@end
    //@before /if self\.connect\.contains_key\(&i\) \{/
            let ghost x0 = x;
    //@end
    //@loop 2
        invariant
            ${LOOPINV1}
            x == fold_op(self.accumulation, x0, srcs_of(activated@, __src1@), __jx1 as int),
            self.accumulation is Add,
    //@end
    //@loop 3
        invariant
            ${LOOPINV2}
            x == fold_op(self.accumulation, x0, srcs_of(activated@, __src2@), __jx2 as int),
            self.accumulation is Subtract,
    //@end
    //@loop 4
        invariant
            ${LOOPINV3}
            x == fold_op(self.accumulation, x0, srcs_of(activated@, __src3@), __jx3 as int),
            self.accumulation is Multiply,
    //@end
    //@loop 5
        invariant
            ${LOOPINV4}
            _x@.len() == __jx4, forall|t: int| 0 <= t < __jx4 ==> *(#[trigger] _x@[t]) == activated@[__src4@[t] as int],
    //@end
    //@after /x\.mean_inplace\(&_x\);/
                        proof { assert(derefs(_x@) =~= srcs_of(activated@, self.connect@[i]@)); }
    //@end
    //@before /let \(pre, post, max\) = match layer \{/
            proof { assert(x == xin(*self, activated@, i as int, x0)); }
    //@end
    //@before /unactivated\.push\(pre\);/
            let ghost a_old = activated@; let ghost u_old = unactivated@; let ghost m_old = maxpools@;
    //@end
    //@after /maxpools\.push\(max\);/
            proof {
                assert forall|j: int| 0 <= j < i implies #[trigger] rel(*self, activated@, unactivated@, maxpools@, j) by {
                    assert(rel(*self, a_old, u_old, m_old, j));
                    lemma_rel_agree(*self, a_old, activated@, u_old, unactivated@, m_old, maxpools@, j);
                }
                if self.connect@.contains_key(i) { lemma_srcs_push(a_old, post, self.connect@[i]@); }
                assert(rel(*self, activated@, unactivated@, maxpools@, i as int));
            }
    //@end
    //@before /let mut last = activated\.pop\(\)\.unwrap\(\);/
        let ghost a_full = activated@; let ghost n = self.layers@.len() as int;
    //@end
    //@after /let mut last = activated\.pop\(\)\.unwrap\(\);/
        let ghost last0 = last;
        proof { assert(activated@ =~= a_full.drop_last()); }
    //@end
    //@loop 6
        invariant
            ${LASTINV5}
            last == fold_op(self.accumulation, last0, srcs_of(activated@, __src5@), __jx5 as int),
            self.accumulation is Add,
    //@end
    //@loop 7
        invariant
            ${LASTINV6}
            last == fold_op(self.accumulation, last0, srcs_of(activated@, __src6@), __jx6 as int),
            self.accumulation is Subtract,
    //@end
    //@loop 8
        invariant
            ${LASTINV7}
            last == fold_op(self.accumulation, last0, srcs_of(activated@, __src7@), __jx7 as int),
            self.accumulation is Multiply,
    //@end
    //@loop 9
        invariant
            ${LASTINV8}
            _x@.len() == __jx8, forall|t: int| 0 <= t < __jx8 ==> *(#[trigger] _x@[t]) == activated@[__src8@[t] as int],
    //@end
    //@after /last\.mean_inplace\(&_x\);/
                    proof { assert(derefs(_x@) =~= srcs_of(activated@, self.connect@[i]@)); }
    //@end
    //@before /if self\.flatten \{/
        proof { assert(last == xin(*self, a_full.drop_last(), n, last0)); }
        let ghost out = last;
    //@end
    //@before /^        \($/
        proof {
            let a = activated@;
            assert(a.len() == n + 1);
            assert(a.drop_last() =~= a_full.drop_last());
            assert forall|j: int| 0 <= j < n - 1 implies #[trigger] rel(*self, a, unactivated@, maxpools@, j) by {
                assert(rel(*self, a_full, unactivated@, maxpools@, j));
                lemma_rel_agree(*self, a_full, a, unactivated@, unactivated@, maxpools@, maxpools@, j);
            }
            assert(rel(*self, a_full, unactivated@, maxpools@, n - 1));
            if self.connect@.contains_key((n - 1) as usize) { lemma_srcs_agree(a_full, a, self.connect@[(n - 1) as usize]@); }
            let u = unactivated@; let m = maxpools@;
            assert(a[0] == *input);
            assert(xin(*self, a, n - 1, a[n - 1]) == xin(*self, a_full, n - 1, a_full[n - 1]));
            let lastv = layer_fwd(self.layers@[n - 1], xin(*self, a, n - 1, a[n - 1]));
            assert(u[n - 1] == lastv.0 && m[n - 1] == lastv.2);
            assert(lastv.1 == last0);
            assert(out == xin(*self, a.drop_last(), n, lastv.1));
            assert(a[n] == (if self.flatten { t_flatten(out) } else { out }));
        }
    //@end
    //@endbody
}
}
//@endunit
} // verus!
fn main() {}
