//@include prelude.rs
verus! {
// The heads of Convolution::backward and Deconvolution::backward (regions): which tensors the `delta` handed to the verified gradient nests is built
// from.  `get_triple` (C14), the activation derivative (C07), `hadamard3d` (C15 element unit) and the loop scale are uninterpreted.
pub mod tensor {
    use vstd::prelude::*;
    #[verifier::external_body] pub struct Shape { _p: u8 }
    #[verifier::external_body] pub struct Data { _p: u8 }
    #[verifier::external_body] pub struct Scale { _p: u8 }
    pub struct Tensor { pub shape: Shape, pub data: Data }
    pub uninterp spec fn triple_of(t: Tensor, s: Shape) -> Seq<Vec<Vec<f32>>>;
    pub uninterp spec fn hadamard3d_of(a: Seq<Vec<Vec<f32>>>, b: Seq<Vec<Vec<f32>>>, s: f32) -> Seq<Vec<Vec<f32>>>;
    pub uninterp spec fn scale_of(s: Scale, loops: f32) -> f32;
    impl Tensor {
        #[verifier::external_body] pub fn get_triple(&self, outputs: &Shape) -> (r: Vec<Vec<Vec<f32>>>) ensures r@ == triple_of(*self, *outputs) { unimplemented!() }
    }
    #[verifier::external_body] pub fn hadamard3d(ten1: &Vec<Vec<Vec<f32>>>, ten2: &Vec<Vec<Vec<f32>>>, scalar: f32) -> (r: Vec<Vec<Vec<f32>>>) ensures r@ == hadamard3d_of(ten1@, ten2@, scalar) { unimplemented!() }
}
use tensor::*;
pub mod activation {
    use vstd::prelude::*; use super::tensor::*;
    pub struct Function { pub kind: u8 }
    pub uninterp spec fn act_bwd(f: Function, x: Tensor) -> Tensor;
    impl Function { #[verifier::external_body] pub fn backward(&self, input: &Tensor) -> (r: Tensor) ensures r == act_bwd(*self, *input) { unimplemented!() } }
}
// R3: `(self.scale)(self.loops)`
#[verifier::external_body] pub fn call_scale(s: &tensor::Scale, loops: f32) -> (r: f32) ensures r == scale_of(*s, loops) { 1.0 }
pub struct Convolution { pub inputs: tensor::Shape, pub outputs: tensor::Shape, pub loops: f32, pub scale: tensor::Scale, pub activation: activation::Function }
pub struct Deconvolution { pub inputs: tensor::Shape, pub outputs: tensor::Shape, pub loops: f32, pub scale: tensor::Scale, pub activation: activation::Function }

//@def HEAD_ENSURES
        // delta = (incoming gradient, in the layer's OUTPUT shape) (.) f'(the layer's pre-activation, same shape) * scale(loops); the input is read in the layer's INPUT shape
        r.0@ == hadamard3d_of(triple_of(*gradient, self.outputs), triple_of(activation::act_bwd(self.activation, *output), self.outputs), scale_of(self.scale, self.loops)), //@ob delta_is_gradient_times_activation_derivative_at_the_preactivation
        r.1@ == triple_of(*input, self.inputs), //@ob input_read_in_the_input_shape
//@end

//@unit conv.backward.head prop=C01
impl Convolution {
fn backward_head(&self, gradient: &tensor::Tensor, input: &tensor::Tensor, output: &tensor::Tensor) -> (r: (Vec<Vec<Vec<f32>>>, Vec<Vec<Vec<f32>>>))
    requires true,
        //@requires-extra
    ensures
        ${HEAD_ENSURES}
{
    //@body file=src/convolution.rs impl=Convolution fn=backward part="region:/let gradient = gradient\.get_triple\(/../let input = input\.get_triple\(/" rewrites=R3 loops=0
    //@endbody
    (delta, input)
}
}
//@endunit

//@unit deconv.backward.head prop=C01
impl Deconvolution {
fn backward_head(&self, gradient: &tensor::Tensor, input: &tensor::Tensor, output: &tensor::Tensor) -> (r: (Vec<Vec<Vec<f32>>>, Vec<Vec<Vec<f32>>>))
    requires true,
        //@requires-extra
    ensures
        ${HEAD_ENSURES}
{
    //@body file=src/deconvolution.rs impl=Deconvolution fn=backward part="region:/let gradient = gradient\.get_triple\(/../let input = input\.get_triple\(/" rewrites=R3 loops=0
    //@endbody
    (delta, input)
}
}
//@endunit
} // verus!
fn main() {}
