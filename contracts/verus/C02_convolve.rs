//@include prelude.rs
verus! {
// R5: Convolution reduced to the fields `convolve` mentions.
pub struct Convolution {
    pub stride: (usize, usize),
    pub padding: (usize, usize),
    pub dilation: (usize, usize),
}

// ---- the operator (property C02): strided, dilated cross-correlation of the (already padded) input ----
//   y[f][a][b] = sum_{c,h,w} k[f][c][h][w] * x[c][a*s0 + h*d0][b*s1 + w*d1]
// accumulated from 0.0 in (c, h, w) order (the only thing pinned beyond the mathematical definition is that order, F1).
pub open spec fn xc_tap(s: Convolution, x: Seq<Vec<Vec<f32>>>, k: Seq<&Vec<Vec<Vec<f32>>>>, f: int, a: int, b: int, c: int, h: int, w: int) -> f32 {
    fmul(k[f]@[c]@[h]@[w], x[c]@[a * s.stride.0 + h * s.dilation.0]@[b * s.stride.1 + w * s.dilation.1])
}
pub open spec fn xc_w(s: Convolution, x: Seq<Vec<Vec<f32>>>, k: Seq<&Vec<Vec<Vec<f32>>>>, f: int, a: int, b: int, c: int, h: int, n: int, init: f32) -> f32
    decreases n
{ if n <= 0 { init } else { fadd(xc_w(s, x, k, f, a, b, c, h, n - 1, init), xc_tap(s, x, k, f, a, b, c, h, n - 1)) } }
pub open spec fn xc_h(s: Convolution, x: Seq<Vec<Vec<f32>>>, k: Seq<&Vec<Vec<Vec<f32>>>>, f: int, a: int, b: int, c: int, n: int, kw: int, init: f32) -> f32
    decreases n
{ if n <= 0 { init } else { xc_w(s, x, k, f, a, b, c, n - 1, kw, xc_h(s, x, k, f, a, b, c, n - 1, kw, init)) } }
pub open spec fn xc_c(s: Convolution, x: Seq<Vec<Vec<f32>>>, k: Seq<&Vec<Vec<Vec<f32>>>>, f: int, a: int, b: int, n: int, kh: int, kw: int, init: f32) -> f32
    decreases n
{ if n <= 0 { init } else { xc_h(s, x, k, f, a, b, n - 1, kh, kw, xc_c(s, x, k, f, a, b, n - 1, kh, kw, init)) } }
pub open spec fn xcorr(s: Convolution, x: Seq<Vec<Vec<f32>>>, k: Seq<&Vec<Vec<Vec<f32>>>>, f: int, a: int, b: int) -> f32 {
    xc_c(s, x, k, f, a, b, k[0]@.len() as int, k[0]@[0]@.len() as int, k[0]@[0]@[0]@.len() as int, 0.0f32)
}
// standard output size (torch.nn.Conv2d, on the padded extent): floor((i - d*(k-1) - 1)/s) + 1
pub open spec fn conv_out(i: int, k: int, s: int, d: int) -> int { (i - (k - 1) * d - 1) / s + 1 }

//@def SHAPES
                ih == x@[0]@.len(), iw == x@[0]@[0]@.len(), kf == kernels@.len(), kc == kernels@[0]@.len(), kh == kernels@[0]@[0]@.len(), kw == kernels@[0]@[0]@[0]@.len(),
                rect3(x@, x@.len() as int, ih as int, iw as int), rect4r(kernels@, kf as int, kc as int, kh as int, kw as int), kc <= x@.len(),
                (oh - 1) * self.stride.0 <= ih - (kh - 1) * self.dilation.0 - 1, (ow - 1) * self.stride.1 <= iw - (kw - 1) * self.dilation.1 - 1,
                ih < 0x8000_0000, iw < 0x8000_0000, kh >= 1, kw >= 1, kh < 0x8000_0000, kw < 0x8000_0000,
                self.stride.0 < 0x8000_0000, self.stride.1 < 0x8000_0000, self.dilation.0 < 0x8000_0000, self.dilation.1 < 0x8000_0000,
                (kh - 1) * self.dilation.0 + 1 <= ih, (kw - 1) * self.dilation.1 + 1 <= iw,
//@end
//@def DONE_F
                forall|f: int, a: int, b: int| 0 <= f < filter && 0 <= a < oh && 0 <= b < ow ==> y@[f]@[a]@[b] == xcorr(*self, x@, kernels@, f, a, b), //@ob xcorr.inv
//@end
//@def DONE_A
                forall|a: int, b: int| 0 <= a < height && 0 <= b < ow ==> y@[filter as int]@[a]@[b] == xcorr(*self, x@, kernels@, filter as int, a, b), //@ob xcorr.inv
//@end
//@def INWIN
                filter < kf, height < oh, width < ow,
                height * self.stride.0 <= ih - (kh - 1) * self.dilation.0 - 1,
                width * self.stride.1 <= iw - (kw - 1) * self.dilation.1 - 1,
//@end

//@unit conv.convolve prop=C02,C08 search=conv.forward
impl Convolution {
fn convolve(
    &self,
    x: &Vec<Vec<Vec<f32>>>,
    kernels: &Vec<&Vec<Vec<Vec<f32>>>>,
) -> (y: Vec<Vec<Vec<f32>>>)
    requires
        // rectangular, non-empty input (already padded) and kernels; kernel channels <= input channels
        x@.len() >= 1, x@[0]@.len() >= 1, x@[0]@[0]@.len() >= 1,
        rect3(x@, x@.len() as int, x@[0]@.len() as int, x@[0]@[0]@.len() as int),
        kernels@.len() >= 1, kernels@[0]@.len() >= 1, kernels@[0]@[0]@.len() >= 1, kernels@[0]@[0]@[0]@.len() >= 1,
        rect4r(kernels@, kernels@.len() as int, kernels@[0]@.len() as int, kernels@[0]@[0]@.len() as int, kernels@[0]@[0]@[0]@.len() as int),
        kernels@[0]@.len() <= x@.len(),
        // valid configuration (C08 quantifier): stride >= 1 and the effective kernel fits the padded input
        self.stride.0 >= 1, self.stride.1 >= 1,
        (kernels@[0]@[0]@.len() - 1) * self.dilation.0 + 1 <= x@[0]@.len(),
        (kernels@[0]@[0]@[0]@.len() - 1) * self.dilation.1 + 1 <= x@[0]@[0]@.len(),
        // machine-integer ranges
        x@[0]@.len() < 0x8000_0000, x@[0]@[0]@.len() < 0x8000_0000,
        self.stride.0 < 0x8000_0000, self.stride.1 < 0x8000_0000,
        self.dilation.0 < 0x8000_0000, self.dilation.1 < 0x8000_0000,
        kernels@[0]@[0]@.len() < 0x8000_0000, kernels@[0]@[0]@[0]@.len() < 0x8000_0000,
        //@requires-extra
    ensures
        rect3(y@, kernels@.len() as int,
            conv_out(x@[0]@.len() as int, kernels@[0]@[0]@.len() as int, self.stride.0 as int, self.dilation.0 as int),
            conv_out(x@[0]@[0]@.len() as int, kernels@[0]@[0]@[0]@.len() as int, self.stride.1 as int, self.dilation.1 as int)), //@ob shape
        forall|f: int, a: int, b: int| 0 <= f < y@.len() && 0 <= a < y@[f]@.len() && 0 <= b < y@[f]@[a]@.len()
            ==> y@[f]@[a]@[b] == xcorr(*self, x@, kernels@, f, a, b), //@ob xcorr
{
    broadcast use {f32_total};
    proof { f32_obeys(); }
    //@body file=src/convolution.rs impl=Convolution fn=convolve part=whole rewrites=R1 loops=6
    //@after /let mut y = vec!/
        proof {
            assert((oh - 1) * self.stride.0 <= ih - (kh - 1) * self.dilation.0 - 1) by (nonlinear_arith)
                requires oh - 1 == (ih - (kh - 1) * self.dilation.0 - 1) / (self.stride.0 as int), self.stride.0 >= 1, ih - (kh - 1) * self.dilation.0 - 1 >= 0;
            assert((ow - 1) * self.stride.1 <= iw - (kw - 1) * self.dilation.1 - 1) by (nonlinear_arith)
                requires ow - 1 == (iw - (kw - 1) * self.dilation.1 - 1) / (self.stride.1 as int), self.stride.1 >= 1, iw - (kw - 1) * self.dilation.1 - 1 >= 0;
        }
    //@end
    //@loop 1
            invariant
                ${SHAPES}
                rect3(y@, kf as int, oh as int, ow as int),
                ${DONE_F}
    //@end
    //@loop 2
            invariant
                ${SHAPES}
                rect3(y@, kf as int, oh as int, ow as int), filter < kf,
                ${DONE_F}
                ${DONE_A}
    //@end
    //@loop 3
            invariant
                ${SHAPES}
                rect3(y@, kf as int, oh as int, ow as int), filter < kf, height < oh,
                ${DONE_F}
                ${DONE_A}
                forall|b: int| 0 <= b < width ==> y@[filter as int]@[height as int]@[b] == xcorr(*self, x@, kernels@, filter as int, height as int, b), //@ob xcorr.inv
    //@end
    //@after /let mut sum = 0.0;/
                    proof {
                        assert(height * self.stride.0 <= (oh - 1) * self.stride.0) by (nonlinear_arith) requires height <= oh - 1, self.stride.0 >= 0;
                        assert(width * self.stride.1 <= (ow - 1) * self.stride.1) by (nonlinear_arith) requires width <= ow - 1, self.stride.1 >= 0;
                    }
    //@end
    //@loop 4
            invariant
                ${SHAPES}
                ${INWIN}
                sum == xc_c(*self, x@, kernels@, filter as int, height as int, width as int, c as int, kh as int, kw as int, 0.0f32), //@ob xcorr.inv
    //@end
    //@loop 5
            invariant
                ${SHAPES}
                ${INWIN}
                c < kc,
                sum == xc_h(*self, x@, kernels@, filter as int, height as int, width as int, c as int, h as int, kw as int,
                    xc_c(*self, x@, kernels@, filter as int, height as int, width as int, c as int, kh as int, kw as int, 0.0f32)), //@ob xcorr.inv
    //@end
    //@loop 6
            invariant
                ${SHAPES}
                ${INWIN}
                c < kc, h < kh,
                sum == xc_w(*self, x@, kernels@, filter as int, height as int, width as int, c as int, h as int, w as int,
                    xc_h(*self, x@, kernels@, filter as int, height as int, width as int, c as int, h as int, kw as int,
                        xc_c(*self, x@, kernels@, filter as int, height as int, width as int, c as int, kh as int, kw as int, 0.0f32))), //@ob xcorr.inv
    //@end
    //@before /let _h = /
                                broadcast use {f32_total};
                                proof {
                                    f32_obeys();
                                    assert(h * self.dilation.0 <= (kh - 1) * self.dilation.0) by (nonlinear_arith) requires h <= kh - 1, self.dilation.0 >= 0;
                                    assert(w * self.dilation.1 <= (kw - 1) * self.dilation.1) by (nonlinear_arith) requires w <= kw - 1, self.dilation.1 >= 0;
                                }
    //@end
    //@endbody
}
}
//@endunit
} // verus!
fn main() {}
