//@include prelude.rs
verus! {
// R5: Tensor, the layers and the objective are opaque; `predict` is an uninterpreted function of (network, input) here (unit
// network.predict ties it to the last activation of the verified forward pass).  This file decides what validate() and
// predict_batch() AGGREGATE, for every data-set size, tolerance and (R35) every parallel chunk size.
pub mod tensor {
    use vstd::prelude::*;
    #[verifier::external_body] pub struct Data { _p: u8 }
    pub struct Tensor { pub data: Data }
    pub uninterp spec fn t_argmax(a: Tensor) -> usize;
    pub uninterp spec fn t_flat(a: Tensor) -> Seq<f32>;
    impl Tensor {
        #[verifier::external_body] pub fn argmax(&self) -> (r: usize) ensures r == t_argmax(*self) { 0 }
        #[verifier::external_body] pub fn get_flat(&self) -> (r: Vec<f32>) ensures r@ == t_flat(*self) { Vec::new() }
    }
}
use tensor::*;
pub mod activation {
    // R5: only the variant the accuracy rule distinguishes is named
    pub struct Softmax { pub _p: u8 }
    pub struct Other { pub _p: u8 }
    pub enum Function { Softmax(Softmax), Other(Other) }
}
pub mod dense { pub struct Dense { pub activation: super::activation::Function, pub params: super::tensor::Data } }
pub mod objective {
    use vstd::prelude::*; use super::tensor::*;
    pub struct Function { pub params: Data }
    pub uninterp spec fn loss_of(f: Function, prediction: Tensor, target: Tensor) -> (f32, Tensor);
    impl Function {
        #[verifier::external_body] pub fn loss(&self, prediction: &Tensor, target: &Tensor) -> (r: (f32, Tensor)) ensures r == loss_of(*self, *prediction, *target) { unimplemented!() }
    }
}
pub struct Opaque { pub params: Data }
pub enum Layer { Dense(dense::Dense), Convolution(Opaque), Deconvolution(Opaque), Maxpool(Opaque), Feedback(Opaque) }
pub struct Network { pub layers: Vec<Layer>, pub objective: objective::Function }
pub uninterp spec fn predict_of(n: Network, x: Tensor) -> Tensor;
pub uninterp spec fn flags_off_of(n: Network) -> Network;       // every training flag cleared (C09's regions)
pub uninterp spec fn was_training(n: Network) -> bool;
pub uninterp spec fn flags_restore_of(n: Network, training: bool) -> Network;
impl Network {
    #[verifier::external_body] pub fn predict(&self, input: &Tensor) -> (r: Tensor) ensures r == predict_of(*self, *input) { unimplemented!() }
    // ASSUMED for the prologue / epilogue statement regions of validate (C09's Kani regions decide what they do to the flags; they
    // touch neither the layer list's length and kinds nor the objective)
    #[verifier::external_body] fn flags_off(&mut self) -> (r: bool)
        ensures *final(self) == flags_off_of(*old(self)), r == was_training(*old(self)) { true }
    #[verifier::external_body] fn flags_restore(&mut self, training: bool)
        ensures *final(self) == flags_restore_of(*old(self), training) { }
}
// R27 / R28 / R35: opaque std sum, usize -> f32 conversion, chunk-size constant
pub uninterp spec fn f32_sum_spec(s: Seq<f32>) -> f32;
#[verifier::external_body] pub fn f32_sum(v: &Vec<f32>) -> (r: f32) ensures r == f32_sum_spec(v@) { v.iter().sum::<f32>() }
pub uninterp spec fn usize_as_f32_spec(n: usize) -> f32;
#[verifier::external_body] pub fn usize_as_f32(n: usize) -> (r: f32) ensures r == usize_as_f32_spec(n) { n as f32 }
pub uninterp spec fn chunk_spec() -> usize;
#[verifier::external_body] pub fn chunk_size() -> (r: usize) ensures r == chunk_spec(), 1 <= r <= 4096 { 64 }

// F1 for the by-reference operator `&f32 - &f32` used by the accuracy rule (same assumption as prelude's for values)
pub broadcast axiom fn f32_sub_total_ref(a: &f32, b: &f32) ensures #[trigger] a.sub_req(b);
pub axiom fn f32_obeys_ref() ensures <&f32 as SubSpec<&f32>>::obeys_sub_spec();

// ---- property C12 ----------------------------------------------------------------------------------------------------------------
pub open spec fn within(a: f32, b: f32, tol: f32) -> bool { flt(f32_abs_spec(fsub(a, b)), tol) }
pub open spec fn indicator(b: bool) -> f32 { if b { 1.0f32 } else { 0.0f32 } }
pub open spec fn ind_seq(t: Seq<f32>, p: Seq<f32>, tol: f32, m: int) -> Seq<f32> { Seq::new(m as nat, |q: int| indicator(within(t[q], p[q], tol))) }
/// accuracy of one sample: arg-max agreement for a soft-max output layer, otherwise the fraction of components within the tolerance
pub open spec fn accuracy(net: Network, pred: Tensor, y: Tensor, tol: f32) -> f32 {
    match net.layers@[net.layers@.len() - 1] {
        Layer::Dense(d) => match d.activation {
            activation::Function::Softmax(_) => indicator(t_argmax(y) == t_argmax(pred)),
            _ => {
                let t = t_flat(y); let p = t_flat(pred);
                if t.len() == 1 { indicator(within(p[0], t[0], tol)) } else {
                    let m = if t.len() < p.len() { t.len() } else { p.len() };
                    fdiv(f32_sum_spec(ind_seq(t, p, tol, m as int)), usize_as_f32_spec(t.len() as usize))
                }
            }
        },
        _ => 0.0f32,   // (rejected by the code: no value is returned)
    }
}
/// (objective loss of the prediction, accuracy) of one sample
pub open spec fn score(net: Network, x: Tensor, y: Tensor, tol: f32) -> (f32, f32) {
    let pred = predict_of(net, x);
    (objective::loss_of(net.objective, pred, y).0, accuracy(net, pred, y, tol))
}
pub open spec fn losses_of(net: Network, xs: Seq<&Tensor>, ys: Seq<&Tensor>, tol: f32) -> Seq<f32> { Seq::new(xs.len(), |g: int| score(net, *xs[g], *ys[g], tol).0) }
pub open spec fn accs_of(net: Network, xs: Seq<&Tensor>, ys: Seq<&Tensor>, tol: f32) -> Seq<f32> { Seq::new(xs.len(), |g: int| score(net, *xs[g], *ys[g], tol).1) }

//@def VCTX
                c == chunk_spec(), __cs == c, 1 <= c <= 4096, n == inputs@.len(), n == targets@.len(), n <= 0x0fff_ffff_ffff_ffff, *self == net,
                net.layers@.len() >= 1,
                forall|g: int| 0 <= g < inputs@.len() ==> t_flat(predict_of(net, *#[trigger] inputs@[g])).len() == t_flat(*targets@[g]).len(),
//@end
//@def SCORED
                forall|g: int| 0 <= g < results@.len() ==> #[trigger] results@[g] == score(net, *inputs@[g], *targets@[g], tol), //@ob every_sample_scored_once_in_input_order.inv
//@end

//@unit network.validate prop=C12 search=validate.mean
impl Network {
pub fn validate(
    &mut self,
    inputs: &[&tensor::Tensor],
    targets: &[&tensor::Tensor],
    tol: f32,
) -> (r: (f32, f32))
    requires
        inputs@.len() == targets@.len(), inputs@.len() <= 0x0fff_ffff_ffff_ffff,
        flags_off_of(*old(self)).layers@.len() >= 1,
        // valid data: every prediction has as many components as its target
        forall|g: int| 0 <= g < inputs@.len() ==> t_flat(predict_of(flags_off_of(*old(self)), *#[trigger] inputs@[g])).len() == t_flat(*targets@[g]).len(),
        //@requires-extra
    ensures
        // arithmetic mean over the samples, in input order, of the loss / the accuracy of the dropout-free network's prediction
        r.0 == fdiv(f32_sum_spec(losses_of(flags_off_of(*old(self)), inputs@, targets@, tol)), usize_as_f32_spec(inputs@.len() as usize)), //@ob mean_loss_over_the_samples
        r.1 == fdiv(f32_sum_spec(accs_of(flags_off_of(*old(self)), inputs@, targets@, tol)), usize_as_f32_spec(inputs@.len() as usize)), //@ob mean_accuracy_over_the_samples
        *final(self) == flags_restore_of(flags_off_of(*old(self)), was_training(*old(self))), //@ob flags_restored
{
    broadcast use {f32_total};
    proof { f32_obeys(); }
    //@body file=src/network.rs impl=Network fn=validate part=whole rewrites=R13,R19,R27,R28,R31,R32,R33,R35 loops=4
    //@assume-region /let mut training: bool = false;/../for layer in &mut self\.layers \{/ call="let training: bool = self.flags_off();" why="clears every training flag and reports whether a dense layer was training (C09's Kani regions); touches nothing else"
    //@assume-region /if training \{/../if training \{/ call="self.flags_restore(training);" why="restores the training flags (C09's Kani regions); touches nothing else"
    //@type results = Vec<(f32, f32)>
    //@type loss = Vec<f32>
    //@type acc = Vec<f32>
    //@after /let training: bool = self\.flags_off\(\);/
        let ghost net = *self;
        let ghost c = chunk_spec();
        let ghost n = inputs@.len();
    //@end
    //@loop 1
            invariant
                ${VCTX}
                __ci * c < n + c,
                results@.len() == (if __ci * c <= n { __ci * c } else { n as int }),
                ${SCORED}
            decreases n + c - __ci * c,
    //@end
    //@loop 2
            invariant
                ${VCTX}
                __ci * c < n, __ea == (if (__ci + 1) * c < n { (__ci + 1) * c } else { n as int }), __eb == __ea,
                (__ci + 1) * c == __ci * c + c,
                __ci * c <= __k <= __ea, results@.len() == __k,
                ${SCORED}
            decreases __ea - __k,
    //@end
    //@before /let prediction = self\.predict\(input\);/
                        broadcast use {f32_total};
                        proof { f32_obeys(); }
    //@end
    //@loop 3
            invariant
                target@ == t_flat(*targets@[__k as int]), prediction@ == t_flat(predict_of(net, *inputs@[__k as int])),
                __q <= target@.len(), __q <= prediction@.len(),
                __m@ =~= ind_seq(target@, prediction@, tol, __q as int), //@ob fraction_within_tolerance.inv
    //@end
    //@before /if \(t - p\)/
                                                    broadcast use {f32_total};
                                                    broadcast use f32_sub_total_ref;
                                                    proof { f32_obeys(); f32_obeys_ref(); }
    //@end
    //@before /if \(prediction\[0\]/
                                        broadcast use {f32_total};
                                        proof { f32_obeys(); }
    //@end
    //@loop 4
            invariant
                results@.len() == n, loss@.len() == __u, acc@.len() == __u,
                forall|g: int| 0 <= g < __u ==> #[trigger] loss@[g] == results@[g].0,
                forall|g: int| 0 <= g < __u ==> #[trigger] acc@[g] == results@[g].1,
    //@end
    //@after /acc\.push\(results\[__u\]\.1\); \}/
        proof {
            assert(loss@ =~= losses_of(net, inputs@, targets@, tol));
            assert(acc@ =~= accs_of(net, inputs@, targets@, tol));
        }
    //@end
    //@endbody
}
}
//@endunit

//@unit network.predict_batch prop=C12
impl Network {
pub fn predict_batch(&self, inputs: &Vec<&tensor::Tensor>) -> (r: Vec<tensor::Tensor>)
    requires
        inputs@.len() <= 0x0fff_ffff_ffff_ffff,
        //@requires-extra
    ensures
        r@.len() == inputs@.len(), //@ob one_prediction_per_input
        forall|g: int| 0 <= g < inputs@.len() ==> #[trigger] r@[g] == predict_of(*self, *inputs@[g]), //@ob predict_of_each_input_in_input_order
{
    let ghost c = chunk_spec();
    let ghost n = inputs@.len();
    //@body file=src/network.rs impl=Network fn=predict_batch part=whole rewrites=R34,R35 loops=2
    //@type __out = Vec<tensor::Tensor>
    //@loop 1
            invariant
                c == chunk_spec(), __cs == c, 1 <= c <= 4096, n == inputs@.len(), n <= 0x0fff_ffff_ffff_ffff,
                __ci * c < n + c,
                __out@.len() == (if __ci * c <= n { __ci * c } else { n as int }),
                forall|g: int| 0 <= g < __out@.len() ==> #[trigger] __out@[g] == predict_of(*self, *inputs@[g]), //@ob predict_of_each_input_in_input_order.inv
            decreases n + c - __ci * c,
    //@end
    //@loop 2
            invariant
                c == chunk_spec(), __cs == c, 1 <= c <= 4096, n == inputs@.len(), n <= 0x0fff_ffff_ffff_ffff,
                __ci * c < n, __ea == (if (__ci + 1) * c < n { (__ci + 1) * c } else { n as int }), (__ci + 1) * c == __ci * c + c,
                __ci * c <= __k <= __ea, __out@.len() == __k,
                forall|g: int| 0 <= g < __out@.len() ==> #[trigger] __out@[g] == predict_of(*self, *inputs@[g]), //@ob predict_of_each_input_in_input_order.inv
            decreases __ea - __k,
    //@end
    //@endbody
}
}
//@endunit
} // verus!
fn main() {}
