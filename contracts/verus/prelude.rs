// ---- Verus prelude shared by every unit file (DESIGN §4, F1) -------------------------------------
// Everything in this file is an ASSUMPTION about f32 / libm / the target and is listed as such in
// every evidence file (the driver scans for `axiom`, `assume_specification`, `external_body`).
use vstd::prelude::*;
use vstd::std_specs::ops::*;
use vstd::std_specs::cmp::*;
verus! {
global layout usize is size == 8;

// F1: float arithmetic is total (no panics) and equals vstd's uninterpreted *_spec functions.
pub broadcast axiom fn f32_add_total(a: f32, b: f32) ensures #[trigger] a.add_req(b);
pub broadcast axiom fn f32_sub_total(a: f32, b: f32) ensures #[trigger] a.sub_req(b);
pub broadcast axiom fn f32_mul_total(a: f32, b: f32) ensures #[trigger] a.mul_req(b);
pub broadcast axiom fn f32_div_total(a: f32, b: f32) ensures #[trigger] a.div_req(b);
pub broadcast group f32_total { f32_add_total, f32_sub_total, f32_mul_total, f32_div_total }
pub axiom fn f32_obeys()
    ensures
        <f32 as AddSpec>::obeys_add_spec(), <f32 as SubSpec>::obeys_sub_spec(),
        <f32 as MulSpec>::obeys_mul_spec(), <f32 as DivSpec>::obeys_div_spec(),
        <f32 as PartialOrdSpec>::obeys_partial_cmp_spec(), <f32 as PartialEqSpec>::obeys_eq_spec();

// F1: the two IEEE-754 bit-exact algebraic laws (each also put to CBMC over all bit patterns).
pub broadcast axiom fn f32_add_comm(a: f32, b: f32) ensures #[trigger] a.add_spec(b) == b.add_spec(a);
pub broadcast axiom fn f32_mul_comm(a: f32, b: f32) ensures #[trigger] a.mul_spec(b) == b.mul_spec(a);

// short spec names
pub open spec fn fadd(a: f32, b: f32) -> f32 { a.add_spec(b) }
pub open spec fn fsub(a: f32, b: f32) -> f32 { a.sub_spec(b) }
pub open spec fn fmul(a: f32, b: f32) -> f32 { a.mul_spec(b) }
pub open spec fn fdiv(a: f32, b: f32) -> f32 { a.div_spec(b) }
pub open spec fn fgt(a: f32, b: f32) -> bool { a.partial_cmp_spec(&b) == Some(core::cmp::Ordering::Greater) }
pub open spec fn flt(a: f32, b: f32) -> bool { a.partial_cmp_spec(&b) == Some(core::cmp::Ordering::Less) }
pub open spec fn feq(a: f32, b: f32) -> bool { a.eq_spec(&b) }

// R2: unary minus
pub uninterp spec fn f32_neg_spec(a: f32) -> f32;
// (`-x` is applied to `f32` and to `&f32` operands in the repository; one wrapper for both)
pub trait AsF32 { spec fn val(&self) -> f32; }
impl AsF32 for f32 { open spec fn val(&self) -> f32 { *self } }
impl AsF32 for &f32 { open spec fn val(&self) -> f32 { **self } }
#[verifier::external_body]
pub fn fneg<T: AsF32 + core::ops::Neg<Output = f32>>(a: T) -> (r: f32) ensures r == f32_neg_spec(a.val()) { -a }

// libm: uninterpreted spec functions (Verus proves *which expression* is computed, not its value)
pub uninterp spec fn f32_sqrt_spec(a: f32) -> f32;
pub uninterp spec fn f32_powi_spec(a: f32, n: i32) -> f32;
pub uninterp spec fn f32_powf_spec(a: f32, n: f32) -> f32;
pub uninterp spec fn f32_exp_spec(a: f32) -> f32;
pub uninterp spec fn f32_ln_spec(a: f32) -> f32;
pub uninterp spec fn f32_tanh_spec(a: f32) -> f32;
pub uninterp spec fn f32_cosh_spec(a: f32) -> f32;
pub uninterp spec fn f32_max_spec(a: f32, b: f32) -> f32;
pub uninterp spec fn f32_abs_spec(a: f32) -> f32;
pub uninterp spec fn f32_clamp_spec(a: f32, lo: f32, hi: f32) -> f32;
pub assume_specification[ f32::sqrt ](a: f32) -> (r: f32) ensures r == f32_sqrt_spec(a);
pub assume_specification[ f32::powi ](a: f32, n: i32) -> (r: f32) ensures r == f32_powi_spec(a, n);
pub assume_specification[ f32::powf ](a: f32, n: f32) -> (r: f32) ensures r == f32_powf_spec(a, n);
pub assume_specification[ f32::exp ](a: f32) -> (r: f32) ensures r == f32_exp_spec(a);
pub assume_specification[ f32::ln ](a: f32) -> (r: f32) ensures r == f32_ln_spec(a);
pub assume_specification[ f32::tanh ](a: f32) -> (r: f32) ensures r == f32_tanh_spec(a);
pub assume_specification[ f32::cosh ](a: f32) -> (r: f32) ensures r == f32_cosh_spec(a);
pub assume_specification[ f32::max ](a: f32, b: f32) -> (r: f32) ensures r == f32_max_spec(a, b);
pub assume_specification[ f32::abs ](a: f32) -> (r: f32) ensures r == f32_abs_spec(a);
pub assume_specification[ f32::clamp ](a: f32, lo: f32, hi: f32) -> (r: f32) ensures r == f32_clamp_spec(a, lo, hi);

// R9: associated constants
pub uninterp spec fn f32_min_spec() -> f32;
#[verifier::external_body]
pub fn f32_min_const() -> (r: f32) ensures r == f32_min_spec() { f32::MIN }
pub uninterp spec fn f32_neg_inf_spec() -> f32;
#[verifier::external_body]
pub fn f32_neg_inf_const() -> (r: f32) ensures r == f32_neg_inf_spec() { f32::NEG_INFINITY }

// R13 / R14: `panic!(..)` in statement position
#[verifier::external_body]
pub fn reject() ensures false { panic!() }
#[verifier::external_body]
pub fn must_not_reject() requires false { panic!() }
// the same in expression position (`else { panic!(..) }`, `_ => panic!(..)`)
#[verifier::external_body]
pub fn reject_v<T>() -> (r: T) ensures false { panic!() }
#[verifier::external_body]
pub fn must_not_reject_v<T>() -> (r: T) requires false { panic!() }

// R32 / R34: ghost hint emitted at the head of each generated chunk loop (erased)
pub proof fn lemma_chunk_step(ci: int, c: int) ensures (ci + 1) * c == ci * c + c, (ci >= 0 && c >= 1) ==> ci <= ci * c
{ assert((ci + 1) * c == ci * c + c) by (nonlinear_arith); if ci >= 0 && c >= 1 { assert(ci <= ci * c) by (nonlinear_arith) requires ci >= 0, c >= 1; } }

// shape predicates
pub open spec fn rect2(x: Seq<Vec<f32>>, h: int, w: int) -> bool {
    x.len() == h && forall|i: int| 0 <= i < h ==> (#[trigger] x[i]).len() == w
}
pub open spec fn rect3(x: Seq<Vec<Vec<f32>>>, c: int, h: int, w: int) -> bool {
    x.len() == c && forall|i: int| 0 <= i < c ==> (#[trigger] x[i]).len() == h
        && forall|j: int| 0 <= j < h ==> (#[trigger] x[i][j]).len() == w
}
pub open spec fn rect4(k: Seq<Vec<Vec<Vec<f32>>>>, f: int, c: int, h: int, w: int) -> bool {
    k.len() == f && forall|i: int| 0 <= i < f ==> rect3((#[trigger] k[i])@, c, h, w)
}
pub open spec fn rect4r(k: Seq<&Vec<Vec<Vec<f32>>>>, f: int, c: int, h: int, w: int) -> bool {
    k.len() == f && forall|i: int| 0 <= i < f ==> rect3((#[trigger] k[i])@, c, h, w)
}
} // verus!
