//@include prelude.rs
verus! {
// R5: opaque Tensor (only its identity up to cloning matters here) and the layer structs reduced to their parameter fields.
#[verifier::external_body]
pub struct TensorRepr { _p: u8 }
pub mod tensor {
    use vstd::prelude::*;
    use super::*;
    #[verifier::external_body]
    pub struct Tensor { _p: u8 }
    pub uninterp spec fn tval(t: Tensor) -> int;                 // the tensor's contents (abstract)
    pub uninterp spec fn parts(t: Tensor) -> Seq<int>;           // contents of the tensors nested in a `Tensor::nested`
    impl Clone for Tensor {
        #[verifier::external_body]
        fn clone(&self) -> (r: Self) ensures tval(r) == tval(*self), parts(r) == parts(*self) { Tensor { _p: self._p } }
    }
    impl Tensor {
        #[verifier::external_body]
        pub fn unnested(&self) -> (r: Vec<Tensor>)
            ensures r@.len() == parts(*self).len(), forall|k: int| 0 <= k < r@.len() ==> tval(#[trigger] r@[k]) == parts(*self)[k]
        { Vec::new() }
    }
}
pub mod dense { pub struct Dense { pub weights: super::tensor::Tensor, pub bias: Option<super::tensor::Tensor> } }
pub mod convolution { pub struct Convolution { pub kernels: Vec<super::tensor::Tensor> } }
pub mod deconvolution { pub struct Deconvolution { pub kernels: Vec<super::tensor::Tensor> } }
pub mod maxpool { pub struct Maxpool { pub flatten: bool } }
pub mod network {
    pub enum Layer {
        Dense(super::dense::Dense),
        Convolution(super::convolution::Convolution),
        Deconvolution(super::deconvolution::Deconvolution),
        Maxpool(super::maxpool::Maxpool),
    }
}
use tensor::*;
pub struct Feedback { pub layers: Vec<network::Layer>, pub coupled: Vec<Vec<usize>> }

// a layer "holds" (weight, bias): dense weights/bias are copies of them, (de)convolution kernels are the parts of `weight`
pub open spec fn kernels_are(k: Seq<Tensor>, w: Tensor) -> bool {
    k.len() == parts(w).len() && forall|j: int| 0 <= j < k.len() ==> tval(#[trigger] k[j]) == parts(w)[j]
}
pub open spec fn holds(l: network::Layer, w: Tensor, b: Option<Tensor>) -> bool {
    match l {
        network::Layer::Dense(d) => tval(d.weights) == tval(w) && (d.bias is Some ==> (b is Some && tval(d.bias->Some_0) == tval(b->Some_0))),
        network::Layer::Convolution(c) => kernels_are(c.kernels@, w),
        network::Layer::Deconvolution(c) => kernels_are(c.kernels@, w),
        network::Layer::Maxpool(_) => true,
    }
}

//@unit feedback.coupled prop=C10 search=feedback.tied
// region of Feedback::create: the groups of unrolled layer indices that share parameters
#[verifier::loop_isolation(false)]
fn coupled_region(length: usize, loops: usize) -> (coupled: Vec<Vec<usize>>)
    requires length >= 1, loops >= 1, length * loops < 0x1_0000_0000,
        //@requires-extra
    ensures
        coupled@.len() == length, //@ob one_group_per_layer
        forall|l: int| 0 <= l < length ==> (#[trigger] coupled@[l])@.len() == loops, //@ob one_member_per_repetition
        forall|l: int, i: int| 0 <= l < length && 0 <= i < loops ==> (#[trigger] coupled@[l]@[i]) == l + i * length, //@ob member_is_repetition_i_of_layer_l
{
    //@body file=src/feedback.rs impl=Feedback fn=create part="region:/let mut coupled: Vec<Vec<usize>> = Vec::new\(\);/../for layer in 0\.\.length \{/" loops=2
    //@loop 1
        invariant
            coupled@.len() == layer,
            forall|l: int| 0 <= l < layer ==> (#[trigger] coupled@[l])@.len() == loops,
            forall|l: int, i: int| 0 <= l < layer && 0 <= i < loops ==> (#[trigger] coupled@[l]@[i]) == l + i * length,
    //@end
    //@loop 2
        invariant
            layer < length, coupling@.len() == i,
            forall|k: int| 0 <= k < i ==> (#[trigger] coupling@[k]) == layer + k * length,
    //@end
    //@before /coupling\.push\(/
                proof {
                    assert(i * length <= (loops - 1) * length) by (nonlinear_arith) requires i <= loops - 1, length >= 0;
                    assert((loops - 1) * length + length == length * loops) by (nonlinear_arith);
                }
    //@end
    //@endbody
    coupled
}
//@endunit

// every unrolled index k < length*loops is member (k / length) of group (k % length): the groups cover all repetitions
proof fn lemma_groups_cover(length: int, loops: int, k: int)
    requires length >= 1, loops >= 1, 0 <= k < length * loops
    ensures 0 <= k % length < length, 0 <= k / length < loops, k == (k % length) + (k / length) * length
{
    assert(k == length * (k / length) + k % length) by (nonlinear_arith) requires length >= 1;
    assert(k / length < loops) by (nonlinear_arith) requires 0 <= k < length * loops, length >= 1;
    assert(0 <= k / length) by (nonlinear_arith) requires 0 <= k, length >= 1;
    assert((k / length) * length == length * (k / length)) by (nonlinear_arith);
}

//@unit feedback.write_back prop=C10 search=feedback.tied
// region of Feedback::update: the last loop over a couple, which overwrites every member with the accumulated value
impl Feedback {
fn write_back(&mut self, couple: &Vec<usize>, weight: Tensor, bias: Option<Tensor>)
    requires
        forall|k: int| 0 <= k < couple@.len() ==> (#[trigger] couple@[k]) < old(self).layers@.len(),
        // a bias was accumulated whenever a member has one (the accumulation loop above pushes one per dense member with a bias)
        forall|k: int| 0 <= k < couple@.len() ==> (match #[trigger] old(self).layers@[couple@[k] as int] { network::Layer::Dense(d) => d.bias is Some ==> bias is Some, _ => true }),
        //@requires-extra
    ensures
        final(self).layers@.len() == old(self).layers@.len(), //@ob len
        // every member of the couple now holds the one accumulated value: the repetitions are tied
        forall|k: int| 0 <= k < couple@.len() ==> holds(#[trigger] final(self).layers@[couple@[k] as int], weight, bias), //@ob tied
        // layers outside the couple are untouched
        forall|j: int| 0 <= j < old(self).layers@.len() && (forall|k: int| 0 <= k < couple@.len() ==> couple@[k] != j) ==> final(self).layers@[j] == old(self).layers@[j], //@ob frame
{
    //@body file=src/feedback.rs impl=Feedback fn=update part="region:/for i in couple\.iter\(\) \{/../for i in couple\.iter\(\) \{/" rewrites=R10,R15 loops=1
    //@loop 1
        invariant
            self.layers@.len() == old(self).layers@.len(),
            forall|k: int| 0 <= k < couple@.len() ==> (#[trigger] couple@[k]) < self.layers@.len(),
            forall|k: int| 0 <= k < couple@.len() ==> (match #[trigger] self.layers@[couple@[k] as int] { network::Layer::Dense(d) => d.bias is Some ==> bias is Some, _ => true }),
            forall|k: int| 0 <= k < __ix1 ==> holds(#[trigger] self.layers@[couple@[k] as int], weight, bias),
            forall|j: int| 0 <= j < old(self).layers@.len() && (forall|k: int| 0 <= k < couple@.len() ==> couple@[k] != j) ==> self.layers@[j] == old(self).layers@[j],
    //@end
    //@endbody
}
}
//@endunit
} // verus!
fn main() {}
