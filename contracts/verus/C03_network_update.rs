//@include prelude.rs
verus! {
// R5: Tensor, the optimizer and the layers are opaque; one optimizer step on one parameter tensor is an uninterpreted function
// `opt_step(optimizer state, (layer, filter, bias) slot, step number, parameter, gradient)` (what a step computes: the 15 element units of C03).
// This unit decides the DISPATCH of Network::update for one layer: every parameter tensor of the layer receives exactly one step, with its own
// slot (reverse layer index i, filter f, bias flag), the given step number, and the gradient recorded for that layer (C03 slots, C04 "exactly one step").
pub mod tensor {
    use vstd::prelude::*;
    #[verifier::external_body] pub struct Data { _p: u8 }
    pub struct Tensor { pub data: Data }
    pub uninterp spec fn quad_parts(t: Tensor) -> Seq<Tensor>;      // the per-filter 3-D gradients of a 4-D kernel gradient
    impl Tensor {
        #[verifier::external_body] pub fn quadruple_to_vec_triple(&self) -> (r: Vec<Tensor>) ensures r@ == quad_parts(*self) { unimplemented!() }
    }
}
use tensor::*;
pub mod optimizer {
    use vstd::prelude::*; use super::tensor::*;
    pub struct Optimizer { pub state: Data }
    /// (optimizer state after the step, parameter after the step)
    pub uninterp spec fn opt_step(o: Optimizer, layer: usize, filter: usize, bias: bool, stepnr: i32, values: Tensor, gradients: Tensor) -> (Optimizer, Tensor);
    impl Optimizer {
        #[verifier::external_body]
        pub fn update(&mut self, layer: usize, filter: usize, bias: bool, stepnr: i32, values: &mut Tensor, gradients: &mut Tensor)
            ensures (*final(self), *final(values)) == opt_step(*old(self), layer, filter, bias, stepnr, *old(values), *old(gradients))
        { }
    }
}
pub mod dense { pub struct Dense { pub weights: super::tensor::Tensor, pub bias: Option<super::tensor::Tensor> } }
pub mod convolution { pub struct Convolution { pub kernels: Vec<super::tensor::Tensor> } }
pub mod deconvolution { pub struct Deconvolution { pub kernels: Vec<super::tensor::Tensor> } }
pub mod feedback {
    use vstd::prelude::*; use super::tensor::*;
    pub struct Feedback { pub params: Data }
    pub uninterp spec fn fb_update(f: Feedback, stepnr: i32, wg: Tensor, bg: Tensor) -> Feedback;
    impl Feedback {
        // (a block steps its own copies with its own optimizer and re-ties them: C10)
        #[verifier::external_body] pub fn update(&mut self, stepnr: i32, weight_gradients: &mut Tensor, bias_gradients: &mut Tensor)
            ensures *final(self) == fb_update(*old(self), stepnr, *old(weight_gradients), *old(bias_gradients)) { }
    }
}
pub struct Opaque { pub _p: u8 }
pub enum Layer { Dense(dense::Dense), Convolution(convolution::Convolution), Deconvolution(deconvolution::Deconvolution), Maxpool(Opaque), Feedback(feedback::Feedback) }
pub struct Network { pub optimizer: optimizer::Optimizer }
pub mod network { pub use super::Layer; }           // Feedback::update names the variants as `network::Layer::..`
pub struct FeedbackBlock { pub optimizer: optimizer::Optimizer }

/// the filters 0..n of a kernel list stepped in order, filter f in slot (i, f, false) with the f-th part of the layer's gradient
pub open spec fn step_filters(o: optimizer::Optimizer, i: usize, stepnr: i32, ks: Seq<Tensor>, gs: Seq<Tensor>, n: int) -> (optimizer::Optimizer, Seq<Tensor>)
    decreases n
{
    if n <= 0 { (o, ks) } else {
        let p = step_filters(o, i, stepnr, ks, gs, n - 1);
        let r = optimizer::opt_step(p.0, i, (n - 1) as usize, false, stepnr, p.1[n - 1], gs[n - 1]);
        (r.0, p.1.update(n - 1, r.1))
    }
}
pub open spec fn min_len(a: Seq<Tensor>, b: Seq<Tensor>) -> int { if a.len() < b.len() { a.len() as int } else { b.len() as int } }

//@unit network.update.dispatch prop=C03,C04
impl Network {
fn update_step(&mut self, i: usize, layer: &mut Layer, stepnr: i32, weight_gradients: &mut Vec<tensor::Tensor>, bias_gradients: &mut Vec<Option<tensor::Tensor>>)
    requires
        i < old(weight_gradients)@.len(), i < old(bias_gradients)@.len(),
        // one bias gradient was recorded for every layer that has a bias (Dense::backward: bias gradient iff bias; a block always returns one)
        (*old(layer) is Dense && old(layer)->Dense_0.bias is Some) ==> old(bias_gradients)@[i as int] is Some,
        (*old(layer) is Feedback) ==> old(bias_gradients)@[i as int] is Some,
        //@requires-extra
    ensures
        match *old(layer) {
            // a dense layer: ONE step on the weights in slot (i, 0, false), then - iff it has a bias - ONE step on the bias in slot (i, 0, true)
            Layer::Dense(d) => {
                let w = optimizer::opt_step(old(self).optimizer, i, 0, false, stepnr, d.weights, old(weight_gradients)@[i as int]);
                &&& *final(layer) is Dense
                &&& final(layer)->Dense_0.weights == w.1
                &&& (d.bias is None ==> final(self).optimizer == w.0 && final(layer)->Dense_0.bias is None)
                &&& (d.bias is Some ==> ({
                        let b = optimizer::opt_step(w.0, i, 0, true, stepnr, d.bias->Some_0, old(bias_gradients)@[i as int]->Some_0);
                        final(self).optimizer == b.0 && final(layer)->Dense_0.bias == Some(b.1) }))
            },
            // a (de)convolution layer: ONE step per filter f in slot (i, f, false) with the f-th part of the layer's kernel gradient
            Layer::Convolution(c) => {
                let gs = quad_parts(old(weight_gradients)@[i as int]);
                let r = step_filters(old(self).optimizer, i, stepnr, c.kernels@, gs, min_len(c.kernels@, gs));
                *final(layer) is Convolution && final(layer)->Convolution_0.kernels@ == r.1 && final(self).optimizer == r.0
            },
            Layer::Deconvolution(c) => {
                let gs = quad_parts(old(weight_gradients)@[i as int]);
                let r = step_filters(old(self).optimizer, i, stepnr, c.kernels@, gs, min_len(c.kernels@, gs));
                *final(layer) is Deconvolution && final(layer)->Deconvolution_0.kernels@ == r.1 && final(self).optimizer == r.0
            },
            // max-pool has no parameters: nothing happens
            Layer::Maxpool(_) => *final(layer) == *old(layer) && final(self).optimizer == old(self).optimizer,
            // a block is handed the step number and ITS gradients and updates itself
            Layer::Feedback(f) => *final(layer) is Feedback && final(self).optimizer == old(self).optimizer
                && final(layer)->Feedback_0 == feedback::fb_update(f, stepnr, old(weight_gradients)@[i as int], old(bias_gradients)@[i as int]->Some_0),
        }, //@ob exactly_one_step_per_parameter_tensor_in_its_own_slot
{
    let ghost l0 = *layer;
    let ghost o0 = self.optimizer;
    let ghost g0 = quad_parts(weight_gradients@[i as int]);
    //@body file=src/network.rs impl=Network fn=update part=closure:1 params="(i, layer)" rewrites=R13,R47 loops=2
    //@loop 1
            invariant
                i < weight_gradients@.len(), weight_gradients@ == old(weight_gradients)@, g0 == quad_parts(old(weight_gradients)@[i as int]),
                __zy@.len() == g0.len(), forall|k: int| __f <= k < g0.len() ==> #[trigger] __zy@[k] == g0[k],
                l0 is Convolution, layer.kernels@.len() == l0->Convolution_0.kernels@.len(), __f <= min_len(l0->Convolution_0.kernels@, g0),
                (self.optimizer, layer.kernels@) == step_filters(o0, i, stepnr, l0->Convolution_0.kernels@, g0, __f as int), //@ob filters_stepped_in_order.inv
            decreases min_len(l0->Convolution_0.kernels@, g0) - __f,
    //@end
    //@loop 2
            invariant
                i < weight_gradients@.len(), weight_gradients@ == old(weight_gradients)@, g0 == quad_parts(old(weight_gradients)@[i as int]),
                __zy@.len() == g0.len(), forall|k: int| __f <= k < g0.len() ==> #[trigger] __zy@[k] == g0[k],
                l0 is Deconvolution, layer.kernels@.len() == l0->Deconvolution_0.kernels@.len(), __f <= min_len(l0->Deconvolution_0.kernels@, g0),
                (self.optimizer, layer.kernels@) == step_filters(o0, i, stepnr, l0->Deconvolution_0.kernels@, g0, __f as int), //@ob filters_stepped_in_order.inv
            decreases min_len(l0->Deconvolution_0.kernels@, g0) - __f,
    //@end
    //@endbody
}
}
//@endunit

//@unit feedback.update.dispatch prop=C03,C10
// the same dispatch inside a feedback block (first statement of Feedback::update): every COPY of every block layer gets one step of the block's own
// optimizer in its own slot, before the copies are re-tied (C10's write-back unit)
impl FeedbackBlock {
fn update_step(&mut self, i: usize, layer: &mut Layer, stepnr: i32, weight_gradients: &mut Vec<tensor::Tensor>, bias_gradients: &mut Vec<Option<tensor::Tensor>>)
    requires
        i < old(weight_gradients)@.len(), i < old(bias_gradients)@.len(),
        (*old(layer) is Dense && old(layer)->Dense_0.bias is Some) ==> old(bias_gradients)@[i as int] is Some,
        //@requires-extra
    ensures
        match *old(layer) {
            Layer::Dense(d) => {
                let w = optimizer::opt_step(old(self).optimizer, i, 0, false, stepnr, d.weights, old(weight_gradients)@[i as int]);
                &&& *final(layer) is Dense
                &&& final(layer)->Dense_0.weights == w.1
                &&& (d.bias is None ==> final(self).optimizer == w.0 && final(layer)->Dense_0.bias is None)
                &&& (d.bias is Some ==> ({
                        let b = optimizer::opt_step(w.0, i, 0, true, stepnr, d.bias->Some_0, old(bias_gradients)@[i as int]->Some_0);
                        final(self).optimizer == b.0 && final(layer)->Dense_0.bias == Some(b.1) }))
            },
            Layer::Convolution(c) => {
                let gs = quad_parts(old(weight_gradients)@[i as int]);
                let r = step_filters(old(self).optimizer, i, stepnr, c.kernels@, gs, min_len(c.kernels@, gs));
                *final(layer) is Convolution && final(layer)->Convolution_0.kernels@ == r.1 && final(self).optimizer == r.0
            },
            Layer::Deconvolution(c) => {
                let gs = quad_parts(old(weight_gradients)@[i as int]);
                let r = step_filters(old(self).optimizer, i, stepnr, c.kernels@, gs, min_len(c.kernels@, gs));
                *final(layer) is Deconvolution && final(layer)->Deconvolution_0.kernels@ == r.1 && final(self).optimizer == r.0
            },
            Layer::Maxpool(_) => *final(layer) == *old(layer) && final(self).optimizer == old(self).optimizer,
            Layer::Feedback(_) => true,   // (a nested block is rejected by the code)
        }, //@ob exactly_one_step_per_parameter_tensor_of_every_copy
{
    let ghost l0 = *layer;
    let ghost o0 = self.optimizer;
    let ghost g0 = quad_parts(weight_gradients@[i as int]);
    //@body file=src/feedback.rs impl=Feedback fn=update part=closure:1 params="(i, layer)" rewrites=R13,R47 loops=2
    //@loop 1
            invariant
                i < weight_gradients@.len(), weight_gradients@ == old(weight_gradients)@, g0 == quad_parts(old(weight_gradients)@[i as int]),
                __zy@.len() == g0.len(), forall|k: int| __f <= k < g0.len() ==> #[trigger] __zy@[k] == g0[k],
                l0 is Convolution, layer.kernels@.len() == l0->Convolution_0.kernels@.len(), __f <= min_len(l0->Convolution_0.kernels@, g0),
                (self.optimizer, layer.kernels@) == step_filters(o0, i, stepnr, l0->Convolution_0.kernels@, g0, __f as int), //@ob filters_stepped_in_order.inv
            decreases min_len(l0->Convolution_0.kernels@, g0) - __f,
    //@end
    //@loop 2
            invariant
                i < weight_gradients@.len(), weight_gradients@ == old(weight_gradients)@, g0 == quad_parts(old(weight_gradients)@[i as int]),
                __zy@.len() == g0.len(), forall|k: int| __f <= k < g0.len() ==> #[trigger] __zy@[k] == g0[k],
                l0 is Deconvolution, layer.kernels@.len() == l0->Deconvolution_0.kernels@.len(), __f <= min_len(l0->Deconvolution_0.kernels@, g0),
                (self.optimizer, layer.kernels@) == step_filters(o0, i, stepnr, l0->Deconvolution_0.kernels@, g0, __f as int), //@ob filters_stepped_in_order.inv
            decreases min_len(l0->Deconvolution_0.kernels@, g0) - __f,
    //@end
    //@endbody
}
}
//@endunit
} // verus!
fn main() {}
