//@include prelude.rs
use std::collections::HashMap;
verus! {
// ---- which positions of the unrolled block receive which earlier activations (property C11) ----
// position i*length (1 <= i < loops) is the input of repetition i; position loops*length is the block's output.
// in-skips : every repetition after the first also receives activation 0, the block's input
// out-skips: the block's output also receives the activations at the starts of repetitions 1 .. loops-1, i.e. the outputs
//            of all earlier repetitions
pub open spec fn is_rep_start(k: int, length: int, loops: int) -> bool { k % length == 0 && length <= k < loops * length }

proof fn lemma_multiple(i: int, length: int)
    requires length >= 1, i >= 0
    ensures (i * length) % length == 0, (i * length) / length == i
{
    assert(i * length == length * i) by (nonlinear_arith);
    vstd::arithmetic::div_mod::lemma_fundamental_div_mod_converse(i * length, length, i, 0);
}
proof fn lemma_multiple_between(k: int, i: int, length: int)
    requires length >= 1, i >= 0, k % length == 0, i * length <= k < (i + 1) * length
    ensures k == i * length
{
    vstd::arithmetic::div_mod::lemma_fundamental_div_mod(k, length);
    let q = k / length;
    assert(k == length * q);
    assert(q == i) by (nonlinear_arith) requires length >= 1, i * length <= length * q < (i + 1) * length;
    assert(length * q == q * length) by (nonlinear_arith);
}
// extending the range of repetition starts by one repetition adds exactly the key i*length
proof fn lemma_step(k: int, i: int, length: int)
    requires length >= 1, i >= 1
    ensures is_rep_start(k, length, i + 1) <==> (is_rep_start(k, length, i) || k == i * length)
{
    assert((i + 1) * length == i * length + length) by (nonlinear_arith);
    assert(length <= i * length) by (nonlinear_arith) requires i >= 1, length >= 1;
    lemma_multiple(i, length);
    if k % length == 0 && i * length <= k < (i + 1) * length { lemma_multiple_between(k, i, length); }
}

//@unit feedback.skip_table prop=C11 search=feedback.forward
#[verifier::loop_isolation(false)]
fn skip_table(length: usize, loops: usize, inskips: bool, outskips: bool) -> (connect: HashMap<usize, Vec<usize>>)
    requires length >= 1, loops >= 1, length * loops < 0x1_0000_0000,
        //@requires-extra
    ensures
        forall|k: usize| #[trigger] connect@.contains_key(k) <==> ((inskips && is_rep_start(k as int, length as int, loops as int)) || (outskips && loops > 1 && k == loops * length)), //@ob exactly_these_positions
        inskips ==> forall|k: usize| is_rep_start(k as int, length as int, loops as int) ==> (#[trigger] connect@[k])@ == seq![0usize], //@ob later_repetitions_receive_the_block_input
        outskips && loops > 1 ==> connect@[(loops * length) as usize]@.len() == loops - 1
            && forall|j: int| 0 <= j < loops - 1 ==> (#[trigger] connect@[(loops * length) as usize]@[j]) == (j + 1) * length, //@ob output_receives_all_earlier_repetition_outputs
        // what Feedback::forward needs of the table (its precondition `table_ok`): every entry names at least one source
        forall|k: usize| #[trigger] connect@.contains_key(k) ==> connect@[k]@.len() >= 1, //@ob every_entry_names_at_least_one_source
{
    broadcast use vstd::std_specs::hash::group_hash_axioms;
    proof {
        assert(loops * length == length * loops) by (nonlinear_arith);
        lemma_multiple(loops as int, length as int);
    }
    //@body file=src/feedback.rs impl=Feedback fn=create part="region:/let mut connect: HashMap<usize, Vec<usize>> = HashMap::new\(\);/../if inskips \|\| outskips \{/" loops=1
    //@loop 1
        invariant
            1 <= i <= loops,
            forall|k: usize| #[trigger] connect@.contains_key(k) <==> (inskips && is_rep_start(k as int, length as int, i as int)),
            inskips ==> forall|k: usize| is_rep_start(k as int, length as int, i as int) ==> (#[trigger] connect@[k])@ == seq![0usize],
            outskips ==> outputs@.len() == i - 1 && forall|j: int| 0 <= j < i - 1 ==> (#[trigger] outputs@[j]) == (j + 1) * length,
            !outskips ==> outputs@.len() == 0,
    //@end
    //@before /if inskips \{/
                proof {
                    assert(i * length <= (loops - 1) * length) by (nonlinear_arith) requires i <= loops - 1, length >= 0;
                    assert((loops - 1) * length + length == length * loops) by (nonlinear_arith);
                    assert((i + 1) * length == i * length + length) by (nonlinear_arith);
                    lemma_multiple(i as int, length as int);
                    let ghost i1 = i as int + 1;
                    assert forall|k: usize| #[trigger] is_rep_start(k as int, length as int, i1) <==> (is_rep_start(k as int, length as int, i as int) || k == i * length) by {
                        lemma_step(k as int, i as int, length as int);
                    }
                }
    //@end
    //@endbody
    connect
}
//@endunit
} // verus!
fn main() {}
