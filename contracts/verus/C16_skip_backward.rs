//@include prelude.rs
use std::collections::HashMap;
verus! {
// R5: Tensor, Shape and the layers are opaque.  Each layer's backward pass is an uninterpreted function of (layer, incoming
// gradient, the input it is differentiated at, its pre-activation, ...): that this function is the layer's derivative is C01's.
// This unit decides, for every network, position and connection table, AT WHICH INPUT each layer is differentiated and WHICH
// gradients are summed into the gradient handed to the preceding layer -- the reverse walk of Network::backward.
pub mod tensor {
    use vstd::prelude::*;
    #[verifier::external_body] pub struct Shape { _p: u8 }
    #[verifier::external_body] pub struct Data { _p: u8 }
    pub struct Tensor { pub shape: Shape, pub data: Data }
    pub uninterp spec fn t_add(a: Tensor, b: Tensor) -> Tensor;
    pub uninterp spec fn t_sub(a: Tensor, b: Tensor) -> Tensor;
    pub uninterp spec fn t_mul(a: Tensor, b: Tensor) -> Tensor;
    pub uninterp spec fn t_mean1(a: Tensor, b: Tensor) -> Tensor;
    pub uninterp spec fn t_reshape(a: Tensor, s: Shape) -> Tensor;
    pub uninterp spec fn t_single(v: Seq<f32>) -> Tensor;
    pub uninterp spec fn shape_eq(a: Shape, b: Shape) -> bool;
    pub broadcast axiom fn reshape_same(a: Tensor, s: Shape) requires shape_eq(a.shape, s) ensures #[trigger] t_reshape(a, s) == a;
    impl Clone for Shape { #[verifier::external_body] fn clone(&self) -> (r: Self) ensures r == *self { Shape { _p: self._p } } }
    impl Clone for Tensor { #[verifier::external_body] fn clone(&self) -> (r: Self) ensures r == *self { Tensor { shape: Shape { _p: 0 }, data: Data { _p: 0 } } } }
    impl vstd::std_specs::cmp::PartialEqSpecImpl for Shape {
        open spec fn obeys_eq_spec() -> bool { true }
        open spec fn eq_spec(&self, other: &Shape) -> bool { shape_eq(*self, *other) }
    }
    impl PartialEq for Shape {
        #[verifier::external_body] fn eq(&self, other: &Self) -> (r: bool) ensures r == shape_eq(*self, *other) { true }
    }
    impl Tensor {
        #[verifier::external_body] pub fn single(v: Vec<f32>) -> (r: Tensor) ensures r == t_single(v@) { Tensor { shape: Shape { _p: 0 }, data: Data { _p: 0 } } }
        #[verifier::external_body] pub fn reshape(self, shape: Shape) -> (r: Tensor) ensures r == t_reshape(self, shape) { self }
        #[verifier::external_body] pub fn add_inplace(&mut self, other: &Tensor) ensures *final(self) == t_add(*old(self), *other) { }
        #[verifier::external_body] pub fn sub_inplace(&mut self, other: &Tensor) ensures *final(self) == t_sub(*old(self), *other) { }
        #[verifier::external_body] pub fn mul_inplace(&mut self, other: &Tensor) ensures *final(self) == t_mul(*old(self), *other) { }
        #[verifier::external_body] pub fn mean_inplace(&mut self, others: &Vec<&Tensor>) ensures others@.len() == 1 ==> *final(self) == t_mean1(*old(self), *others@[0]) { }
    }
}
use tensor::*;
pub mod dense {
    use vstd::prelude::*; use super::tensor::*;
    pub struct Dense { pub params: Data }
    pub uninterp spec fn bwd(l: Dense, g: Tensor, x: Tensor, out: Tensor) -> (Tensor, Tensor, Option<Tensor>);
    impl Dense { #[verifier::external_body] pub fn backward(&self, gradient: &Tensor, input: &Tensor, output: &Tensor) -> (r: (Tensor, Tensor, Option<Tensor>)) ensures r == bwd(*self, *gradient, *input, *output) { unimplemented!() } }
}
pub mod convolution {
    use vstd::prelude::*; use super::tensor::*;
    pub struct Convolution { pub params: Data }
    pub uninterp spec fn bwd(l: Convolution, g: Tensor, x: Tensor, out: Tensor) -> (Tensor, Tensor, Option<Tensor>);
    impl Convolution { #[verifier::external_body] pub fn backward(&self, gradient: &Tensor, input: &Tensor, output: &Tensor) -> (r: (Tensor, Tensor, Option<Tensor>)) ensures r == bwd(*self, *gradient, *input, *output) { unimplemented!() } }
}
pub mod deconvolution {
    use vstd::prelude::*; use super::tensor::*;
    pub struct Deconvolution { pub params: Data }
    pub uninterp spec fn bwd(l: Deconvolution, g: Tensor, x: Tensor, out: Tensor) -> (Tensor, Tensor, Option<Tensor>);
    impl Deconvolution { #[verifier::external_body] pub fn backward(&self, gradient: &Tensor, input: &Tensor, output: &Tensor) -> (r: (Tensor, Tensor, Option<Tensor>)) ensures r == bwd(*self, *gradient, *input, *output) { unimplemented!() } }
}
pub mod maxpool {
    use vstd::prelude::*; use super::tensor::*;
    pub struct Maxpool { pub params: Data }
    pub uninterp spec fn bwd(l: Maxpool, g: Tensor, max: Tensor) -> Tensor;
    impl Maxpool { #[verifier::external_body] pub fn backward(&self, gradient: &Tensor, max: &Tensor) -> (r: Tensor) ensures r == bwd(*self, *gradient, *max) { unimplemented!() } }
}
pub mod feedback {
    use vstd::prelude::*; use super::tensor::*;
    pub enum Accumulation { Add, Subtract, Multiply, Overwrite, Mean }
    pub struct Feedback { pub params: Data }
    pub uninterp spec fn bwd(l: Feedback, g: Tensor, inbetween: Seq<Tensor>) -> (Tensor, Tensor, Option<Tensor>);
    impl Feedback { #[verifier::external_body] pub fn backward(&self, gradient: &Tensor, inbetween: &Vec<Tensor>) -> (r: (Tensor, Tensor, Option<Tensor>)) ensures r == bwd(*self, *gradient, inbetween@) { unimplemented!() } }
}
pub enum Layer {
    Dense(dense::Dense),
    Convolution(convolution::Convolution),
    Deconvolution(deconvolution::Deconvolution),
    Maxpool(maxpool::Maxpool),
    Feedback(feedback::Feedback),
}
pub struct Network { pub layers: Vec<Layer>, pub connect: HashMap<usize, usize>, pub skipaccumulation: feedback::Accumulation }

// the input layer idx processed in the forward pass (the spec function of C16's forward unit `network.forward.skip`, verbatim)
pub open spec fn combined(acc: feedback::Accumulation, x: Tensor, src: Tensor) -> Tensor {
    let s = t_reshape(src, x.shape);
    match acc {
        feedback::Accumulation::Add => t_add(x, s),
        feedback::Accumulation::Subtract => t_sub(x, s),
        feedback::Accumulation::Multiply => t_mul(x, s),
        feedback::Accumulation::Overwrite => s,
        feedback::Accumulation::Mean => t_mean1(x, s),
    }
}
pub open spec fn processed_input(net: Network, a: Seq<Tensor>, idx: int) -> Tensor {
    if net.connect@.contains_key(idx as usize) { combined(net.skipaccumulation, a[idx], a[net.connect@[idx as usize] as int]) } else { a[idx] }
}
/// (gradient with respect to the processed input, weight gradient, bias gradient) of one layer
pub open spec fn layer_bwd(l: Layer, g: Tensor, x: Tensor, out: Tensor, max: Option<Tensor>, fb: Seq<Tensor>) -> (Tensor, Tensor, Option<Tensor>) {
    match l {
        Layer::Dense(d) => dense::bwd(d, g, x, out),
        Layer::Convolution(d) => convolution::bwd(d, g, x, out),
        Layer::Deconvolution(d) => deconvolution::bwd(d, g, x, out),
        Layer::Maxpool(d) => (maxpool::bwd(d, g, max->Some_0), t_single(Seq::empty()), None),
        Layer::Feedback(d) => feedback::bwd(d, g, fb),
    }
}
/// chain rule at a fan-out: the tensor entering layer idx also entered (additively) every layer `to` connected to it, so the
/// gradient handed on is the layer's own input gradient plus, for every such `to` (ascending), the gradient with respect to the
/// input `to` processed (`direct`, indexed from the output end; the layer's own gradient for a connection to itself)
pub open spec fn fan_out(net: Network, g: Tensor, direct: Seq<Tensor>, idx: int, upto: int) -> Tensor
    decreases upto - idx
{
    if upto <= idx { g } else {
        let t = fan_out(net, g, direct, idx, upto - 1);
        let to = upto - 1;
        if net.connect@.contains_key(to as usize) && net.connect@[to as usize] == idx {
            t_add(t, t_reshape(if to == idx { g } else { direct[net.layers@.len() - to] }, t.shape))
        } else { t }
    }
}

/// what the i-th reverse step computes: layer n-1-i differentiated at the input it processed in the forward pass, with the
/// gradient handed on by the step before
pub open spec fn step(net: Network, layer: Layer, i: int, gradients: Seq<Tensor>, a: Seq<Tensor>, u: Seq<Tensor>, m: Seq<Option<Tensor>>, fbs: Seq<Vec<Tensor>>) -> (Tensor, Tensor, Option<Tensor>) {
    let idx = net.layers@.len() - 1 - i;
    let fb = if layer is Feedback { fbs[fbs.len() - 1]@ } else { Seq::empty() };
    layer_bwd(layer, gradients[i], processed_input(net, a, idx), u[idx], m[idx], fb)
}

pub broadcast proof fn single_empty(s: Seq<f32>)
    requires s.len() == 0
    ensures #[trigger] t_single(s) == t_single(Seq::empty())
{ assert(s =~= Seq::empty()); }

//@unit network.backward.walk prop=C16,C01 search=skip.gradient
impl Network {
fn backward_step(&self, i: usize, layer: &Layer,
    gradients: &mut Vec<tensor::Tensor>, direct: &mut Vec<tensor::Tensor>,
    weight_gradient: &mut Vec<tensor::Tensor>, bias_gradient: &mut Vec<Option<tensor::Tensor>>,
    preactivated: &Vec<tensor::Tensor>, activated: &Vec<tensor::Tensor>, maxpools: &Vec<Option<tensor::Tensor>>,
    feedbacks: &mut Vec<Vec<tensor::Tensor>>)
    requires
        // the i-th step of `self.layers.iter().rev().enumerate()`: layer = layers[n-1-i]; i layers have been processed
        i < self.layers@.len(), *layer == self.layers@[self.layers@.len() - 1 - i],
        old(gradients)@.len() == i + 1, old(direct)@.len() == i + 1, old(weight_gradient)@.len() == i, old(bias_gradient)@.len() == i,
        preactivated@.len() == self.layers@.len(), activated@.len() == self.layers@.len() + 1, maxpools@.len() == self.layers@.len(),
        // what Network::connect validated: source <= target < number of layers
        forall|to: usize| #[trigger] self.connect@.contains_key(to) ==> self.connect@[to] <= to && to < self.layers@.len(),
        // one recorded pair of intermediate tensors per feedback block still to be visited (Network::forward pushes one per block)
        (*layer is Feedback) ==> old(feedbacks)@.len() >= 1,
        //@requires-extra
    ensures
        final(weight_gradient)@ == old(weight_gradient)@.push(step(*self, *layer, i as int, old(gradients)@, activated@, preactivated@, maxpools@, old(feedbacks)@).1), //@ob weights_differentiated_at_the_input_the_layer_processed
        final(bias_gradient)@ == old(bias_gradient)@.push(step(*self, *layer, i as int, old(gradients)@, activated@, preactivated@, maxpools@, old(feedbacks)@).2), //@ob bias_differentiated_at_the_input_the_layer_processed
        final(direct)@ == old(direct)@.push(step(*self, *layer, i as int, old(gradients)@, activated@, preactivated@, maxpools@, old(feedbacks)@).0), //@ob input_gradient_of_the_layer
        final(gradients)@ == old(gradients)@.push(fan_out(*self, step(*self, *layer, i as int, old(gradients)@, activated@, preactivated@, maxpools@, old(feedbacks)@).0,
            old(direct)@, self.layers@.len() - 1 - i, self.layers@.len() as int)), //@ob every_outgoing_connection_contributes
{
    broadcast use vstd::std_specs::hash::group_hash_axioms;
    broadcast use reshape_same;
    broadcast use single_empty;
    //@body file=src/network.rs impl=Network fn=backward part=closure:1 params="(i, layer)" rewrites=R13,R16,R19 loops=1
    //@loop 1
            invariant
                idx == self.layers@.len() - 1 - i, idx <= to <= self.layers@.len(),
                direct@.len() == i + 1, direct@ == old(direct)@,
                forall|t: usize| #[trigger] self.connect@.contains_key(t) ==> self.connect@[t] <= t && t < self.layers@.len(),
                total == fan_out(*self, gradient, direct@, idx as int, to as int), //@ob fan_out.inv
    //@end
    //@endbody
}
}
//@endunit
} // verus!
fn main() {}
