//@include prelude.rs
verus! {
// R5: tensor::Data with the four numeric ranks (the other variants are not mentioned by the extracted closures).
pub enum Data {
    Single(Vec<f32>),
    Double(Vec<Vec<f32>>),
    Triple(Vec<Vec<Vec<f32>>>),
    Quadruple(Vec<Vec<Vec<Vec<f32>>>>),
}
pub struct Tensor { pub data: Data }
pub struct TensorOps {}

// mean_inplace: the term each OTHER tensor contributes to cell (i[,j[,k[,l]]]) is its cell at the SAME index
// (R13: an operand of a different rank is rejected)

//@unit mean.pick.single prop=C15
impl TensorOps {
fn mean_pick_single(t: &&Tensor, i: usize) -> (r: f32)
    requires t.data is Single ==> i < t.data->Single_0@.len(),
        //@requires-extra
    ensures t.data is Single && r == t.data->Single_0@[i as int], //@ob same_index
{
    //@body file=src/tensor.rs impl=Tensor fn=mean_inplace part=closure:1 params="t" rewrites=R13 loops=0
    //@endbody
}
}
//@endunit
//@unit mean.pick.double prop=C15
impl TensorOps {
fn mean_pick_double(t: &&Tensor, i: usize, j: usize) -> (r: f32)
    requires t.data is Double ==> (i < t.data->Double_0@.len() && j < t.data->Double_0@[i as int]@.len()),
        //@requires-extra
    ensures t.data is Double && r == t.data->Double_0@[i as int]@[j as int], //@ob same_index
{
    //@body file=src/tensor.rs impl=Tensor fn=mean_inplace part=closure:2 params="t" rewrites=R13 loops=0
    //@endbody
}
}
//@endunit
//@unit mean.pick.triple prop=C15
impl TensorOps {
fn mean_pick_triple(t: &&Tensor, i: usize, j: usize, k: usize) -> (r: f32)
    requires t.data is Triple ==> (i < t.data->Triple_0@.len() && j < t.data->Triple_0@[i as int]@.len() && k < t.data->Triple_0@[i as int]@[j as int]@.len()),
        //@requires-extra
    ensures t.data is Triple && r == t.data->Triple_0@[i as int]@[j as int]@[k as int], //@ob same_index
{
    //@body file=src/tensor.rs impl=Tensor fn=mean_inplace part=closure:3 params="t" rewrites=R13 loops=0
    //@endbody
}
}
//@endunit
//@unit mean.pick.quadruple prop=C15
impl TensorOps {
fn mean_pick_quadruple(t: &&Tensor, i: usize, j: usize, k: usize, l: usize) -> (r: f32)
    requires t.data is Quadruple ==> (i < t.data->Quadruple_0@.len() && j < t.data->Quadruple_0@[i as int]@.len()
        && k < t.data->Quadruple_0@[i as int]@[j as int]@.len() && l < t.data->Quadruple_0@[i as int]@[j as int]@[k as int]@.len()),
        //@requires-extra
    ensures t.data is Quadruple && r == t.data->Quadruple_0@[i as int]@[j as int]@[k as int]@[l as int], //@ob same_index
{
    //@body file=src/tensor.rs impl=Tensor fn=mean_inplace part=closure:4 params="t" rewrites=R13 loops=0
    //@endbody
}
}
//@endunit
} // verus!
fn main() {}
